(* C18 - model of nostr_relay/rate_limiter.py (RateLimiter.evaluate_rules,
   is_limited).  Time is an integer number of clock ticks (the harness injects
   an integral clock); a rule is (interval, freq) as produced by parse_option. *)
From NR Require Import Lib.Base Lib.PyRt Gen.Rate.
Open Scope string_scope. Open Scope list_scope. Open Scope Z_scope.

Definition rule := (Z * Z)%type.

(* max(rules)[0] for a non-empty list of rules with non-negative intervals *)
Definition max_interval (rules : list rule) : Z := fold_right Z.max 0 (map fst rules).

(* the inner counting loop of evaluate_rules for one rule:
     count = 0
     for ts in timestamps:
         if (now - ts) < interval: count += 1
         if count == freq: return True          *)
Fixpoint count_hits (now interval freq count : Z) (ts : list Z) : bool :=
  match ts with
  | [] => false
  | a :: r =>
      let count' := if now - a <? interval then count + 1 else count in
      if count' =? freq then true else count_hits now interval freq count' r
  end.

Definition any_rule_hit (now : Z) (rules : list rule) (ts : list Z) : bool :=
  existsb (fun r => count_hits now (fst r) (snd r) 0 ts) rules.

(* while timestamps and now - timestamps[-1] > max_interval: timestamps.pop() *)
Fixpoint drop_stale_front (now maxi : Z) (rts : list Z) : list Z :=   (* on the reversed deque *)
  match rts with
  | [] => []
  | a :: r => if now - a >? maxi then drop_stale_front now maxi r else rts
  end.
Definition trim (now maxi : Z) (ts : list Z) : list Z := rev (drop_stale_front now maxi (rev ts)).

Definition has_zero_rule (rules : list rule) : bool := existsb (fun r => snd r =? 0) rules.

(* evaluate_rules: returns (limited?, deque afterwards) *)
Definition evaluate_rules (rules : list rule) (now : Z) (ts : list Z) : bool * list Z :=
  if has_zero_rule rules then (true, ts) else
  match ts with
  | [] => (false, [])
  | a0 :: _ =>
      if now - a0 >? max_interval rules then (false, [])
      else let ts' := trim now (max_interval rules) ts in
           (any_rule_hit now rules ts', ts')
  end.

(* ---- the per-deque step: what one arrival does to one deque ---- *)
Definition deque_step (rules : list rule) (ts : list Z) (now : Z) : bool * list Z :=
  let '(lim, ts') := evaluate_rules rules now ts in
  if lim then (true, ts') else (false, now :: ts').

(* ---- is_limited over the whole limiter state ---- *)
Definition dkey := (pystr * pystr)%type.            (* bucket, command *)
Definition dkey_eqb (a b : dkey) : bool := str_eqb (fst a) (fst b) && str_eqb (snd a) (snd b).
Definition lstate := list (dkey * list Z).
Fixpoint get_deque (k : dkey) (s : lstate) : list Z :=
  match s with [] => [] | (k', d) :: r => if dkey_eqb k k' then d else get_deque k r end.
Fixpoint set_deque (k : dkey) (d : list Z) (s : lstate) : lstate :=
  match s with
  | [] => [(k, d)]
  | (k', d') :: r => if dkey_eqb k k' then (k, d) :: r else (k', d') :: set_deque k d r
  end.

Definition cmdrules := list (pystr * list rule).     (* command -> rules *)
Definition config := list (pystr * cmdrules).        (* scope key -> command -> rules *)
Fixpoint lookup_str {A} (k : pystr) (l : list (pystr * A)) : option A :=
  match l with [] => None | (k', v) :: r => if str_eqb k k' then Some v else lookup_str k r end.

Definition g_global := pys "global".
Definition g_ip := pys "ip".

(* for key in (client_address, "global", "ip"): ... *)
Section Scan.
Variable dstep : list rule -> list Z -> Z -> bool * list Z.   (* deque_step, or the spec's step *)
Fixpoint scan_keys (cfg : config) (addr cmd : pystr) (now : Z) (keys : list pystr) (s : lstate)
  : bool * lstate :=
  match keys with
  | [] => (false, s)
  | key :: rest =>
      match lookup_str key cfg with
      | Some ((_ :: _) as cr) =>
          match lookup_str cmd cr with
          | Some rules =>
              let bucket := if str_eqb key g_global then g_global else addr in
              let k := (bucket, cmd) in
              let '(lim, d') := dstep rules (get_deque k s) now in
              let s' := set_deque k d' s in
              if lim then (true, s')
              else if negb (str_eqb key g_global || str_eqb key g_ip) then (false, s')
                   else scan_keys cfg addr cmd now rest s'
          | None => scan_keys cfg addr cmd now rest s
          end
      | _ => scan_keys cfg addr cmd now rest s
      end
  end.

Definition is_limited_gen (cfg : config) (s : lstate) (addr cmd : pystr) (now : Z) : bool * lstate :=
  match cfg with
  | [] => (false, s)
  | _ => scan_keys cfg addr cmd now [addr; g_global; g_ip] s
  end.
End Scan.
Definition is_limited := is_limited_gen deque_step.

(* a run: arrivals (time, address, command) in order; returns decisions and final state *)
Definition arrival := (Z * pystr * pystr)%type.
Fixpoint run_gen (dstep : list rule -> list Z -> Z -> bool * list Z) (cfg : config) (s : lstate)
         (arr : list arrival) : list bool * lstate :=
  match arr with
  | [] => ([], s)
  | (t, a, c) :: r =>
      let '(lim, s') := is_limited_gen dstep cfg s a c t in
      let '(ds, sf) := run_gen dstep cfg s' r in (lim :: ds, sf)
  end.
Definition run := run_gen deque_step.

(* parse_option's interval table (translated): interval name -> seconds *)
Fixpoint interval_of (name : pystr) (tbl : list (list pystr * Z)) : option Z :=
  match tbl with
  | [] => None
  | (names, v) :: r => if mem_str name names then Some v else interval_of name r
  end.

(* ---- RateLimiter.cleanup (called whenever a client disconnects) ----
   horizon = the longest interval of any rule outside the "global" scope; a per-address deque whose
   newest entry is older than that (or which is empty) is cleared.  Nothing happens without ip rules. *)
Definition scope_horizon (cr : cmdrules) : Z := fold_right Z.max 0 (map (fun p => max_interval (snd p)) cr).
Definition horizon (cfg : config) : Z :=
  fold_right Z.max 0 (map (fun p => if str_eqb (fst p) g_global then 0 else scope_horizon (snd p)) cfg).
Definition cleanup_deque (h now : Z) (d : list Z) : list Z :=
  match d with [] => [] | a :: _ => if now - a >? h then [] else d end.
Definition cleanup (cfg : config) (now : Z) (s : lstate) : lstate :=
  match lookup_str g_ip cfg with
  | Some (_ :: _) =>
      map (fun e => if str_eqb (fst (fst e)) g_global then e else (fst e, cleanup_deque (horizon cfg) now (snd e))) s
  | _ => s
  end.

(* arrivals and cleanups mixed *)
Inductive lop := LArr (a : arrival) | LCleanup (t : Z).
Fixpoint run_ops (dstep : list rule -> list Z -> Z -> bool * list Z) (clean : bool) (cfg : config) (s : lstate)
         (ops : list lop) : list bool * lstate :=
  match ops with
  | [] => ([], s)
  | LArr (t, a, c) :: r =>
      let '(lim, s') := is_limited_gen dstep cfg s a c t in
      let '(ds, sf) := run_ops dstep clean cfg s' r in (lim :: ds, sf)
  | LCleanup t :: r => run_ops dstep clean cfg (if clean then cleanup cfg t s else s) r
  end.
