(* C16 - lemmas about the dynamic lists: byte-string sets, the collection rule,
   one validation against fixed sets, the refresh as a run of atomic steps, and
   what every interleaving of a refresh with validations can observe. *)
From NR Require Import Lib.Base Lib.BaseFacts Lib.PyRt C16.Rt Gen.Validators Gen.Lists C16.Model C16.Spec.
From Coq Require Import ZifyBool.
Open Scope Z_scope.

(* ================================================================== sets *)
Lemma bmem_In x s : bmem x s = true <-> In x s.
Proof. apply mem_str_In. Qed.
Lemma bmem_false x s : bmem x s = false <-> ~ In x s.
Proof. rewrite <- bmem_In. destruct (bmem x s); split; congruence. Qed.

Lemma In_bset_add x y s : In x (bset_add y s) <-> x = y \/ In x s.
Proof.
  unfold bset_add. destruct (bmem y s) eqn:E.
  - apply bmem_In in E. split; [auto | intros [->|H]; assumption].
  - rewrite in_app_iff. simpl. split; [intros [H|[H|[]]]; auto | intros [H|H]; auto].
Qed.

Lemma In_bset_union x s t : In x (bset_union s t) <-> In x s \/ In x t.
Proof.
  unfold bset_union. revert s. induction t as [|y t IH]; intros s; simpl.
  - tauto.
  - rewrite IH, In_bset_add. split; [intros [[->|H]|H]; auto | intros [H|[->|H]]; auto].
Qed.

Lemma In_bset_inter x s t : In x (bset_inter s t) <-> In x s /\ In x t.
Proof. unfold bset_inter. rewrite filter_In, bmem_In. reflexivity. Qed.

Lemma is_nil_true {A} (l : list A) : is_nil l = true <-> l = [].
Proof. destruct l; simpl; split; congruence. Qed.
Lemma is_nil_false {A} (l : list A) : is_nil l = false <-> l <> [].
Proof. destruct l; simpl; split; congruence. Qed.
Lemma nonempty_In {A} (l : list A) : l <> [] <-> exists x, In x l.
Proof.
  destruct l as [|a l]; simpl; split.
  - congruence.
  - intros [x []].
  - intros _. exists a. left; reflexivity.
  - intros _. discriminate.
Qed.

Lemma same_set_nil (s : bset) : same_set s [] -> s = [].
Proof. destruct s as [|x s]; [reflexivity|]. intros H. destruct (proj1 (H x) (or_introl eq_refl)). Qed.

Ltac bset :=
  unfold same_set, incl in *; intros;
  repeat (rewrite ?In_bset_union, ?In_bset_inter, ?In_bset_add, ?in_app_iff in * ).

(* ================================================================== collection rule *)
Lemma hex_alphabet c : mem_N c (pys "abcdef0123456789") = is_lower_hex_char c.
Proof.
  unfold is_lower_hex_char. change (pys "abcdef0123456789") with [97; 98; 99; 100; 101; 102; 48; 49; 50; 51; 52; 53; 54; 55; 56; 57]%N.
  unfold mem_N, existsb. lia.
Qed.

Lemma forallb_ext' {A} (f g : A -> bool) l : (forall x, f x = g x) -> forallb f l = forallb g l.
Proof. intros H. induction l as [|a l IH]; simpl; [reflexivity | rewrite H, IH; reflexivity]. Qed.

Lemma ptag_pubkey_spec t b :
  ptag_pubkey t = Some b <->
  (2 <= length t)%nat /\ nth 0 t [] = pys "p" /\ length (nth 1 t []) = 64%nat /\
  is_lower_hex (ascii_lower (nth 1 t [])) = true /\ py_fromhex (ascii_lower (nth 1 t [])) = Some b.
Proof.
  unfold ptag_pubkey. cbv zeta.
  rewrite (forallb_ext' (fun c : N => mem_N c (pys "abcdef0123456789")) is_lower_hex_char (ascii_lower (nth 1 t [])) hex_alphabet).
  assert (L : length (ascii_lower (nth 1 t [])) = length (nth 1 t [])) by apply map_length.
  rewrite L. set (v := ascii_lower (nth 1 t [])) in *.
  change (is_lower_hex v) with (@forallb N is_lower_hex_char v).
  destruct (Z.of_nat (length t) >=? 2) eqn:E1; cbn [andb].
  2:{ split; [discriminate | intros (H & _); lia]. }
  destruct (str_eqb (nth 0 t []) (pys "p")) eqn:E2; cbn [andb].
  2:{ apply str_eqb_neq in E2. split; [discriminate | tauto]. }
  apply str_eqb_eq in E2.
  destruct (Z.of_nat (length (nth 1 t [])) =? 64) eqn:E3; cbn [andb].
  2:{ split; [discriminate | intros (_ & _ & H & _); lia]. }
  destruct (@forallb N is_lower_hex_char v) eqn:E4; cbv iota.
  2:{ split; [discriminate | intros (_ & _ & _ & H & _); discriminate]. }
  split.
  - intros H. split; [lia|]. split; [exact E2|]. split; [lia|]. split; [reflexivity | exact H].
  - intros (_ & _ & _ & _ & H). exact H.
Qed.

Lemma collect_fold l : forall acc b,
  In b (fold_left (fun acc t => match ptag_pubkey t with Some b => bset_add b acc | None => acc end) l acc)
  <-> In b acc \/ exists t, In t l /\ ptag_pubkey t = Some b.
Proof.
  induction l as [|t l IH]; intros acc b; simpl.
  - split; [auto | intros [H|[t [[] _]]]; exact H].
  - rewrite IH. destruct (ptag_pubkey t) as [b'|] eqn:E.
    + rewrite In_bset_add. split.
      * intros [[->|H]|[u [Hu Hb]]]; [right; exists t; auto | auto | right; exists u; auto].
      * intros [H|[u [[<-|Hu] Hb]]]; [auto | left; left; congruence | right; exists u; auto].
    + split.
      * intros [H|[u [Hu Hb]]]; [auto | right; exists u; auto].
      * intros [H|[u [[<-|Hu] Hb]]]; [auto | congruence | right; exists u; auto].
Qed.

Lemma collect_spec events b :
  In b (collect events) <-> exists evt t, In evt events /\ In t evt /\ ptag_pubkey t = Some b.
Proof.
  unfold collect. rewrite collect_fold. split.
  - intros [[]|[t [Ht Hb]]]. apply in_concat in Ht. destruct Ht as [evt [He Ht]]. exists evt, t. auto.
  - intros [evt [t [He [Ht Hb]]]]. right. exists t. split; [|exact Hb]. apply in_concat. exists evt. auto.
Qed.

Lemma collected_meaning events b : In b (collect events) <-> collected_spec events b.
Proof.
  rewrite collect_spec. unfold collected_spec. split.
  - intros [evt [t [He [Ht Hp]]]]. apply ptag_pubkey_spec in Hp. destruct Hp as (H1 & H2 & H3 & H4 & H5).
    exists evt, t, (nth 1 t []). repeat split; assumption.
  - intros [evt [t [v (He & Ht & H1 & H2 & <- & H3 & H4 & H5)]]]. exists evt, t. repeat split; try assumption.
    apply ptag_pubkey_spec. repeat split; assumption.
Qed.

(* ================================================================== one validation *)
(* the four atomic reads, all against the same sets, are the translated function *)
Lemma reader_atomic σ ev :
  rstep (ev_pubkey ev) σ (rstep (ev_pubkey ev) σ (rstep (ev_pubkey ev) σ (rstep (ev_pubkey ev) σ RA0)))
  = RDone (v_is_pubkey_allowed (g_allow σ) (g_deny σ) ev).
Proof.
  unfold v_is_pubkey_allowed, rstep.
  destruct (is_nil (g_allow σ)), (is_nil (g_deny σ)), (py_fromhex (ev_pubkey ev)) as [b|]; simpl;
    try destruct (bmem b (g_allow σ)); try destruct (bmem b (g_deny σ)); reflexivity.
Qed.

(* ================================================================== runs of the writer *)
Fixpoint witer (n : nat) (c : gsets * list instr) : gsets * list instr :=
  match n with O => c | S m => witer m (wstep c) end.

(* P holds in every state the writer passes through, Q in the state it completes in *)
Definition Run (P Q : gsets -> Prop) (c : gsets * list instr) : Prop :=
  forall n, P (fst (witer n c)) /\ (snd (witer n c) = [] -> Q (fst (witer n c))).

Lemma witer_nil n σ : witer n (σ, []) = (σ, []).
Proof. induction n; simpl; auto. Qed.

Lemma Run_nil (P Q : gsets -> Prop) σ : P σ -> Q σ -> Run P Q (σ, []).
Proof. intros HP HQ n. rewrite witer_nil. simpl. auto. Qed.

Lemma Run_step (P Q : gsets -> Prop) σ i k : P σ -> Run P Q (wstep (σ, i :: k)) -> Run P Q (σ, i :: k).
Proof. intros HP H [|n]; [simpl; split; [exact HP | discriminate] | exact (H n)]. Qed.

Lemma Run_shift P Q c : Run P Q c -> Run P Q (wstep c).
Proof. intros H n. exact (H (S n)). Qed.

Lemma witer_raise n σ k : witer n (σ, IRaise :: k) = (σ, IRaise :: k).
Proof. induction n; simpl; auto. Qed.
Lemma Run_raise (P Q : gsets -> Prop) σ k : P σ -> Run P Q (σ, IRaise :: k).
Proof. intros HP n. rewrite witer_raise. simpl. split; [exact HP | discriminate]. Qed.

Lemma Run_weaken (P Q Q' : gsets -> Prop) c : (forall σ, P σ -> Q σ -> Q' σ) -> Run P Q c -> Run P Q' c.
Proof. intros H R n. destruct (R n) as [HP HQ]. split; [exact HP | intros E; apply H; auto]. Qed.

Lemma wstep_app σ i k1 k2 :
  wstep (σ, (i :: k1) ++ k2) = (fst (wstep (σ, i :: k1)), snd (wstep (σ, i :: k1)) ++ k2).
Proof.
  destruct i; simpl; try reflexivity.
  destruct (is_nil (gget g σ)); simpl; [reflexivity | rewrite app_assoc; reflexivity].
Qed.

Lemma Run_seq (P Q1 Q2 : gsets -> Prop) k2 : (forall σ1, P σ1 -> Q1 σ1 -> Run P Q2 (σ1, k2)) ->
  forall n σ k1, Run P Q1 (σ, k1) ->
  P (fst (witer n (σ, k1 ++ k2))) /\ (snd (witer n (σ, k1 ++ k2)) = [] -> Q2 (fst (witer n (σ, k1 ++ k2)))).
Proof.
  intros H2. induction n as [|n IH]; intros σ k1 R.
  - destruct k1 as [|i k1].
    + destruct (R O) as [HP HQ]. simpl in HP, HQ. exact (H2 σ HP (HQ eq_refl) O).
    + simpl. destruct (R O) as [HP _]. split; [exact HP | discriminate].
  - destruct k1 as [|i k1].
    + destruct (R O) as [HP HQ]. simpl in HP, HQ. exact (H2 σ HP (HQ eq_refl) (S n)).
    + change (witer (S n) (σ, (i :: k1) ++ k2)) with (witer n (wstep (σ, (i :: k1) ++ k2))).
      rewrite wstep_app. apply IH.
      pose proof (Run_shift _ _ _ R) as R'. destruct (wstep (σ, i :: k1)); exact R'.
Qed.

Lemma Run_app (P Q1 Q2 : gsets -> Prop) σ k1 k2 :
  Run P Q1 (σ, k1) -> (forall σ1, P σ1 -> Q1 σ1 -> Run P Q2 (σ1, k2)) -> Run P Q2 (σ, k1 ++ k2).
Proof. intros R H n. apply (Run_seq P Q1 Q2 k2 H n σ k1 R). Qed.

(* ================================================================== the interleaved system *)
Definition Reach (c0 : gsets * list instr) (s : sys) : Prop :=
  exists n, (s_sets s, s_writer s) = witer n c0.

Lemma witer_S n c : witer (S n) c = wstep (witer n c).
Proof. revert c. induction n as [|n IH]; intros c; [reflexivity|]. simpl. rewrite <- IH. reflexivity. Qed.

Lemma reach_sstep c0 s t : Reach c0 s -> Reach c0 (sstep s t).
Proof.
  intros [n H]. destruct t as [|i].
  - exists (S n). rewrite witer_S, <- H. unfold sstep. destruct (wstep (s_sets s, s_writer s)). reflexivity.
  - exists n. exact H.
Qed.

Lemma reach_srun c0 sched : forall s, Reach c0 s -> Reach c0 (srun sched s).
Proof. unfold srun. induction sched as [|t l IH]; intros s H; simpl; [exact H | apply IH, reach_sstep, H]. Qed.

Lemma reach_P (P Q : gsets -> Prop) c0 s : Run P Q c0 -> Reach c0 s -> P (s_sets s).
Proof. intros R [n H]. destruct (R n) as [HP _]. rewrite <- H in HP. exact HP. Qed.

Lemma reach_Q (P Q : gsets -> Prop) c0 s : Run P Q c0 -> Reach c0 s -> s_writer s = [] -> Q (s_sets s).
Proof. intros R [n H] E. destruct (R n) as [_ HQ]. rewrite <- H in HQ. apply HQ. exact E. Qed.

(* a property of reader phases preserved by every read of a state satisfying P
   holds for every reader after every schedule *)
Definition readers_ok (RI : pystr -> rphase -> Prop) (rs : list (pystr * rphase)) : Prop :=
  Forall (fun r => RI (fst r) (snd r)) rs.

Lemma step_reader_ok (RI : pystr -> rphase -> Prop) σ :
  (forall pk p, RI pk p -> RI pk (rstep pk σ p)) ->
  forall rs i, readers_ok RI rs -> readers_ok RI (step_reader i σ rs).
Proof.
  intros H. induction rs as [|[pk p] rs IH]; intros i R; [destruct i; constructor|].
  inversion R as [|x l Hx Hl]; subst. destruct i as [|j]; simpl.
  - constructor; [apply H; exact Hx | exact Hl].
  - constructor; [exact Hx | apply IH; exact Hl].
Qed.

Lemma readers_invariant (P Q : gsets -> Prop) (RI : pystr -> rphase -> Prop) c0 :
  Run P Q c0 ->
  (forall σ pk p, P σ -> RI pk p -> RI pk (rstep pk σ p)) ->
  forall sched s, Reach c0 s -> readers_ok RI (s_readers s) -> readers_ok RI (s_readers (srun sched s)).
Proof.
  intros R H. unfold srun. induction sched as [|t l IH]; intros s Hr Ho; simpl; [exact Ho|].
  apply IH; [apply reach_sstep; exact Hr|].
  destruct t as [|i]; unfold sstep.
  - destruct (wstep (s_sets s, s_writer s)); exact Ho.
  - cbn [s_readers]. apply step_reader_ok; [|exact Ho]. intros pk p. apply H. exact (reach_P P Q c0 s R Hr).
Qed.

(* ================================================================== the refresh *)
Definition new_of (c : refresh_case) (g : which) : option bset :=
  match g with GAllow => rc_new_allow c | GDeny => rc_new_deny c end.
Definition seg (c : refresh_case) (g : which) : list instr :=
  match new_of c g with None => [] | Some l => publish_ops g l end.
Definition prog_of (c : refresh_case) : list instr :=
  flat_map (seg c) list_order ++ tail_ops (rc_initial c).

Definition case_of (old : gsets) (results : which -> option (list (list tag))) (initial : list pystr) : refresh_case :=
  {| rc_old := old; rc_new_allow := option_map collect (results GAllow);
     rc_new_deny := option_map collect (results GDeny); rc_initial := initial |}.

Lemma refresh_prog_of old results initial : refresh_prog results initial = prog_of (case_of old results initial).
Proof.
  unfold refresh_prog, refresh_prog_with, prog_of, seg, list_order. simpl flat_map. unfold new_of, case_of. simpl.
  destruct (results GAllow), (results GDeny); reflexivity.
Qed.

Definition baseA (c : refresh_case) : bset := match rc_new_allow c with Some l => l | None => g_allow (rc_old c) end.
Definition never_enforced (c : refresh_case) : bool :=
  is_nil (g_allow (rc_old c)) && match rc_new_allow c with Some l => is_nil l | None => true end.

Definition GoodA (c : refresh_case) (S : bset) : Prop :=
  incl S (allow_universe c) /\
  (incl (g_allow (rc_old c)) S \/ exists l, rc_new_allow c = Some l /\ incl l S) /\
  (never_enforced c = true -> S = []).
Definition GoodD (c : refresh_case) (D : bset) : Prop :=
  incl D (deny_universe c) /\
  (incl (g_deny (rc_old c)) D \/ exists l, rc_new_deny c = Some l /\ incl l D).
Definition Good (c : refresh_case) (σ : gsets) : Prop := GoodA c (g_allow σ) /\ GoodD c (g_deny σ).
Definition Final (c : refresh_case) (σ : gsets) : Prop :=
  initial_ok c = true -> same_set (g_allow σ) (final_allow c) /\ same_set (g_deny σ) (final_deny c).

Lemma no_elems {A} (s : list A) : (forall x, ~ In x s) -> s = [].
Proof. destruct s as [|a s]; [reflexivity|]. intros H. destruct (H a). left; reflexivity. Qed.

Lemma Good_old c : Good c (rc_old c).
Proof.
  split.
  - split; [|split].
    + unfold allow_universe. intros x Hx. apply in_or_app. left; exact Hx.
    + left. apply incl_refl.
    + unfold never_enforced. intros H. apply andb_prop in H. destruct H as [H _]. apply is_nil_true. exact H.
  - split.
    + unfold deny_universe. intros x Hx. apply in_or_app. left; exact Hx.
    + left. apply incl_refl.
Qed.

(* publishing the allow list *)
Lemma segA_run c σ : Good c σ -> g_allow σ = g_allow (rc_old c) ->
  Run (Good c) (fun σ' => g_deny σ' = g_deny σ /\ same_set (g_allow σ') (baseA c)) (σ, seg c GAllow).
Proof.
  intros G E. unfold seg, new_of, baseA. destruct (rc_new_allow c) as [l|] eqn:N.
  - unfold publish_ops. destruct G as [[GA1 [GA2 GA3]] GD].
    apply Run_step; [split; [split; [|split]|]; assumption|]. simpl wstep.
    set (S1 := bset_union (g_allow σ) l).
    assert (G1 : Good c {| g_allow := S1; g_deny := g_deny σ |}).
    { split; [|exact GD]. simpl. split; [|split].
      - unfold allow_universe. rewrite N. subst S1. bset. destruct H as [H|H]; [apply GA1 in H; unfold allow_universe in H; rewrite N in H; bset; tauto | tauto].
      - left. rewrite <- E. subst S1. bset. tauto.
      - intros NE. unfold never_enforced in NE. rewrite N in NE. apply andb_prop in NE. destruct NE as [N1 N2].
        apply is_nil_true in N1, N2. apply no_elems. intros x Hx. subst S1. bset. rewrite E, N1, N2 in Hx. destruct Hx as [[]|[]]. }
    apply Run_step; [exact G1|]. simpl wstep.
    set (S2 := bset_inter S1 l).
    assert (I2 : same_set S2 l).
    { subst S2 S1. bset. tauto. }
    apply Run_nil.
    + split; [|exact GD]. simpl. split; [|split].
      * intros x Hx. apply I2 in Hx. unfold allow_universe. rewrite N. bset. tauto.
      * right. exists l. split; [exact N|]. intros x Hx. apply I2. exact Hx.
      * intros NE. unfold never_enforced in NE. rewrite N in NE. apply andb_prop in NE. destruct NE as [_ N2].
        apply is_nil_true in N2. apply no_elems. intros x Hx. apply I2 in Hx. rewrite N2 in Hx. destruct Hx.
    + simpl. split; [reflexivity | exact I2].
  - apply Run_nil; [exact G|]. split; [reflexivity|]. rewrite E. intros x. reflexivity.
Qed.

(* publishing the deny list *)
Lemma segD_run c σ : Good c σ -> g_deny σ = g_deny (rc_old c) ->
  Run (Good c) (fun σ' => g_allow σ' = g_allow σ /\ same_set (g_deny σ') (final_deny c)) (σ, seg c GDeny).
Proof.
  intros G E. unfold seg, new_of, final_deny. destruct (rc_new_deny c) as [l|] eqn:N.
  - unfold publish_ops. destruct G as [GA [GD1 GD2]].
    apply Run_step; [split; [|split]; assumption|]. simpl wstep.
    set (S1 := bset_union (g_deny σ) l).
    assert (G1 : Good c {| g_allow := g_allow σ; g_deny := S1 |}).
    { split; [exact GA|]. simpl. split.
      - unfold deny_universe. rewrite N. subst S1. bset. destruct H as [H|H]; [apply GD1 in H; unfold deny_universe in H; rewrite N in H; bset; tauto | tauto].
      - left. rewrite <- E. subst S1. bset. tauto. }
    apply Run_step; [exact G1|]. simpl wstep.
    set (S2 := bset_inter S1 l).
    assert (I2 : same_set S2 l).
    { subst S2 S1. bset. tauto. }
    apply Run_nil.
    + split; [exact GA|]. simpl. split.
      * intros x Hx. apply I2 in Hx. unfold deny_universe. rewrite N. bset. tauto.
      * right. exists l. split; [exact N|]. intros x Hx. apply I2. exact Hx.
    + simpl. split; [reflexivity | exact I2].
  - apply Run_nil; [exact G|]. split; [reflexivity|]. rewrite E. intros x. reflexivity.
Qed.

(* the static keys, one atomic add each *)
Definition decodable (p : pystr) : bool := match py_fromhex p with Some _ => true | None => false end.

Lemma Good_add c σ b : Good c σ -> g_allow σ <> [] -> In b (allow_universe c) ->
  Good c {| g_allow := bset_add b (g_allow σ); g_deny := g_deny σ |} /\ bset_add b (g_allow σ) <> [].
Proof.
  intros [[GA1 [GA2 GA3]] GD] NE Hb.
  assert (NE' : bset_add b (g_allow σ) <> []).
  { apply nonempty_In. exists b. apply In_bset_add. left; reflexivity. }
  split; [|exact NE']. split; [|exact GD]. simpl. split; [|split].
  - intros x Hx. apply In_bset_add in Hx. destruct Hx as [->|Hx]; [exact Hb | apply GA1; exact Hx].
  - destruct GA2 as [H|[l [Hl H]]].
    + left. intros x Hx. apply In_bset_add. right. apply H. exact Hx.
    + right. exists l. split; [exact Hl|]. intros x Hx. apply In_bset_add. right. apply H. exact Hx.
  - intros H. apply GA3 in H. contradiction.
Qed.

Lemma adds_run c l : forall σ, Good c σ -> g_allow σ <> [] -> incl (initial_bytes l) (allow_universe c) ->
  Run (Good c)
      (fun σf => g_deny σf = g_deny σ /\
                 (forallb decodable l = true -> same_set (g_allow σf) (g_allow σ ++ initial_bytes l)))
      (σ, gen_adds GAllow l).
Proof.
  induction l as [|p r IH]; intros σ G NE Hi.
  - simpl gen_adds. apply Run_nil; [exact G|]. split; [reflexivity|]. intros _ x. simpl. rewrite app_nil_r. reflexivity.
  - simpl gen_adds. unfold initial_bytes in Hi. simpl flat_map in Hi. fold (initial_bytes r) in Hi.
    destruct (py_fromhex p) as [b|] eqn:F.
    + apply Run_step; [exact G|]. simpl wstep.
      assert (Hb : In b (allow_universe c)) by (apply Hi; left; reflexivity).
      destruct (Good_add c σ b G NE Hb) as [G' NE'].
      assert (Hi' : incl (initial_bytes r) (allow_universe c)) by (intros x Hx; apply Hi; right; exact Hx).
      refine (Run_weaken _ _ _ _ _ (IH _ G' NE' Hi')).
      intros σf _ [Hd Hs]. simpl in Hd, Hs. split; [exact Hd|].
      intros D. simpl in D. unfold decodable at 1 in D. rewrite F in D. simpl in D. specialize (Hs D).
      unfold initial_bytes. simpl flat_map. rewrite F. fold (initial_bytes r).
      intros x. rewrite (Hs x). bset. simpl. intuition congruence.
    + apply Run_raise. exact G.
Qed.

Lemma tail_run c σ : Good c σ -> same_set (g_allow σ) (baseA c) -> same_set (g_deny σ) (final_deny c) ->
  Run (Good c) (Final c) (σ, tail_ops (rc_initial c)).
Proof.
  intros G SA SD. unfold tail_ops.
  assert (FA : forall S', is_nil (baseA c) = false -> same_set S' (g_allow σ ++ initial_bytes (rc_initial c)) ->
                          same_set S' (final_allow c)).
  { intros S' NB H. unfold final_allow. fold (baseA c). rewrite NB. intros x. rewrite (H x), !in_app_iff, (SA x). reflexivity. }
  destruct (rc_initial c) as [|p r] eqn:I; simpl negb; cbv iota.
  - apply Run_nil; [exact G|]. intros _. split; [|exact SD].
    unfold final_allow. fold (baseA c). rewrite I. unfold initial_bytes. simpl flat_map. rewrite app_nil_r.
    destruct (is_nil (baseA c)) eqn:NB; [|exact SA].
    apply is_nil_true in NB. rewrite NB in SA. exact SA.
  - apply Run_step; [exact G|]. simpl wstep. destruct (is_nil (g_allow σ)) eqn:NS.
    + apply Run_nil; [exact G|]. intros _. split; [|exact SD].
      apply is_nil_true in NS. unfold final_allow. fold (baseA c).
      assert (B : baseA c = []). { apply no_elems. intros x Hx. apply SA in Hx. rewrite NS in Hx. destruct Hx. }
      rewrite B. simpl. rewrite NS. intros x. reflexivity.
    + rewrite app_nil_r. apply is_nil_false in NS.
      assert (Hi : incl (initial_bytes (p :: r)) (allow_universe c)).
      { unfold allow_universe. rewrite I. intros x Hx. apply in_or_app. right. apply in_or_app. right. exact Hx. }
      refine (Run_weaken _ _ _ _ _ (adds_run c (p :: r) σ G NS Hi)).
      intros σf _ [Hd Hs] IO. unfold initial_ok in IO. rewrite I in IO. fold decodable in IO.
      split.
      * rewrite <- I in *. apply FA; [|apply Hs; exact IO].
        apply is_nil_false. intros B. apply NS. apply no_elems. intros x Hx. apply SA in Hx. rewrite B in Hx. destruct Hx.
      * rewrite Hd. exact SD.
Qed.

(* the whole refresh, started from the old lists *)
Lemma refresh_run c : Run (Good c) (Final c) (rc_old c, prog_of c).
Proof.
  unfold prog_of, list_order. simpl flat_map. rewrite app_nil_r, <- app_assoc.
  apply (Run_app _ _ _ _ _ _ (segA_run c (rc_old c) (Good_old c) eq_refl)).
  intros σ1 G1 [D1 A1].
  apply (Run_app _ _ _ _ _ _ (segD_run c σ1 G1 D1)).
  intros σ2 G2 [A2 D2]. apply tail_run; [exact G2 | rewrite A2; exact A1 | exact D2].
Qed.

(* ================================================================== what validations can observe *)
Definition sys0 (c : refresh_case) (pks : list pystr) : sys :=
  {| s_sets := rc_old c; s_writer := prog_of c; s_readers := map (fun pk => (pk, RA0)) pks |}.

Lemma reach0 c pks : Reach (rc_old c, prog_of c) (sys0 c pks).
Proof. exists O. reflexivity. Qed.

Lemma enforced_nonempty c S : GoodA c S -> enforced_allow c = true -> S <> [].
Proof.
  intros [_ [G2 _]] E. unfold enforced_allow in E. apply andb_prop in E. destruct E as [E1 E2].
  apply negb_true_iff, is_nil_false, nonempty_In in E1. destruct E1 as [x Hx].
  destruct G2 as [H|[l [Hl H]]].
  - apply nonempty_In. exists x. apply H. exact Hx.
  - rewrite Hl in E2. apply negb_true_iff, is_nil_false, nonempty_In in E2. destruct E2 as [y Hy].
    apply nonempty_In. exists y. apply H. exact Hy.
Qed.

Lemma denied_in c D b : GoodD c D -> always_denied c b = true -> In b D.
Proof.
  intros [_ G2] A. unfold always_denied in A. apply andb_prop in A. destruct A as [A1 A2]. apply bmem_In in A1.
  destruct G2 as [H|[l [Hl H]]]; [apply H; exact A1|]. rewrite Hl in A2. apply bmem_In in A2. apply H. exact A2.
Qed.

(* in every interleaving an enforced allow list is never observed empty *)
Lemma refresh_never_empty c pks sched :
  enforced_allow c = true -> g_allow (s_sets (srun sched (sys0 c pks))) <> [].
Proof.
  intros E. pose proof (reach_srun _ sched _ (reach0 c pks)) as R.
  destruct (reach_P _ _ _ _ (refresh_run c) R) as [GA _]. exact (enforced_nonempty c _ GA E).
Qed.

Definition RI_refuse (c : refresh_case) (pk : pystr) (p : rphase) : Prop :=
  must_refuse c pk = true ->
  match p with
  | RDone None => False
  | RD0 | RD1 => exists b, py_fromhex pk = Some b /\ always_denied c b = true
  | _ => True
  end.

Lemma RI_refuse_step c σ pk p : Good c σ -> RI_refuse c pk p -> RI_refuse c pk (rstep pk σ p).
Proof.
  intros [GA GD] H M. specialize (H M). unfold must_refuse in M.
  destruct p as [| | | |r]; simpl.
  - destruct (is_nil (g_allow σ)) eqn:NS.
    + apply is_nil_true in NS.
      destruct (py_fromhex pk) as [b|] eqn:F.
      * apply orb_prop in M. destruct M as [M|M]; [|exists b; auto].
        apply andb_prop in M. destruct M as [M _]. destruct (enforced_nonempty c _ GA M NS).
      * destruct (enforced_nonempty c _ GA M NS).
    + destruct (py_fromhex pk); exact I.
  - destruct (py_fromhex pk) as [b|] eqn:F; [|exact I].
    destruct (bmem b (g_allow σ)) eqn:B; [|exact I].
    apply orb_prop in M. destruct M as [M|M]; [|exists b; auto].
    apply andb_prop in M. destruct M as [_ M]. apply negb_true_iff, bmem_false in M.
    apply bmem_In in B. destruct GA as [G1 _]. destruct (M (G1 _ B)).
  - destruct H as [b [F A]]. pose proof (denied_in c _ b GD A) as Hb.
    destruct (is_nil (g_deny σ)) eqn:ND; [apply is_nil_true in ND; rewrite ND in Hb; destruct Hb|].
    rewrite F. exists b. auto.
  - destruct H as [b [F A]]. pose proof (denied_in c _ b GD A) as Hb. rewrite F.
    apply bmem_In in Hb. rewrite Hb. exact I.
  - exact H.
Qed.

Definition RI_admit (c : refresh_case) (pk : pystr) (p : rphase) : Prop :=
  must_admit c pk = true ->
  match p with
  | RDone (Some _) => False
  | RA1 => never_enforced c = false
  | _ => True
  end.

Lemma RI_admit_step c σ pk p : Good c σ -> RI_admit c pk p -> RI_admit c pk (rstep pk σ p).
Proof.
  intros [[GA1 [GA2 GA3]] [GD1 GD2]] H M. specialize (H M). unfold must_admit in M.
  destruct (py_fromhex pk) as [b|] eqn:F; [|discriminate].
  apply andb_prop in M. destruct M as [MA MD]. apply negb_true_iff, bmem_false in MD.
  destruct p as [| | | |r]; simpl; rewrite ?F.
  - destruct (is_nil (g_allow σ)) eqn:NS; [exact I|].
    destruct (never_enforced c) eqn:NE; [|reflexivity]. rewrite (GA3 eq_refl) in NS. discriminate.
  - assert (Hb : In b (g_allow σ)).
    { unfold always_allowed in MA. fold (never_enforced c) in MA. rewrite H, orb_false_r in MA.
      apply andb_prop in MA. destruct MA as [M1 M2]. apply bmem_In in M1.
      destruct GA2 as [G|[l [Hl G]]]; [apply G; exact M1|]. rewrite Hl in M2. apply bmem_In in M2. apply G. exact M2. }
    apply bmem_In in Hb. rewrite Hb. exact I.
  - destruct (is_nil (g_deny σ)); exact I.
  - destruct (bmem b (g_deny σ)) eqn:B; [|exact I]. apply bmem_In in B. destruct (MD (GD1 _ B)).
  - exact H.
Qed.

Lemma readers_ok_nth (RI : pystr -> rphase -> Prop) rs i pk p : readers_ok RI rs -> nth_error rs i = Some (pk, p) -> RI pk p.
Proof. intros H E. unfold readers_ok in H. rewrite Forall_forall in H. exact (H _ (nth_error_In _ _ E)). Qed.

Lemma readers_ok_init (RI : pystr -> rphase -> Prop) (pks : list pystr) : (forall pk, RI pk RA0) -> readers_ok RI (map (fun pk => (pk, RA0)) pks).
Proof. intros H. unfold readers_ok. apply Forall_forall. intros [pk p] Hi. apply in_map_iff in Hi. destruct Hi as [x [E _]]. injection E as <- <-. apply H. Qed.

(* a pubkey outside the old list, the new list and the static keys is refused whenever
   the allow list is enforced before and after; a pubkey denied before and after is refused *)
Lemma refresh_refuses c pks sched i pk r :
  must_refuse c pk = true ->
  nth_error (s_readers (srun sched (sys0 c pks))) i = Some (pk, RDone r) -> r <> None.
Proof.
  intros M E.
  assert (O : readers_ok (RI_refuse c) (s_readers (srun sched (sys0 c pks)))).
  { apply (readers_invariant _ _ _ _ (refresh_run c)); [intros; apply RI_refuse_step; assumption | apply reach0 |].
    apply readers_ok_init. intros pk' _. exact I. }
  pose proof (readers_ok_nth _ _ _ _ _ O E M) as H. destruct r; [discriminate | destruct H].
Qed.

(* a pubkey allowed before and after (or no enforcement before and after) and never denied is admitted *)
Lemma refresh_admits c pks sched i pk r :
  must_admit c pk = true ->
  nth_error (s_readers (srun sched (sys0 c pks))) i = Some (pk, RDone r) -> r = None.
Proof.
  intros M E.
  assert (O : readers_ok (RI_admit c) (s_readers (srun sched (sys0 c pks)))).
  { apply (readers_invariant _ _ _ _ (refresh_run c)); [intros; apply RI_admit_step; assumption | apply reach0 |].
    apply readers_ok_init. intros pk' _. exact I. }
  pose proof (readers_ok_nth _ _ _ _ _ O E M) as H. destruct r; [destruct H | reflexivity].
Qed.

(* once the refresh has completed the lists are the query results plus the static keys *)
Lemma refresh_final c pks sched :
  s_writer (srun sched (sys0 c pks)) = [] -> Final c (s_sets (srun sched (sys0 c pks))).
Proof. intros E. exact (reach_Q _ _ _ _ (refresh_run c) (reach_srun _ sched _ (reach0 c pks)) E). Qed.

(* the unrepaired shape clear(); update() is refuted by a two-step schedule *)
Definition pub_old (g : which) (l : bset) : list instr := [IClear g; IUpdate g l].
Definition f20_old : gsets := {| g_allow := [[1%N]]; g_deny := [] |}.
Definition f20_events : list (list tag) := [[[pys "p"; repeat 49%N 64]]].
Definition f20_outsider : pystr := repeat 50%N 64.
Definition f20_sys : sys :=
  {| s_sets := f20_old;
     s_writer := refresh_prog_with pub_old (fun g => match g with GAllow => Some f20_events | GDeny => None end) [];
     s_readers := [(f20_outsider, RA0)] |}.
Lemma f20_old_shape_refuted :
  enforced_allow (case_of f20_old (fun g => match g with GAllow => Some f20_events | GDeny => None end) []) = true /\
  must_refuse (case_of f20_old (fun g => match g with GAllow => Some f20_events | GDeny => None end) []) f20_outsider = true /\
  g_allow (s_sets (srun [O] f20_sys)) = [] /\
  s_readers (srun [0; 1; 1]%nat f20_sys) = [(f20_outsider, RDone None)].
Proof. vm_compute. repeat split. Qed.
