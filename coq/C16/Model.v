(* C16 - executable model of the admission pipeline (validators.get_validator +
   the validate-then-store step of add_event) and of the dynamic allow/deny
   lists (dynamic_lists.is_pubkey_allowed read by validator threads,
   ListBuilder.run_once rewriting the two process-global sets).
   The validators themselves and the publishing statements of run_once are the
   generated definitions of Gen/Validators.v and Gen/Lists.v.  No proofs here. *)
From NR Require Import Lib.Base Lib.PyRt C16.Rt Gen.Validators Gen.Lists.
Open Scope string_scope. Open Scope list_scope. Open Scope Z_scope.

(* ------------------------------------------------------------------ validators *)
Inductive vid := VTooLarge | VSigned | VRecent | VKind | VWhite | VBlack | VPow | VHell | VService | VDyn.

(* Event.verify() is an oracle: it returns a boolean or raises *)
Inductive vres := VTrue | VFalse | VRaises (e : pystr).

Record venv := { e_now : Z; e_cfg : vconfig; e_verify : vres; e_lists : gsets }.

Definition set_id (ev : vevent) (i : pystr) : vevent :=
  {| ev_id := i; ev_pubkey := ev_pubkey ev; ev_created_at := ev_created_at ev; ev_kind := ev_kind ev;
     ev_tags := ev_tags ev; ev_content := ev_content ev; ev_sig := ev_sig ev |}.

(* event.id_bytes = bytes.fromhex(event.id): ValueError on a non-hex id, embedded
   ASCII whitespace skipped; the translated body then sees the canonical digits *)
Definition m_is_pow (now : Z) (ev : vevent) (cfg : vconfig) : option pystr :=
  match py_fromhex (ev_id ev) with
  | None => Some (pys "ValueError")
  | Some b => v_is_pow now (set_id ev (hex_of_bytes b)) cfg
  end.

(* `t[0]` on an empty tag raises IndexError; it is only evaluated when the limit
   is set and the kind is 1 or 7 *)
Definition m_is_not_hellthread (now : Z) (ev : vevent) (cfg : vconfig) : option pystr :=
  if negb (cf_hellthread_limit cfg =? 0) && mem_Z (ev_kind ev) [1; 7] && existsb is_nil (ev_tags ev)
  then Some (pys "IndexError")
  else v_is_not_hellthread now ev cfg.

Definition m_is_signed (r : vres) : option pystr :=
  match r with VTrue => None | VFalse => Some (pys "StorageError") | VRaises e => Some e end.

Definition run_validator (v : vid) (e : venv) (ev : vevent) : option pystr :=
  match v with
  | VTooLarge => v_is_not_too_large (e_now e) ev (e_cfg e)
  | VSigned => m_is_signed (e_verify e)
  | VRecent => v_is_recent (e_now e) ev (e_cfg e)
  | VKind => v_is_certain_kind (e_now e) ev (e_cfg e)
  | VWhite => v_is_author_whitelisted (e_now e) ev (e_cfg e)
  | VBlack => v_is_author_blacklisted (e_now e) ev (e_cfg e)
  | VPow => m_is_pow (e_now e) ev (e_cfg e)
  | VHell => m_is_not_hellthread (e_now e) ev (e_cfg e)
  | VService => v_is_service_event (e_now e) ev (e_cfg e)
  | VDyn => v_is_pubkey_allowed (g_allow (e_lists e)) (g_deny (e_lists e)) ev
  end.

(* get_validator(names): run in order, the first raise wins *)
Definition pipeline (vs : list vid) (e : venv) (ev : vevent) : option pystr :=
  run_in_order (map (fun v => run_validator v e) vs) ev.

(* the validate-then-admit step shared by both add_event implementations:
   nothing is stored, queued for the writer or broadcast before
   `await self.validate_event(event, Config)` has returned normally *)
Record relay := { r_stored : list pystr; r_broadcast : list pystr }.
Inductive outcome := Accepted | Refused (reason : pystr).
Definition submit (vs : list vid) (e : venv) (ev : vevent) (st : relay) : outcome * relay :=
  match pipeline vs e ev with
  | Some err => (Refused err, st)
  | None => (Accepted, {| r_stored := ev_id ev :: r_stored st; r_broadcast := ev_id ev :: r_broadcast st |})
  end.

(* ------------------------------------------------------------------ dynamic lists *)
(* what the collection loop of run_once adds to local_set, event by event, tag by tag *)
Definition collect (events : list (list tag)) : bset :=
  fold_left (fun acc t => match ptag_pubkey t with Some b => bset_add b acc | None => acc end)
            (concat events) [].

(* the refresh as a program of atomic operations.  results g = None: no queries
   configured for that list; Some evs: the tags of the events the queries returned *)
Definition refresh_prog_with (pub : which -> bset -> list instr)
           (results : which -> option (list (list tag))) (initial : list pystr) : list instr :=
  flat_map (fun g => match results g with None => [] | Some evs => pub g (collect evs) end) list_order
  ++ tail_ops initial.
Definition refresh_prog := refresh_prog_with publish_ops.

(* one atomic step of the writer (the ListBuilder task) *)
Definition wstep (c : gsets * list instr) : gsets * list instr :=
  let '(σ, k) := c in
  match k with
  | [] => (σ, [])
  | IClear g :: k' => (gset g [] σ, k')
  | IUpdate g s :: k' => (gset g (bset_union (gget g σ) s) σ, k')
  | IInter g s :: k' => (gset g (bset_inter (gget g σ) s) σ, k')
  | IAdd g x :: k' => (gset g (bset_add x (gget g σ)) σ, k')
  | IIfNonempty g body :: k' => (σ, if is_nil (gget g σ) then k' else body ++ k')
  | IRaise :: k' => (σ, IRaise :: k')         (* the task died: nothing further happens *)
  end.

(* a validator thread evaluating is_pubkey_allowed for pubkey pk: four atomic reads *)
Inductive rphase := RA0 | RA1 | RD0 | RD1 | RDone (r : option pystr).
Definition rstep (pk : pystr) (σ : gsets) (p : rphase) : rphase :=
  match p with
  | RA0 => if is_nil (g_allow σ) then RD0
           else match py_fromhex pk with None => RDone (Some (pys "ValueError")) | Some _ => RA1 end
  | RA1 => match py_fromhex pk with
           | None => RDone (Some (pys "ValueError"))
           | Some b => if bmem b (g_allow σ) then RD0 else RDone (Some (pys "StorageError"))
           end
  | RD0 => if is_nil (g_deny σ) then RDone None
           else match py_fromhex pk with None => RDone (Some (pys "ValueError")) | Some _ => RD1 end
  | RD1 => match py_fromhex pk with
           | None => RDone (Some (pys "ValueError"))
           | Some b => if bmem b (g_deny σ) then RDone (Some (pys "StorageError")) else RDone None
           end
  | RDone r => RDone r
  end.

(* the whole system: the shared sets, the writer's remaining program, the readers *)
Record sys := { s_sets : gsets; s_writer : list instr; s_readers : list (pystr * rphase) }.

Fixpoint step_reader (i : nat) (σ : gsets) (rs : list (pystr * rphase)) : list (pystr * rphase) :=
  match rs, i with
  | [], _ => []
  | (pk, p) :: r, O => (pk, rstep pk σ p) :: r
  | x :: r, S j => x :: step_reader j σ r
  end.

(* schedule entry 0 = the writer, S i = reader number i; scheduling a finished
   thread is a no-op *)
Definition sstep (s : sys) (t : nat) : sys :=
  match t with
  | O => let '(σ, k) := wstep (s_sets s, s_writer s) in
         {| s_sets := σ; s_writer := k; s_readers := s_readers s |}
  | S i => {| s_sets := s_sets s; s_writer := s_writer s; s_readers := step_reader i (s_sets s) (s_readers s) |}
  end.
Definition srun (sched : list nat) (s : sys) : sys := fold_left sstep sched s.

(* completion after the explicit schedule: the writer runs to its end, then every
   reader (deterministic drain, used by the correspondence harness) *)
Fixpoint instr_size (i : instr) : nat :=
  match i with IIfNonempty _ b => S (fold_right (fun x n => instr_size x + n)%nat O b) | _ => 1%nat end.
Definition prog_size (k : list instr) : nat := fold_right (fun x n => instr_size x + n)%nat O k.
Definition drain (s : sys) : sys :=
  let s1 := srun (repeat O (prog_size (s_writer s))) s in
  srun (flat_map (fun i => repeat (S i) 4) (seq 0 (length (s_readers s1)))) s1.
