(* C16 - runtime vocabulary of the generated file Gen/Lists.v (translation of
   nostr_relay/dynamic_lists.py) and of the C16 model: bytes.fromhex, ASCII
   lower-casing, byte-string sets, and the atomic set operations a list refresh
   is made of.  No proofs in this file. *)
From NR Require Import Lib.Base Lib.PyRt.
Open Scope list_scope. Open Scope Z_scope.

(* ---------- bytes.fromhex: pairs of hex digits (either case), ASCII whitespace
   (9,10,11,12,13,32) skipped between pairs; None = ValueError ---------- *)
Definition is_ascii_ws (c : cp) : bool :=
  (N.eqb c 32 || (N.leb 9 c && N.leb c 13))%N.
Fixpoint py_fromhex (s : pystr) : option bytes :=
  match s with
  | [] => Some []
  | a :: r =>
      if is_ascii_ws a then py_fromhex r
      else match r with
           | [] => None
           | b :: r' =>
               match hexval a, hexval b, py_fromhex r' with
               | Some x, Some y, Some t => Some ((x * 16 + y)%N :: t)
               | _, _, _ => None
               end
           end
  end.

(* str.lower() restricted to what matters here: no code point outside ASCII
   lower-cases into the hex alphabet (checked by the harness over all of
   Unicode), so only A-Z are mapped and everything else is kept. *)
Definition ascii_lower_char (c : cp) : cp := if (N.leb 65 c && N.leb c 90)%N then (c + 32)%N else c.
Definition ascii_lower (s : pystr) : pystr := map ascii_lower_char s.

(* ---------- sets of byte strings (Python set[bytes]) as lists ---------- *)
Definition bset := list bytes.
Definition bmem (x : bytes) (s : bset) : bool := mem_str x s.
Definition bset_add (x : bytes) (s : bset) : bset := if bmem x s then s else s ++ [x].
Definition bset_union (s t : bset) : bset := fold_left (fun acc x => bset_add x acc) t s.
Definition bset_inter (s t : bset) : bset := filter (fun x => bmem x t) s.

(* ---------- atomic operations on the two process-global sets ----------
   Each constructor is one step that cannot be interrupted under the GIL:
   a method call on a set whose argument is a real set (no Python-level
   callbacks: the elements are bytes objects), one add of an already built
   element, one truthiness test. *)
Inductive which := GAllow | GDeny.
Definition which_eqb (a b : which) : bool :=
  match a, b with GAllow, GAllow | GDeny, GDeny => true | _, _ => false end.

Inductive instr :=
| IClear (g : which)                          (* g.clear()                          *)
| IUpdate (g : which) (s : bset)              (* g.update(<set>)                    *)
| IInter (g : which) (s : bset)               (* g.intersection_update(<set>)       *)
| IAdd (g : which) (x : bytes)                (* one element of g.update(<generator>) *)
| IIfNonempty (g : which) (body : list instr) (* if g: <body>  - the test is the atomic step *)
| IRaise.                                     (* the refresh dies here (ValueError in a generator) *)

Record gsets := { g_allow : bset; g_deny : bset }.
Definition gget (g : which) (σ : gsets) : bset := match g with GAllow => g_allow σ | GDeny => g_deny σ end.
Definition gset (g : which) (s : bset) (σ : gsets) : gsets :=
  match g with
  | GAllow => {| g_allow := s; g_deny := g_deny σ |}
  | GDeny => {| g_allow := g_allow σ; g_deny := s |}
  end.

(* g.update(bytes.fromhex(p) for p in l): one atomic add per element; a p that is
   not hex raises ValueError inside the generator and ends the refresh there *)
Fixpoint gen_adds (g : which) (l : list pystr) : list instr :=
  match l with
  | [] => []
  | p :: r => match py_fromhex p with
              | Some b => IAdd g b :: gen_adds g r
              | None => [IRaise]
              end
  end.
