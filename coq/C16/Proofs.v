From NR Require Import Lib.Base Lib.BaseFacts Lib.PyRt C16.Rt Gen.Validators Gen.Lists C16.Model C16.Spec.
From Coq Require Import ZifyBool.
Open Scope Z_scope.

Lemma is_recent_bound now ev cfg :
  v_is_recent now ev cfg = None <-> -3600 <= now - ev_created_at ev <= cf_oldest_event cfg.
Proof.
  unfold v_is_recent.
  destruct (now - ev_created_at ev >? cf_oldest_event cfg) eqn:E1; [split; [discriminate | lia]|].
  destruct (now - ev_created_at ev <? - (3600)) eqn:E2; [split; [discriminate | lia]|].
  split; [lia | reflexivity].
Qed.
