(* C16 - lemmas: one bound per validator, the pipeline, the collection rule, and
   the refresh of the dynamic lists under every interleaving with validations. *)
From NR Require Import Lib.Base Lib.BaseFacts Lib.PyRt C16.Rt Gen.Validators Gen.Lists C16.Model C16.Spec.
From Coq Require Import ZifyBool.
Open Scope Z_scope.

(* ================================================================== validators *)
Lemma is_not_too_large_bound now ev cfg :
  v_is_not_too_large now ev cfg = None <-> Z.of_nat (length (ev_content ev)) <= cf_max_event_size cfg.
Proof.
  unfold v_is_not_too_large.
  destruct (Z.of_nat (length (ev_content ev)) >? cf_max_event_size cfg) eqn:E; split; try discriminate; try lia; reflexivity.
Qed.

Lemma is_recent_bound now ev cfg :
  v_is_recent now ev cfg = None <-> -3600 <= now - ev_created_at ev <= cf_oldest_event cfg.
Proof.
  unfold v_is_recent.
  destruct (now - ev_created_at ev >? cf_oldest_event cfg) eqn:E1; [split; [discriminate | lia]|].
  destruct (now - ev_created_at ev <? - (3600)) eqn:E2; [split; [discriminate | lia]|].
  split; [lia | reflexivity].
Qed.

Lemma is_certain_kind_bound now ev cfg :
  v_is_certain_kind now ev cfg = None <-> In (ev_kind ev) (cf_valid_kinds cfg).
Proof.
  unfold v_is_certain_kind. rewrite <- mem_Z_In.
  destruct (mem_Z (ev_kind ev) (cf_valid_kinds cfg)); simpl; split; congruence.
Qed.

Lemma is_author_whitelisted_bound now ev cfg :
  v_is_author_whitelisted now ev cfg = None <-> In (ev_pubkey ev) (cf_pubkey_whitelist cfg).
Proof.
  unfold v_is_author_whitelisted. rewrite <- mem_str_In.
  destruct (mem_str (ev_pubkey ev) (cf_pubkey_whitelist cfg)); simpl; split; congruence.
Qed.

Lemma is_author_blacklisted_bound now ev cfg :
  v_is_author_blacklisted now ev cfg = None <-> ~ In (ev_pubkey ev) (cf_pubkey_blacklist cfg).
Proof.
  unfold v_is_author_blacklisted. rewrite <- mem_str_In.
  destruct (mem_str (ev_pubkey ev) (cf_pubkey_blacklist cfg)); simpl; split; congruence.
Qed.

Lemma is_service_event_bound now ev cfg :
  v_is_service_event now ev cfg = None <-> ev_kind ev <> 31494 \/ ev_pubkey ev = cf_service_pubkey cfg.
Proof.
  unfold v_is_service_event.
  destruct (ev_kind ev =? 31494) eqn:E1; simpl.
  - destruct (str_eqb (ev_pubkey ev) (cf_service_pubkey cfg)) eqn:E2; simpl.
    + apply str_eqb_eq in E2. split; auto.
    + apply str_eqb_neq in E2. split; [discriminate|]. intros [H|H]; [lia | contradiction].
  - split; [left; lia | reflexivity].
Qed.

Definition p_count (ev : vevent) : Z :=
  Z.of_nat (length (filter (fun t => str_eqb (nth 0 t []) (pys "p")) (ev_tags ev))).

Lemma is_not_hellthread_bound now ev cfg :
  v_is_not_hellthread now ev cfg = None <->
  cf_hellthread_limit cfg = 0 \/ ~ In (ev_kind ev) [1; 7] \/ p_count ev <= cf_hellthread_limit cfg.
Proof.
  unfold v_is_not_hellthread, p_count.
  destruct (cf_hellthread_limit cfg =? 0) eqn:E0; cbn [negb andb].
  - split; [left; lia | reflexivity].
  - destruct (mem_Z (ev_kind ev) [1; 7]) eqn:Ek.
    + apply mem_Z_In in Ek.
      match goal with |- context [?a >? ?b] => destruct (a >? b) eqn:E2 end.
      * split; [discriminate|]. intros [H|[H|H]]; [lia | contradiction | lia].
      * split; [intros _; right; right; lia | reflexivity].
    + split; [|reflexivity]. intros _. right; left. rewrite <- mem_Z_In. congruence.
Qed.

(* the count over tags with a name agrees with the code's t[0] == "p" when no tag is empty *)
Lemma p_count_count_p_tags ev : existsb is_nil (ev_tags ev) = false -> p_count ev = count_p_tags ev.
Proof.
  unfold p_count, count_p_tags. intros H. do 2 f_equal.
  induction (ev_tags ev) as [|t l IH]; [reflexivity|]. simpl in H. apply orb_false_iff in H. destruct H as [Ht Hl].
  simpl. rewrite (IH Hl). destruct t; [discriminate|]. reflexivity.
Qed.

(* ---------- proof of work ---------- *)
Lemma bit_length_le n k : 0 <= n -> (bit_length n <= k <-> n < 2 ^ k).
Proof.
  intros Hn. unfold bit_length. destruct (n =? 0) eqn:E.
  - assert (n = 0) by lia. subst. split; intros H.
    + apply Z.pow_pos_nonneg; lia.
    + destruct (Z.ltb_spec k 0) as [Hk|Hk]; [|lia]. rewrite Z.pow_neg_r in H by lia. lia.
  - assert (0 < n) by lia. rewrite Z.abs_eq by lia.
    destruct (Z.ltb_spec k 0) as [Hk|Hk].
    + rewrite Z.pow_neg_r by lia. pose proof (Z.log2_nonneg n). lia.
    + split; intros H1.
      * apply Z.log2_lt_pow2; lia.
      * apply Z.log2_lt_pow2 in H1; lia.
Qed.

Lemma int_of_hex_acc_nonneg h : forall acc, 0 <= acc ->
  0 <= fold_left (fun acc c => acc * 16 + match hexval c with Some v => Z.of_N v | None => 0 end) h acc.
Proof.
  induction h as [|c h IH]; intros acc Ha; simpl; [assumption|].
  apply IH. destruct (hexval c); lia.
Qed.
Lemma int_of_hex_nonneg h : 0 <= int_of_hex h.
Proof. apply int_of_hex_acc_nonneg. lia. Qed.

Lemma is_pow_bound now ev cfg :
  v_is_pow now ev cfg = None <-> int_of_hex (ev_id ev) < 2 ^ (256 - cf_require_pow cfg).
Proof.
  unfold v_is_pow, bit_length_of_hex.
  rewrite <- (bit_length_le _ _ (int_of_hex_nonneg (ev_id ev))).
  match goal with |- context [?a <? ?b] => destruct (a <? b) eqn:E end; split; try discriminate; try lia; reflexivity.
Qed.

(* "that many leading zero bits": the id read as a big-endian bit string *)
Definition b2z (b : bool) : Z := if b then 1 else 0.
Fixpoint val_bits (l : list bool) : Z :=
  match l with [] => 0 | b :: r => b2z b * 2 ^ Z.of_nat (length r) + val_bits r end.

Lemma val_bits_range l : 0 <= val_bits l < 2 ^ Z.of_nat (length l).
Proof.
  induction l as [|b l IH]; simpl val_bits; simpl length.
  - simpl. lia.
  - rewrite Nat2Z.inj_succ, Z.pow_succ_r by lia. destruct b; simpl b2z; lia.
Qed.

Lemma bit_length_val_bits l : bit_length (val_bits l) = Z.of_nat (length l) - leading_zeros l.
Proof.
  induction l as [|b l IH]; [reflexivity|].
  simpl val_bits. simpl length. rewrite Nat2Z.inj_succ. pose proof (val_bits_range l) as R.
  destruct b; simpl b2z.
  - simpl leading_zeros. unfold bit_length.
    set (n := Z.of_nat (length l)) in *. assert (0 <= n) by lia.
    assert (P : 0 < 2 ^ n) by (apply Z.pow_pos_nonneg; lia).
    replace (1 * 2 ^ n + val_bits l =? 0) with false by lia.
    rewrite Z.abs_eq by lia.
    rewrite (Z.log2_unique (1 * 2 ^ n + val_bits l) n); try lia.
    rewrite Z.pow_succ_r by lia. lia.
  - change (leading_zeros (false :: l)) with (1 + leading_zeros l). rewrite Z.mul_0_l, Z.add_0_l, IH. lia.
Qed.

Lemma val_bits_app l1 l2 : val_bits (l1 ++ l2) = val_bits l1 * 2 ^ Z.of_nat (length l2) + val_bits l2.
Proof.
  induction l1 as [|b l1 IH]; simpl val_bits; [lia|].
  rewrite IH, app_length, Nat2Z.inj_add, Z.pow_add_r by lia. lia.
Qed.

Lemma hexval_lt c v : hexval c = Some v -> (v < 16)%N.
Proof.
  unfold hexval. intros H.
  destruct ((48 <=? c)%N && (c <=? 57)%N) eqn:E1; [injection H as <-; lia|].
  destruct ((97 <=? c)%N && (c <=? 102)%N) eqn:E2; [injection H as <-; lia|].
  destruct ((65 <=? c)%N && (c <=? 70)%N) eqn:E3; [injection H as <-; lia|]. discriminate.
Qed.

Lemma val_bits_digit v : (v < 16)%N -> val_bits (bits_of_digit v) = Z.of_N v.
Proof.
  intros H.
  assert (C : (v = 0 \/ v = 1 \/ v = 2 \/ v = 3 \/ v = 4 \/ v = 5 \/ v = 6 \/ v = 7 \/ v = 8 \/ v = 9 \/ v = 10 \/
               v = 11 \/ v = 12 \/ v = 13 \/ v = 14 \/ v = 15)%N) by lia.
  repeat (destruct C as [->|C]; [reflexivity|]). subst. reflexivity.
Qed.

Fixpoint hex_value (h : pystr) : Z :=
  match h with
  | [] => 0
  | c :: r => match hexval c with Some v => Z.of_N v | None => 0 end * 16 ^ Z.of_nat (length r) + hex_value r
  end.

Lemma int_of_hex_fold h : forall acc,
  fold_left (fun acc c => acc * 16 + match hexval c with Some v => Z.of_N v | None => 0 end) h acc
  = acc * 16 ^ Z.of_nat (length h) + hex_value h.
Proof.
  induction h as [|c h IH]; intros acc; simpl fold_left; simpl hex_value; simpl length.
  - simpl. lia.
  - rewrite IH, Nat2Z.inj_succ, Z.pow_succ_r by lia. lia.
Qed.
Lemma int_of_hex_value h : int_of_hex h = hex_value h.
Proof. unfold int_of_hex. rewrite int_of_hex_fold. lia. Qed.

Lemma bits_of_hex_length h : all_hex h = true -> Z.of_nat (length (bits_of_hex h)) = 4 * Z.of_nat (length h).
Proof.
  induction h as [|c h IH]; [reflexivity|]. unfold all_hex. simpl forallb. intros H. apply andb_prop in H. destruct H as [Hc Hh].
  unfold bits_of_hex. simpl flat_map. destruct (hexval c); [|discriminate].
  rewrite app_length. fold (bits_of_hex h). rewrite Nat2Z.inj_add, (IH Hh). simpl length. lia.
Qed.

Lemma hex_value_bits h : all_hex h = true -> hex_value h = val_bits (bits_of_hex h).
Proof.
  induction h as [|c h IH]; [reflexivity|]. intros H. pose proof H as H0. unfold all_hex in H. simpl forallb in H.
  apply andb_prop in H. destruct H as [Hc Hh].
  simpl hex_value. unfold bits_of_hex. simpl flat_map. fold (bits_of_hex h).
  destruct (hexval c) as [v|] eqn:Ev; [|discriminate].
  rewrite val_bits_app, (val_bits_digit v (hexval_lt _ _ Ev)), (IH Hh), (bits_of_hex_length h Hh).
  replace (16 ^ Z.of_nat (length h)) with (2 ^ (4 * Z.of_nat (length h))); [reflexivity|].
  rewrite Z.pow_mul_r by lia. reflexivity.
Qed.

Lemma is_pow_leading_zeros now ev cfg :
  all_hex (ev_id ev) = true -> Z.of_nat (length (ev_id ev)) = 64 ->
  (v_is_pow now ev cfg = None <-> cf_require_pow cfg <= leading_zeros (bits_of_hex (ev_id ev))).
Proof.
  intros Hh Hl. unfold v_is_pow, bit_length_of_hex.
  rewrite int_of_hex_value, (hex_value_bits _ Hh), bit_length_val_bits, (bits_of_hex_length _ Hh), Hl.
  match goal with |- context [?a <? ?b] => destruct (a <? b) eqn:E end; split; try discriminate; try lia; reflexivity.
Qed.

(* event.id_bytes: on 64 hex digits bytes.fromhex succeeds and only normalises the case *)
Lemma hexval_hexdigit d : (d < 16)%N -> hexval (hexdigit d) = Some d.
Proof.
  intros H.
  assert (C : (d = 0 \/ d = 1 \/ d = 2 \/ d = 3 \/ d = 4 \/ d = 5 \/ d = 6 \/ d = 7 \/ d = 8 \/ d = 9 \/ d = 10 \/
               d = 11 \/ d = 12 \/ d = 13 \/ d = 14 \/ d = 15)%N) by lia.
  repeat (destruct C as [->|C]; [reflexivity|]). subst. reflexivity.
Qed.

Lemma hexval_not_ws c v : hexval c = Some v -> is_ascii_ws c = false.
Proof.
  unfold hexval, is_ascii_ws. intros H.
  destruct ((48 <=? c)%N && (c <=? 57)%N) eqn:E1; [lia|].
  destruct ((97 <=? c)%N && (c <=? 102)%N) eqn:E2; [lia|].
  destruct ((65 <=? c)%N && (c <=? 70)%N) eqn:E3; [lia|]. discriminate.
Qed.

Definition digit_ok (o : option N) : bool := match o with Some _ => true | None => false end.
Lemma all_hex_map h : all_hex h = forallb digit_ok (map hexval h).
Proof. unfold all_hex. induction h as [|c h IH]; [reflexivity|]. simpl. rewrite IH. reflexivity. Qed.
Lemma bits_of_hex_map h :
  bits_of_hex h = flat_map (fun o => match o with Some v => bits_of_digit v | None => [] end) (map hexval h).
Proof. unfold bits_of_hex. induction h as [|c h IH]; [reflexivity|]. simpl. rewrite IH. reflexivity. Qed.

Lemma fromhex_all_hex n : forall s, length s = (2 * n)%nat -> all_hex s = true ->
  exists b, py_fromhex s = Some b /\ map hexval (hex_of_bytes b) = map hexval s.
Proof.
  induction n as [|n IH]; intros s Hl Hh.
  - destruct s; [|discriminate]. exists []. split; reflexivity.
  - destruct s as [|a [|b r]]; try (exfalso; simpl in Hl; lia).
    unfold all_hex in Hh. simpl forallb in Hh.
    destruct (hexval a) as [x|] eqn:Ea; [|discriminate]. destruct (hexval b) as [y|] eqn:Eb; [|discriminate].
    simpl in Hh. destruct (IH r) as [t [Ht Hm]]; [simpl in Hl; lia | exact Hh |].
    exists ((x * 16 + y)%N :: t). split.
    + simpl py_fromhex. rewrite (hexval_not_ws _ _ Ea), Ea, Eb, Ht. reflexivity.
    + pose proof (hexval_lt _ _ Ea). pose proof (hexval_lt _ _ Eb).
      unfold hex_of_bytes. simpl flat_map. fold (hex_of_bytes t). unfold hex_of_byte. simpl map. rewrite Hm, Ea, Eb.
      assert (D : ((x * 16 + y) / 16 = x)%N) by (symmetry; apply (N.div_unique _ 16 x y); lia).
      assert (M : ((x * 16 + y) mod 16 = y)%N) by (symmetry; apply (N.mod_unique _ 16 x y); lia).
      rewrite D, M.
      rewrite !hexval_hexdigit by assumption. reflexivity.
Qed.

Lemma m_is_pow_spec now ev cfg :
  all_hex (ev_id ev) = true -> Z.of_nat (length (ev_id ev)) = 64 ->
  (m_is_pow now ev cfg = None <-> cf_require_pow cfg <= leading_zeros (bits_of_hex (ev_id ev))).
Proof.
  intros Hh Hl. unfold m_is_pow.
  destruct (fromhex_all_hex 32 (ev_id ev)) as [b [Hb Hm]]; [lia | exact Hh |].
  rewrite Hb.
  assert (H1 : all_hex (ev_id (set_id ev (hex_of_bytes b))) = true) by (simpl; rewrite all_hex_map, Hm, <- all_hex_map; exact Hh).
  assert (H2 : Z.of_nat (length (ev_id (set_id ev (hex_of_bytes b)))) = 64).
  { simpl. rewrite <- (map_length hexval), Hm, map_length. exact Hl. }
  rewrite (is_pow_leading_zeros now _ cfg H1 H2). simpl ev_id.
  rewrite (bits_of_hex_map (hex_of_bytes b)), Hm, <- bits_of_hex_map. reflexivity.
Qed.

(* ---------- dynamic lists, one validation against fixed sets ---------- *)
Lemma is_pubkey_allowed_spec allowed denied ev :
  v_is_pubkey_allowed allowed denied ev = None <->
  match py_fromhex (ev_pubkey ev) with
  | Some b => (is_nil allowed || bmem b allowed) && (is_nil denied || negb (bmem b denied))
  | None => is_nil allowed && is_nil denied
  end = true.
Proof.
  unfold v_is_pubkey_allowed.
  destruct (is_nil allowed), (is_nil denied), (py_fromhex (ev_pubkey ev)) as [b|]; simpl;
    try destruct (bmem b allowed); try destruct (bmem b denied); simpl; split; congruence.
Qed.

(* ---------- every validator decides exactly according to its documented bound ---------- *)
Lemma validator_spec v e ev :
  in_domain v e ev = true -> (run_validator v e ev = None <-> spec_passes v e ev = true).
Proof.
  intros D. destruct v; unfold run_validator, spec_passes; cbv zeta.
  - rewrite is_not_too_large_bound. lia.
  - destruct (e_verify e); simpl; split; congruence.
  - rewrite is_recent_bound. lia.
  - rewrite is_certain_kind_bound, mem_Z_In. reflexivity.
  - rewrite is_author_whitelisted_bound, mem_str_In. reflexivity.
  - rewrite is_author_blacklisted_bound, <- mem_str_In.
    destruct (mem_str (ev_pubkey ev) (cf_pubkey_blacklist (e_cfg e))); simpl; split; congruence.
  - simpl in D. apply andb_prop in D. destruct D as [D1 D2].
    rewrite (m_is_pow_spec _ _ _ D1) by lia. lia.
  - simpl in D. apply negb_true_iff in D. unfold m_is_not_hellthread. rewrite D, andb_false_r.
    rewrite is_not_hellthread_bound, (p_count_count_p_tags _ D), <- mem_Z_In.
    destruct (cf_hellthread_limit (e_cfg e) =? 0) eqn:E0; cbn [orb].
    { split; [reflexivity | intros _; left; lia]. }
    destruct (mem_Z (ev_kind ev) [1; 7]) eqn:Ek; cbn [negb orb].
    2:{ split; [reflexivity | intros _; right; left; congruence]. }
    split.
    + intros [H|[H|H]]; [lia | congruence | lia].
    + intros H. right; right. lia.
  - rewrite is_service_event_bound.
    destruct (ev_kind ev =? 31494) eqn:E1; simpl.
    + rewrite str_eqb_eq. split; [intros [H|H]; [lia | exact H] | intros H; right; exact H].
    + split; [reflexivity | intros _; left; lia].
  - apply is_pubkey_allowed_spec.
Qed.

(* ================================================================== pipeline *)
Lemma run_in_order_none {A} (vs : list (A -> option pystr)) x :
  run_in_order vs x = None <-> forall v, In v vs -> v x = None.
Proof.
  induction vs as [|v vs IH]; simpl.
  - split; [intros _ v [] | reflexivity].
  - destruct (v x) eqn:E.
    + split; [discriminate|]. intros H. rewrite <- E. apply H. left; reflexivity.
    + rewrite IH. split.
      * intros H u [<-|Hu]; [exact E | apply H; exact Hu].
      * intros H u Hu. apply H. right; exact Hu.
Qed.

Lemma run_in_order_some {A} (vs : list (A -> option pystr)) x err :
  run_in_order vs x = Some err ->
  exists pre v post, vs = pre ++ v :: post /\ (forall u, In u pre -> u x = None) /\ v x = Some err.
Proof.
  induction vs as [|v vs IH]; simpl; [discriminate|].
  destruct (v x) eqn:E.
  - intros H. injection H as <-. exists [], v, vs. split; [reflexivity|]. split; [intros u []|exact E].
  - intros H. destruct (IH H) as [pre [w [post [-> [Hp Hw]]]]].
    exists (v :: pre), w, post. split; [reflexivity|]. split; [|exact Hw].
    intros u [<-|Hu]; [exact E | apply Hp; exact Hu].
Qed.

Lemma pipeline_none vs e ev :
  pipeline vs e ev = None <-> forall v, In v vs -> run_validator v e ev = None.
Proof.
  unfold pipeline. rewrite run_in_order_none. split.
  - intros H v Hv. apply (H (fun ev => run_validator v e ev)). apply in_map_iff. exists v. split; [reflexivity | exact Hv].
  - intros H f Hf. apply in_map_iff in Hf. destruct Hf as [v [<- Hv]]. apply H. exact Hv.
Qed.

(* first raise wins: the reported error is that of the first validator, in configured order, that fails *)
Lemma pipeline_some vs e ev err :
  pipeline vs e ev = Some err ->
  exists pre v post, vs = pre ++ v :: post /\ (forall u, In u pre -> run_validator u e ev = None) /\
                     run_validator v e ev = Some err.
Proof.
  unfold pipeline. intros H. destruct (run_in_order_some _ _ _ H) as [pre [f [post [Hm [Hp Hf]]]]].
  apply map_eq_app in Hm. destruct Hm as [pre' [rest [-> [<- Hr]]]].
  destruct rest as [|v post']; [discriminate|]. simpl in Hr. injection Hr as <- <-.
  exists pre', v, post'. split; [reflexivity|]. split; [|exact Hf].
  intros u Hu. apply (Hp (fun ev => run_validator u e ev)). apply in_map_iff. exists u. split; [reflexivity | exact Hu].
Qed.

(* stored or broadcast only if every configured validator passed; a refusal names a
   reason and leaves the relay state untouched *)
Lemma submit_all vs e ev st :
  (fst (submit vs e ev st) = Accepted <-> forall v, In v vs -> run_validator v e ev = None) /\
  (snd (submit vs e ev st) <> st -> forall v, In v vs -> run_validator v e ev = None) /\
  (forall err, fst (submit vs e ev st) = Refused err ->
     snd (submit vs e ev st) = st /\
     exists pre v post, vs = pre ++ v :: post /\ (forall u, In u pre -> run_validator u e ev = None) /\
                        run_validator v e ev = Some err).
Proof.
  unfold submit. destruct (pipeline vs e ev) as [err|] eqn:P; simpl.
  - split; [|split].
    + split; [discriminate|]. intros H. apply pipeline_none in H. congruence.
    + intros H. contradiction.
    + intros err' H. injection H as <-. split; [reflexivity|]. apply pipeline_some. exact P.
  - split; [|split].
    + split; [intros _; apply pipeline_none; exact P | reflexivity].
    + intros _. apply pipeline_none. exact P.
    + intros err H. discriminate.
Qed.

(* ... and therefore only if every documented bound holds *)
Lemma submit_bounds vs e ev st :
  fst (submit vs e ev st) = Accepted ->
  forall v, In v vs -> in_domain v e ev = true -> spec_passes v e ev = true.
Proof.
  intros H v Hv D. apply (validator_spec v e ev D). apply (proj1 (submit_all vs e ev st)); assumption.
Qed.
Lemma submit_refusal_justified vs e ev st err :
  fst (submit vs e ev st) = Refused err ->
  exists v, In v vs /\ (in_domain v e ev = true -> spec_passes v e ev = false).
Proof.
  intros H. destruct (proj2 (proj2 (submit_all vs e ev st)) err H) as [_ [pre [v [post [-> [_ Hv]]]]]].
  exists v. split; [apply in_or_app; right; left; reflexivity|].
  intros D. destruct (spec_passes v e ev) eqn:S; [|reflexivity].
  apply (validator_spec v e ev D) in S. congruence.
Qed.
