(* C16 - wire entry points for the correspondence harness and the executable
   statements (oracles) of the property. *)
From NR Require Import Lib.Base Lib.PyRt Lib.Wire C16.Rt Gen.Validators Gen.Lists C16.Model C16.Spec.
Open Scope string_scope. Open Scope list_scope. Open Scope Z_scope.

Definition vid_of_name (s : pystr) : option vid :=
  if str_eqb s (pys "is_not_too_large") then Some VTooLarge
  else if str_eqb s (pys "is_signed") then Some VSigned
  else if str_eqb s (pys "is_recent") then Some VRecent
  else if str_eqb s (pys "is_certain_kind") then Some VKind
  else if str_eqb s (pys "is_author_whitelisted") then Some VWhite
  else if str_eqb s (pys "is_author_blacklisted") then Some VBlack
  else if str_eqb s (pys "is_pow") then Some VPow
  else if str_eqb s (pys "is_not_hellthread") then Some VHell
  else if str_eqb s (pys "is_service_event") then Some VService
  else if str_eqb s (pys "is_pubkey_allowed") then Some VDyn
  else None.
Definition name_of_vid (v : vid) : pystr :=
  match v with
  | VTooLarge => pys "is_not_too_large" | VSigned => pys "is_signed" | VRecent => pys "is_recent"
  | VKind => pys "is_certain_kind" | VWhite => pys "is_author_whitelisted" | VBlack => pys "is_author_blacklisted"
  | VPow => pys "is_pow" | VHell => pys "is_not_hellthread" | VService => pys "is_service_event"
  | VDyn => pys "is_pubkey_allowed"
  end.
Definition vids_of_jv (v : jv) : list vid :=
  flat_map (fun x => match vid_of_name (as_str x) with Some i => [i] | None => [] end) (as_arr v).
Definition vres_of_jv (v : jv) : vres :=
  let s := as_str v in
  if str_eqb s (pys "true") then VTrue else if str_eqb s (pys "false") then VFalse else VRaises s.
Definition bset_of_jv (v : jv) : bset := map as_str (as_arr v).
Definition venv_of_jv (v : jv) : venv :=
  {| e_now := as_int (jfield "now" v); e_cfg := vconfig_of_jv (jfield "cfg" v);
     e_verify := vres_of_jv (jfield "verify" v);
     e_lists := {| g_allow := bset_of_jv (jfield "allowed" v); g_deny := bset_of_jv (jfield "denied" v) |} |}.

(* case {vs, now, cfg, verify, allowed, denied, event} -> null (admitted) | error class *)
Definition run_pipeline (v : jv) : jv :=
  jopt_str (pipeline (vids_of_jv (jfield "vs" v)) (venv_of_jv v) (vevent_of_jv (jfield "event" v))).

(* executable statement on an implementation observation `obs` (null | error class):
   admitted -> every configured validator's documented bound holds (on its domain);
   refused  -> some configured validator's bound fails or the event is outside a domain *)
Definition holds_pipeline (v : jv) : jv :=
  let vs := vids_of_jv (jfield "vs" v) in
  let e := venv_of_jv v in
  let ev := vevent_of_jv (jfield "event" v) in
  let bad := filter (fun x => negb (in_domain x e ev && spec_passes x e ev)) vs in
  let viol := filter (fun x => in_domain x e ev && negb (spec_passes x e ev)) vs in
  match jfield "obs" v with
  | JNull => match viol with
             | x :: _ => JStr (pys "admitted-despite-" ++ name_of_vid x)
             | [] => JStr (pys "ok")
             end
  | _ => match bad with
         | [] => JStr (pys "refused-without-cause")
         | _ => JStr (pys "ok")
         end
  end.

Definition tags_of_jv (v : jv) : list tag := map tag_of_jv (as_arr v).
Definition events_of_jv (v : jv) : list (list tag) := map tags_of_jv (as_arr v).
Definition run_collect (v : jv) : jv := JArr (map JBytes (collect (events_of_jv v))).

Definition opt_events (v : jv) : option (list (list tag)) :=
  match v with JNull => None | _ => Some (events_of_jv v) end.
Definition results_of_jv (v : jv) (g : which) : option (list (list tag)) :=
  match g with GAllow => opt_events (jfield "allow_events" v) | GDeny => opt_events (jfield "deny_events" v) end.
Definition jphase (p : rphase) : jv :=
  match p with RDone None => JNull | RDone (Some e) => JStr e | _ => JStr (pys "running") end.
Definition writer_status (k : list instr) : jv :=
  match k with [] => JStr (pys "done") | IRaise :: _ => JStr (pys "raised") | _ => JStr (pys "running") end.

(* case {old_allow, old_deny, allow_events|null, deny_events|null, initial, readers, sched}
   -> {readers: outcomes, allow, deny, writer} after the schedule followed by the drain *)
Definition run_refresh (v : jv) : jv :=
  let s0 := {| s_sets := {| g_allow := bset_of_jv (jfield "old_allow" v); g_deny := bset_of_jv (jfield "old_deny" v) |};
               s_writer := refresh_prog (results_of_jv v) (map as_str (as_arr (jfield "initial" v)));
               s_readers := map (fun x => (as_str x, RA0)) (as_arr (jfield "readers" v)) |} in
  let sched := map (fun x => Z.to_nat (as_int x)) (as_arr (jfield "sched" v)) in
  let s := drain (srun sched s0) in
  jobj [("readers", JArr (map (fun r => jphase (snd r)) (s_readers s)));
        ("allow", JArr (map JBytes (g_allow (s_sets s))));
        ("deny", JArr (map JBytes (g_deny (s_sets s))));
        ("writer", writer_status (s_writer s))].

(* executable statement of the refresh theorems on implementation observations:
   obs = {readers: outcomes, allow, deny, writer} *)
Definition refresh_case_of_jv (v : jv) : refresh_case :=
  {| rc_old := {| g_allow := bset_of_jv (jfield "old_allow" v); g_deny := bset_of_jv (jfield "old_deny" v) |};
     rc_new_allow := option_map collect (results_of_jv v GAllow);
     rc_new_deny := option_map collect (results_of_jv v GDeny);
     rc_initial := map as_str (as_arr (jfield "initial" v)) |}.
Fixpoint check_readers (c : refresh_case) (pks : list pystr) (obs : list jv) : pystr :=
  match pks, obs with
  | pk :: pr, o :: orest =>
      match o with
      | JNull => if must_refuse c pk then pys "admitted-during-refresh" else check_readers c pr orest
      | _ => if must_admit c pk then pys "refused-during-refresh" else check_readers c pr orest
      end
  | [], [] => pys "ok"
  | _, _ => pys "shape"
  end.
Definition holds_refresh (v : jv) : jv :=
  let c := refresh_case_of_jv v in
  let o := jfield "obs" v in
  let r := check_readers c (map as_str (as_arr (jfield "readers" v))) (as_arr (jfield "readers" o)) in
  if negb (str_eqb r (pys "ok")) then JStr r
  else if initial_ok c then
         (* with decodable static keys the refresh must run to completion and establish the final sets *)
         if negb (str_eqb (as_str (jfield "writer" o)) (pys "done")) then JStr (pys "refresh-did-not-complete")
         else if same_setb (bset_of_jv (jfield "allow" o)) (final_allow c) && same_setb (bset_of_jv (jfield "deny" o)) (final_deny c)
         then JStr (pys "ok") else JStr (pys "lists-differ-from-query-results")
       else JStr (pys "ok").

Definition suites : list (string * (jv -> jv)) :=
  [("c16.pipeline", run_pipeline); ("c16.holds", holds_pipeline); ("c16.collect", run_collect);
   ("c16.refresh", run_refresh); ("c16.refresh_holds", holds_refresh)].
Definition dispatch := dispatch_in suites.
