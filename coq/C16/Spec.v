(* C16 - what the property means, written without reference to the code's own
   formulas: the documented bound of every validator as a boolean over the event,
   the configuration, the clock and the lists; "that many leading zero bits" as
   a count over the bits of the id; what a list refresh must establish and what
   a concurrent validation may observe. *)
From NR Require Import Lib.Base Lib.PyRt C16.Rt C16.Model.
Open Scope string_scope. Open Scope list_scope. Open Scope Z_scope.

(* ---------- leading zero bits of a hex string, most significant digit first ---------- *)
Definition bits_of_digit (v : N) : list bool :=
  [N.testbit v 3; N.testbit v 2; N.testbit v 1; N.testbit v 0].
Definition bits_of_hex (h : pystr) : list bool :=
  flat_map (fun c => match hexval c with Some v => bits_of_digit v | None => [] end) h.
Fixpoint leading_zeros (l : list bool) : Z :=
  match l with false :: r => 1 + leading_zeros r | _ => 0 end.
Definition all_hex (h : pystr) : bool := forallb (fun c => match hexval c with Some _ => true | None => false end) h.

(* ---------- the documented bounds ---------- *)
Definition count_p_tags (ev : vevent) : Z :=
  Z.of_nat (length (filter (fun t => match t with n :: _ => str_eqb n (pys "p") | [] => false end) (ev_tags ev))).

Definition spec_passes (v : vid) (e : venv) (ev : vevent) : bool :=
  let cfg := e_cfg e in
  match v with
  | VTooLarge => Z.of_nat (length (ev_content ev)) <=? cf_max_event_size cfg
  | VSigned => match e_verify e with VTrue => true | _ => false end
  | VRecent => (-3600 <=? e_now e - ev_created_at ev) && (e_now e - ev_created_at ev <=? cf_oldest_event cfg)
  | VKind => mem_Z (ev_kind ev) (cf_valid_kinds cfg)
  | VWhite => mem_str (ev_pubkey ev) (cf_pubkey_whitelist cfg)
  | VBlack => negb (mem_str (ev_pubkey ev) (cf_pubkey_blacklist cfg))
  | VPow => (* the 256-bit id has at least require_pow leading zero bits *)
      cf_require_pow cfg <=? leading_zeros (bits_of_hex (ev_id ev))
  | VHell => (cf_hellthread_limit cfg =? 0) || negb (mem_Z (ev_kind ev) [1; 7])
             || (count_p_tags ev <=? cf_hellthread_limit cfg)
  | VService => negb (ev_kind ev =? 31494) || str_eqb (ev_pubkey ev) (cf_service_pubkey cfg)
  | VDyn =>
      match py_fromhex (ev_pubkey ev) with
      | Some b => (is_nil (g_allow (e_lists e)) || bmem b (g_allow (e_lists e)))
                  && (is_nil (g_deny (e_lists e)) || negb (bmem b (g_deny (e_lists e))))
      | None => is_nil (g_allow (e_lists e)) && is_nil (g_deny (e_lists e))
      end
  end.

(* the inputs on which the bound is stated (outside them the code raises something
   other than StorageError, which refuses the event as well - see pipeline_all) *)
Definition in_domain (v : vid) (e : venv) (ev : vevent) : bool :=
  match v with
  | VPow => all_hex (ev_id ev) && (Z.of_nat (length (ev_id ev)) =? 64)
  | VHell => negb (existsb is_nil (ev_tags ev))
  | VSigned => match e_verify e with VRaises _ => false | _ => true end
  | _ => true
  end.

(* ---------- lists ---------- *)
Definition same_set (a b : bset) : Prop := forall x, In x a <-> In x b.

(* every p-tag value that, lower-cased, is 64 hex digits - and nothing else *)
Definition collected_spec (events : list (list tag)) (b : bytes) : Prop :=
  exists evt t v, In evt events /\ In t evt /\ (2 <= length t)%nat /\ nth 0 t [] = pys "p" /\ nth 1 t [] = v /\
                  length v = 64%nat /\ is_lower_hex (ascii_lower v) = true /\ py_fromhex (ascii_lower v) = Some b.

(* executable oracle used on the implementation's observations of a refresh run
   with concurrent validations (the statement of the refresh theorems, as a boolean):
     - a pubkey that is in neither the old nor the new allow list nor a static key is
       refused whenever the allow list is enforced before and after;
     - a pubkey denied before and after is refused;
     - a pubkey allowed before and after and never denied is admitted. *)
Definition decode_or_nil (pk : pystr) : bytes := match py_fromhex pk with Some b => b | None => [] end.
Definition initial_bytes (initial : list pystr) : bset :=
  flat_map (fun p => match py_fromhex p with Some b => [b] | None => [] end) initial.

Record refresh_case := {
  rc_old : gsets; rc_new_allow : option bset; rc_new_deny : option bset; rc_initial : list pystr }.

Definition enforced_allow (c : refresh_case) : bool :=
  negb (is_nil (g_allow (rc_old c))) &&
  match rc_new_allow c with Some l => negb (is_nil l) | None => true end.
Definition allow_universe (c : refresh_case) : bset :=
  g_allow (rc_old c) ++ match rc_new_allow c with Some l => l | None => [] end ++ initial_bytes (rc_initial c).
Definition deny_universe (c : refresh_case) : bset :=
  g_deny (rc_old c) ++ match rc_new_deny c with Some l => l | None => [] end.
Definition always_allowed (c : refresh_case) (b : bytes) : bool :=
  (* in the list before and after, or the list empty (not enforced) before and after *)
  (bmem b (g_allow (rc_old c)) && match rc_new_allow c with Some l => bmem b l | None => true end)
  || (is_nil (g_allow (rc_old c)) && match rc_new_allow c with Some l => is_nil l | None => true end).
Definition always_denied (c : refresh_case) (b : bytes) : bool :=
  bmem b (g_deny (rc_old c)) && match rc_new_deny c with Some l => bmem b l | None => true end.

Definition must_refuse (c : refresh_case) (pk : pystr) : bool :=
  match py_fromhex pk with
  | Some b => (enforced_allow c && negb (bmem b (allow_universe c))) || always_denied c b
  | None => enforced_allow c
  end.
Definition must_admit (c : refresh_case) (pk : pystr) : bool :=
  match py_fromhex pk with
  | Some b => always_allowed c b && negb (bmem b (deny_universe c))
  | None => false
  end.

(* what the two sets must be once a refresh has completed (all static keys decodable) *)
Definition final_allow (c : refresh_case) : bset :=
  let base := match rc_new_allow c with Some l => l | None => g_allow (rc_old c) end in
  if is_nil base then [] else base ++ initial_bytes (rc_initial c).
Definition final_deny (c : refresh_case) : bset :=
  match rc_new_deny c with Some l => l | None => g_deny (rc_old c) end.
Definition initial_ok (c : refresh_case) : bool :=
  forallb (fun p => match py_fromhex p with Some _ => true | None => false end) (rc_initial c).
Definition same_setb (a b : bset) : bool := forallb (fun x => bmem x b) a && forallb (fun x => bmem x a) b.
