(* C20 - wire entry points for the correspondence harness and the executable statement. *)
From NR Require Import Lib.Base Lib.Wire C20.Model C20.Spec.
Open Scope string_scope. Open Scope list_scope. Open Scope nat_scope.

Definition nat_of (v : jv) : nat := Z.to_nat (as_int v).
Definition jnat (n : nat) : jv := JInt (Z.of_nat n).
Definition jbytes_list (l : list bytes) : jv := JArr (map JBytes l).

(* ---- client alone: {chunks:[bytes], known:[bytes]} ---- *)
Definition run_client (v : jv) : jv :=
  let chunks := map as_str (as_arr (jfield "chunks" v)) in
  let known := map as_str (as_arr (jfield "known" v)) in
  let '(ids, rest) := client_run [] chunks in
  let acts := client_actions (fun u => mem_bytes u known) ids in
  jobj [("lookups", jbytes_list (flat_map (fun a => match a with Lookup u => [u] | FanOut _ => [] end) acts));
        ("fanouts", jbytes_list (flat_map (fun a => match a with FanOut u => [u] | Lookup _ => [] end) acts));
        ("dropped", JBytes rest)].

(* ---- the whole network under a sequential schedule ---- *)
(* after each delivery the event loop runs until every coroutine is blocked again; with
   writers whose drain() does not suspend, only the handler of the connection that
   received data moves: Run i until it blocks *)
Fixpoint iter_run (n i fuel : nat) (st : sstate) : sstate :=
  match fuel with O => st | S f => iter_run n i f (step n st (Run i)) end.
Definition settle (n i : nat) (st : sstate) : sstate :=
  iter_run n i ((length (s_buf st i) / IDLEN + 1) * (n + 2) + 2) st.

Record net := mkN { srv : sstate; up : nat -> bytes; delivered : nat -> nat;
                    cbuf : nat -> bytes; looked : nat -> list bytes }.
Definition net0 : net := mkN init (fun _ => []) (fun _ => 0) (fun _ => []) (fun _ => []).

Definition down_stream (nt : net) (j : nat) : bytes := concat (map snd (s_out (srv nt) j)).

Definition op (n : nat) (nt : net) (o : jv) : net :=
  let l := as_arr o in
  let kind := as_str (nth 0 l JNull) in
  let i := nat_of (nth 1 l JNull) in
  if str_eqb kind (pys "announce") then
    mkN (srv nt) (upd (up nt) i (up nt i ++ as_str (nth 2 l JNull))) (delivered nt) (cbuf nt) (looked nt)
  else if str_eqb kind (pys "up") then
    let k := nat_of (nth 2 l JNull) in
    let chunk := firstn k (up nt i) in
    match chunk with
    | [] => nt
    | _ => mkN (settle n i (step n (srv nt) (Arrive i chunk))) (upd (up nt) i (skipn k (up nt i)))
               (delivered nt) (cbuf nt) (looked nt)
    end
  else if str_eqb kind (pys "eof") then
    mkN (settle n i (step n (srv nt) (Eof i))) (up nt) (delivered nt) (cbuf nt) (looked nt)
  else if str_eqb kind (pys "down") then
    let k := nat_of (nth 2 l JNull) in
    let chunk := firstn k (skipn (delivered nt i) (down_stream nt i)) in
    match chunk with
    | [] => nt
    | _ => let '(us, b) := feed (cbuf nt i) chunk in
           mkN (srv nt) (up nt) (upd (delivered nt) i (delivered nt i + length chunk))
               (upd (cbuf nt) i b) (upd (looked nt) i (looked nt i ++ us))
    end
  else nt.

Definition run_net (v : jv) : jv :=
  let n := nat_of (jfield "n" v) in
  let nt := fold_left (op n) (as_arr (jfield "ops" v)) net0 in
  let ws := seq 0 n in
  jobj [("lookups", JArr (map (fun j => jbytes_list (looked nt j)) ws));
        ("writes", JArr (map (fun j => jbytes_list (map snd (s_out (srv nt) j))) ws));
        ("taken", JArr (map (fun i => jbytes_list (s_taken (srv nt) i)) ws));
        ("left", JArr (map (fun j => JBytes (cbuf nt j)) ws));
        ("closed", JArr (map (fun i => JBool (match s_pc (srv nt) i with Closed => true | _ => false end)) ws))].

(* ---- the executable statement: {anns:[[id]], j, complete:[bool], seen:[id], fanouts:[id], known:[id]|null}
   -> verdict for worker j ---- *)
Definition holds_c20 (v : jv) : jv :=
  let anns := map (fun a => map as_str (as_arr a)) (as_arr (jfield "anns" v)) in
  let complete := map as_bool (as_arr (jfield "complete" v)) in
  let seen := map as_str (as_arr (jfield "seen" v)) in
  if negb (distinct (concat anns)) then JStr (pys "precondition-distinct-ids")
  else if negb (forallb (fun u => Nat.eqb (length u) IDLEN) (concat anns)) then JStr (pys "precondition-32-bytes")
  else
    let known := match jfield "known" v with JArr k => fun u => mem_bytes u (map as_str k) | _ => fun _ => true end in
    let fan_ok := match jfield "fanouts" v with
                  | JArr f => list_eqb bytes_eqb (map as_str f) (filter known seen)
                  | _ => true end in
    let verdict := check_worker anns complete (nat_of (jfield "j" v)) seen in
    if str_eqb verdict (pys "ok") && negb fan_ok then JStr (pys "found-event-not-fanned-out-once") else JStr verdict.

(* legacy reader (read(32)), for the record of what the unrepaired code did *)
Definition run_legacy (v : jv) : jv := jbytes_list (legacy_reads (map as_str (as_arr (jfield "chunks" v)))).

Definition suites : list (string * (jv -> jv)) :=
  [("c20.client", run_client); ("c20.net", run_net); ("c20.holds", holds_c20); ("c20.legacy", run_legacy)].
Definition dispatch := dispatch_in suites.
