(* C20 - framing lemmas, the server invariant, and the end-to-end statement. *)
From NR Require Import Lib.Base C20.Model C20.Spec.
Open Scope list_scope. Open Scope nat_scope.

Lemma IDLEN_val : IDLEN = 32.
Proof. reflexivity. Qed.
Global Opaque IDLEN.
Ltac idl := pose proof IDLEN_val.

(* ---------- framing ---------- *)
Lemma app_eq_len {A} (a a' b b' : list A) :
  length a = length a' -> a ++ b = a' ++ b' -> a = a' /\ b = b'.
Proof.
  revert a'. induction a as [|x a IH]; intros [|y a'] L E; simpl in *; try discriminate.
  - split; [reflexivity | assumption].
  - inversion E; subst. destruct (IH a') as [-> ->]; [lia | assumption |]. split; reflexivity.
Qed.

Lemma drain_framed fuel : forall buf, length buf <= fuel ->
  Framed buf (fst (drain fuel buf)) (snd (drain fuel buf)).
Proof.
  induction fuel as [|f IH]; intros buf L.
  - destruct buf; simpl in L; [|lia]. simpl. repeat split; [constructor | idl; simpl; lia].
  - simpl. destruct (IDLEN <=? length buf) eqn:E.
    + apply Nat.leb_le in E.
      assert (L' : length (skipn IDLEN buf) <= f) by (rewrite skipn_length; idl; lia).
      specialize (IH _ L'). destruct (drain f (skipn IDLEN buf)) as [us b]. simpl in *.
      destruct IH as [E1 [F1 R1]]. repeat split.
      * cbn [concat]. rewrite <- app_assoc, <- E1. symmetry; apply firstn_skipn.
      * constructor; [|assumption]. unfold len32. rewrite firstn_length. lia.
      * assumption.
    + apply Nat.leb_gt in E. simpl. repeat split; [constructor | assumption].
Qed.

Lemma units_of_framed buf : Framed buf (fst (units_of buf)) (snd (units_of buf)).
Proof. apply drain_framed. apply Nat.le_refl. Qed.

Lemma framed_unique s : forall us r us' r', Framed s us r -> Framed s us' r' -> us = us' /\ r = r'.
Proof.
  intros us; revert s. induction us as [|u t IH]; intros s r us' r' [E [F R]] [E' [F' R']].
  - simpl in E. rewrite E in E'. clear E. destruct us' as [|u' t'].
    + simpl in E'. split; [reflexivity | assumption].
    + exfalso. pose proof (Forall_inv F') as Hu. simpl in E'. rewrite E' in R.
      rewrite !app_length in R. unfold len32 in Hu. lia.
  - destruct us' as [|u' t'].
    + exfalso. pose proof (Forall_inv F) as Hu. simpl in E'. rewrite E' in E. clear E'. simpl in E. rewrite E in R'.
      rewrite !app_length in R'. unfold len32 in Hu. lia.
    + pose proof (Forall_inv F) as Hu. pose proof (Forall_inv_tail F) as Ft.
      pose proof (Forall_inv F') as Hu'. pose proof (Forall_inv_tail F') as Ft'.
      rewrite E in E'. simpl in E'. rewrite <- !app_assoc in E'.
      destruct (app_eq_len u u' _ _ (eq_trans Hu (eq_sym Hu')) E') as [-> E2].
      destruct (IH (concat t ++ r) r t' r') as [-> ->].
      * repeat split; assumption.
      * repeat split; assumption.
      * split; reflexivity.
Qed.

Lemma framed_app s us r t us' r' :
  Framed s us r -> Framed (r ++ t) us' r' -> Framed (s ++ t) (us ++ us') r'.
Proof.
  intros [E [F R]] [E' [F' R']]. repeat split.
  - rewrite E, concat_app, <- !app_assoc, E'. reflexivity.
  - apply Forall_app; split; assumption.
  - assumption.
Qed.

Lemma framed_concat ids p : Forall len32 ids -> length p < IDLEN -> Framed (concat ids ++ p) ids p.
Proof. intros; repeat split; assumption. Qed.

Lemma client_run_framed : forall chunks buf, length buf < IDLEN ->
  Framed (buf ++ concat chunks) (fst (client_run buf chunks)) (snd (client_run buf chunks)).
Proof.
  induction chunks as [|c r IH]; intros buf L.
  - simpl. rewrite app_nil_r. repeat split; [constructor | assumption].
  - simpl. unfold feed. pose proof (units_of_framed (buf ++ c)) as Fr.
    destruct (units_of (buf ++ c)) as [us b]. simpl in Fr.
    assert (Lb : length b < IDLEN) by (destruct Fr as [_ [_ H]]; exact H).
    specialize (IH b Lb). destruct (client_run b r) as [us' b']. simpl in *.
    rewrite app_assoc. eapply framed_app; eassumption.
Qed.

(* the framed reader delivers exactly the ids that were written, whatever the chunking;
   a trailing partial id is left in the buffer (dropped at EOF) *)
Lemma client_exact chunks ids p :
  Forall len32 ids -> length p < IDLEN -> concat chunks = concat ids ++ p ->
  client_run [] chunks = (ids, p).
Proof.
  intros F L E. pose proof (client_run_framed chunks [] ltac:(idl; simpl; lia)) as Fr.
  simpl in Fr. rewrite E in Fr.
  destruct (framed_unique _ _ _ _ _ Fr (framed_concat ids p F L)) as [E1 E2].
  destruct (client_run [] chunks); simpl in *; subst; reflexivity.
Qed.

Lemma prefix_decompose : forall ids m, Forall len32 ids ->
  exists k p, firstn m (concat ids) = concat (firstn k ids) ++ p /\ length p < IDLEN.
Proof.
  induction ids as [|u t IH]; intros m F.
  - exists 0, []. simpl. rewrite firstn_nil. split; [reflexivity | idl; lia].
  - inversion F as [|? ? Hu Ft]; subst. unfold len32 in Hu. destruct (Nat.ltb m IDLEN) eqn:E.
    + apply Nat.ltb_lt in E. exists 0, (firstn m (concat (u :: t))). split; [reflexivity|].
      rewrite firstn_length. lia.
    + apply Nat.ltb_ge in E. destruct (IH (m - IDLEN) Ft) as [k [p [E1 L]]].
      exists (S k), p. split; [|assumption]. simpl. rewrite firstn_app, Hu, E1.
      rewrite firstn_all2 by lia. rewrite app_assoc. reflexivity.
Qed.

Lemma firstn_In' {A} : forall (l : list A) k x, In x (firstn k l) -> In x l.
Proof.
  induction l as [|y l IH]; intros k x H; destruct k; simpl in *; try contradiction.
  destruct H as [->|H]; [left; reflexivity | right; eapply IH; eassumption].
Qed.

Lemma app_prefix_firstn {A} : forall (l1 l2 l : list A) k, l1 ++ l2 = firstn k l -> l1 = firstn (length l1) l.
Proof.
  induction l1 as [|x l1 IH]; intros l2 l k E; [reflexivity|].
  destruct k; [discriminate|]. destruct l as [|y l]; [discriminate|]. simpl in E. inversion E; subst.
  simpl. f_equal. eapply IH; eassumption.
Qed.

(* ---------- small facts about from / upd / peers ---------- *)
Lemma upd_same {A} (f : nat -> A) i v : upd f i v i = v.
Proof. unfold upd. rewrite Nat.eqb_refl. reflexivity. Qed.
Lemma upd_other {A} (f : nat -> A) i v k : k <> i -> upd f i v k = f k.
Proof. intros H. unfold upd. apply Nat.eqb_neq in H. rewrite H. reflexivity. Qed.

Lemma from_app i l1 l2 : from i (l1 ++ l2) = from i l1 ++ from i l2.
Proof. unfold from. rewrite filter_app, map_app. reflexivity. Qed.
Lemma from_one_same i u : from i [(i, u)] = [u].
Proof. unfold from. simpl. rewrite Nat.eqb_refl. reflexivity. Qed.
Lemma from_one_other i k u : k <> i -> from i [(k, u)] = [].
Proof. intros H. unfold from. simpl. apply Nat.eqb_neq in H. rewrite H. reflexivity. Qed.

Definition mem_nat (j : nat) (l : list nat) : bool := existsb (Nat.eqb j) l.
Lemma mem_nat_In j l : mem_nat j l = true <-> In j l.
Proof.
  unfold mem_nat. rewrite existsb_exists. split.
  - intros [x [H E]]. apply Nat.eqb_eq in E. subst. assumption.
  - intros H. exists j. split; [assumption | apply Nat.eqb_refl].
Qed.
Lemma mem_nat_false j l : mem_nat j l = false <-> ~ In j l.
Proof. rewrite <- mem_nat_In. destruct (mem_nat j l); split; congruence. Qed.

Lemma peers_In n i j : In j (peers n i) <-> j <> i /\ j < n.
Proof.
  unfold peers. rewrite filter_In, in_seq, negb_true_iff, Nat.eqb_neq. lia.
Qed.
Lemma peers_NoDup n i : NoDup (peers n i).
Proof. apply NoDup_filter, seq_NoDup. Qed.

(* ---------- the server invariant ---------- *)
Definition expected (n : nat) (st : sstate) (i j : nat) : list bytes :=
  if Nat.eqb j i || negb (j <? n) then [] else
  match s_pc st i with
  | Forwarding u todo => if mem_nat j todo then removelast (s_taken st i) else s_taken st i
  | _ => s_taken st i
  end.

Record Inv (n : nat) (st : sstate) : Prop := {
  inv_len : forall i, Forall len32 (s_taken st i);
  inv_arr : forall i, match s_pc st i with
                      | Closed => s_eof st i = true /\
                                  exists p, s_arr st i = concat (s_taken st i) ++ p /\ length p < IDLEN
                      | _ => s_arr st i = concat (s_taken st i) ++ s_buf st i
                      end;
  inv_fw : forall i u todo, s_pc st i = Forwarding u todo ->
             (exists T, s_taken st i = T ++ [u]) /\ NoDup todo /\ (forall j, In j todo -> j <> i /\ j < n);
  inv_out : forall i j, s_pc st j <> Closed -> from i (s_out st j) = expected n st i j;
  inv_outlen : forall j, Forall (fun p => len32 (snd p)) (s_out st j) }.

Lemma inv_init n : Inv n init.
Proof.
  constructor; simpl; intros.
  - constructor.
  - reflexivity.
  - discriminate.
  - unfold expected. simpl. destruct (Nat.eqb j i || negb (j <? n)); reflexivity.
  - constructor.
Qed.

Ltac upd_cases i k :=
  destruct (Nat.eq_dec k i) as [->|?]; [rewrite ?upd_same | rewrite ?upd_other by assumption].

Lemma live_peers_In n pcs i j : In j (live_peers n pcs i) <-> (j <> i /\ j < n) /\ pcs j <> Closed.
Proof.
  unfold live_peers. rewrite filter_In, peers_In, negb_true_iff. split; intros [H1 H2]; (split; [exact H1|]).
  - intros C. rewrite C in H2. discriminate.
  - destruct (pcs j); try reflexivity. congruence.
Qed.
Lemma live_peers_NoDup n pcs i : NoDup (live_peers n pcs i).
Proof. apply NoDup_filter, peers_NoDup. Qed.

Lemma inv_step n st l : Inv n st -> Inv n (step n st l).
Proof.
  intros [Hlen Harr Hfw Hout Holen]. destruct l as [i chunk | i | i]; simpl.
  - (* Arrive *)
    destruct (s_eof st i) eqn:Eeof; [constructor; assumption|].
    constructor; simpl; try assumption.
    + intros k. specialize (Harr k). upd_cases i k; [|exact Harr].
      destruct (s_pc st i); try (rewrite Harr, app_assoc; reflexivity).
      destruct Harr as [H _]. congruence.
  - (* Eof *)
    constructor; simpl; try assumption.
    intros k. specialize (Harr k). destruct (s_pc st k); try exact Harr.
    destruct Harr as [H1 H2]. split; [|exact H2]. upd_cases i k; [reflexivity | exact H1].
  - (* Run *)
    destruct (s_pc st i) as [|u todo|] eqn:Epc.
    + (* Reading *)
      destruct (IDLEN <=? length (s_buf st i)) eqn:E.
      * apply Nat.leb_le in E. constructor; simpl.
        -- intros k. upd_cases i k; [|apply Hlen]. apply Forall_app. split; [apply Hlen|].
           constructor; [|constructor]. unfold len32. rewrite firstn_length. lia.
        -- intros k. specialize (Harr k). upd_cases i k; [|exact Harr].
           rewrite Epc in Harr. rewrite Harr, concat_app. simpl. rewrite app_nil_r, <- app_assoc, firstn_skipn.
           reflexivity.
        -- intros k u' todo'. upd_cases i k; [|apply Hfw]. intros H. inversion H; subst.
           split; [eexists; reflexivity|]. split; [apply live_peers_NoDup|]. intros j Hj.
           apply live_peers_In in Hj. tauto.
        -- intros k j Hj.
           assert (Hj' : s_pc st j <> Closed).
           { destruct (Nat.eq_dec j i) as [->|Hji]; [congruence|]. rewrite upd_other in Hj by assumption. exact Hj. }
           rewrite (Hout k j Hj'). unfold expected. simpl.
           destruct (Nat.eqb j k || negb (j <? n)) eqn:Ec; [reflexivity|].
           upd_cases i k; [|reflexivity]. rewrite Epc.
           apply orb_false_iff in Ec. destruct Ec as [E1 E2]. apply Nat.eqb_neq in E1.
           apply negb_false_iff, Nat.ltb_lt in E2.
           assert (M : mem_nat j (live_peers n (s_pc st) i) = true).
           { apply mem_nat_In, live_peers_In. repeat split; assumption. }
           rewrite M, removelast_last. reflexivity.
        -- exact Holen.
      * destruct (s_eof st i) eqn:Eeof; [|constructor; assumption].
        apply Nat.leb_gt in E. constructor; simpl; try assumption.
        -- intros k. specialize (Harr k). upd_cases i k; [|exact Harr].
           rewrite Epc in Harr. split; [assumption|]. exists (s_buf st i). split; assumption.
        -- intros k u' todo'. upd_cases i k; [discriminate | apply Hfw].
        -- intros k j Hj.
           assert (Hj' : s_pc st j <> Closed).
           { destruct (Nat.eq_dec j i) as [->|Hji]; [congruence|]. rewrite upd_other in Hj by assumption. exact Hj. }
           rewrite (Hout k j Hj'). unfold expected. simpl.
           destruct (Nat.eqb j k || negb (j <? n)); [reflexivity|].
           upd_cases i k; [rewrite Epc|]; reflexivity.
    + (* Forwarding *)
      destruct (Hfw i u todo Epc) as [[T ET] [ND Hin]].
      destruct todo as [|j r].
      * constructor; simpl; try assumption.
        -- intros k. specialize (Harr k). upd_cases i k; [|exact Harr]. rewrite Epc in Harr. exact Harr.
        -- intros k u' todo'. upd_cases i k; [discriminate | apply Hfw].
        -- intros k j Hj.
           assert (Hj' : s_pc st j <> Closed).
           { destruct (Nat.eq_dec j i) as [->|Hji]; [congruence|]. rewrite upd_other in Hj by assumption. exact Hj. }
           rewrite (Hout k j Hj'). unfold expected. simpl.
           destruct (Nat.eqb j k || negb (j <? n)); [reflexivity|].
           upd_cases i k; [rewrite Epc|]; reflexivity.
      * inversion ND as [|? ? Hnotin ND']; subst.
        destruct (Hin j (or_introl eq_refl)) as [Hji Hjn].
        constructor; simpl; try assumption.
        -- intros k. specialize (Harr k). upd_cases i k; [|exact Harr]. rewrite Epc in Harr. exact Harr.
        -- intros k u' todo'. upd_cases i k; [|apply Hfw]. intros H. inversion H; subst.
           split; [exists T; assumption|]. split; [assumption|]. intros j' Hj'. apply Hin. right; assumption.
        -- intros k j' Hc.
           assert (Hc' : s_pc st j' <> Closed).
           { destruct (Nat.eq_dec j' i) as [->|Hji']; [congruence|]. rewrite upd_other in Hc by assumption. exact Hc. }
           unfold expected. simpl. upd_cases j j'.
           ++ rewrite from_app, (Hout k j Hc'). unfold expected.
              destruct (Nat.eq_dec k i) as [->|Hki].
              ** rewrite upd_same, from_one_same, Epc.
                 apply Nat.eqb_neq in Hji. rewrite Hji. simpl.
                 apply Nat.ltb_lt in Hjn. rewrite Hjn. simpl. rewrite Nat.eqb_refl. simpl.
                 apply mem_nat_false in Hnotin. rewrite Hnotin, ET, removelast_last. reflexivity.
              ** rewrite upd_other by assumption. rewrite from_one_other by congruence. apply app_nil_r.
           ++ rewrite (Hout k j' Hc'). unfold expected.
              destruct (Nat.eqb j' k || negb (j' <? n)); [reflexivity|].
              upd_cases i k; [|reflexivity]. rewrite Epc. simpl.
              assert (Nat.eqb j' j = false) by (apply Nat.eqb_neq; assumption).
              rewrite H. reflexivity.
        -- intros j'. upd_cases j j'; [|apply Holen]. apply Forall_app. split; [apply Holen|].
           constructor; [|constructor]. simpl. specialize (Hlen i). rewrite ET in Hlen.
           apply Forall_app in Hlen. destruct Hlen as [_ Hu]. inversion Hu; assumption.
    + constructor; assumption.
Qed.

Lemma inv_run n ls : forall st, Inv n st -> Inv n (run n st ls).
Proof.
  unfold run. induction ls as [|l ls IH]; intros st H; simpl; [assumption|].
  apply IH, inv_step, H.
Qed.

(* what arrived on connection i is the concatenation of the pieces delivered before its EOF:
   the chunking is arbitrary *)
Fixpoint accepted (i : nat) (closed : bool) (ls : list label) : bytes :=
  match ls with
  | [] => []
  | Arrive k c :: r => if Nat.eqb k i && negb closed then c ++ accepted i closed r else accepted i closed r
  | Eof k :: r => accepted i (if Nat.eqb k i then true else closed) r
  | Run _ :: r => accepted i closed r
  end.

Lemma arr_accepted n i ls : forall st,
  s_arr (run n st ls) i = s_arr st i ++ accepted i (s_eof st i) ls.
Proof.
  unfold run. induction ls as [|l ls IH]; intros st; simpl; [symmetry; apply app_nil_r|].
  rewrite IH. destruct l as [k c | k | k]; simpl.
  - destruct (s_eof st k) eqn:Ek.
    + destruct (Nat.eqb k i) eqn:Eki; simpl; [|reflexivity].
      apply Nat.eqb_eq in Eki. subst. rewrite Ek. reflexivity.
    + simpl. destruct (Nat.eqb k i) eqn:Eki; simpl.
      * apply Nat.eqb_eq in Eki. subst. rewrite upd_same, Ek. simpl. rewrite app_assoc. reflexivity.
      * apply Nat.eqb_neq in Eki. rewrite upd_other by congruence. reflexivity.
  - destruct (Nat.eqb k i) eqn:Eki.
    + apply Nat.eqb_eq in Eki. subst. rewrite upd_same. reflexivity.
    + apply Nat.eqb_neq in Eki. rewrite upd_other by congruence. reflexivity.
  - destruct (s_pc st k) as [|u [|j r]|].
    + destruct (IDLEN <=? length (s_buf st k)); [reflexivity|]. destruct (s_eof st k); reflexivity.
    + reflexivity.
    + reflexivity.
    + reflexivity.
Qed.

(* ---------- the server forwards whole units ---------- *)
Lemma quiescent_taken n st i ids p :
  Inv n st -> quiescent st -> Forall len32 ids -> length p < IDLEN ->
  s_arr st i = concat ids ++ p -> s_taken st i = ids.
Proof.
  intros I Q F L E. destruct (Q i) as [Q1 Q2]. pose proof (inv_arr n st I i) as A. pose proof (inv_len n st I i) as Ln.
  destruct (s_pc st i) eqn:Epc; try discriminate.
  - specialize (Q2 eq_refl).
    destruct (framed_unique (s_arr st i) (s_taken st i) (s_buf st i) ids p) as [H _]; [| |exact H].
    + repeat split; assumption.
    + rewrite E. apply framed_concat; assumption.
  - destruct A as [_ [q [Eq Lq]]].
    destruct (framed_unique (s_arr st i) (s_taken st i) q ids p) as [H _]; [| |exact H].
    + repeat split; assumption.
    + rewrite E. apply framed_concat; assumption.
Qed.

Lemma quiescent_out n st i j :
  Inv n st -> quiescent st -> j < n -> s_pc st j <> Closed ->
  from i (s_out st j) = if Nat.eqb i j then [] else s_taken st i.
Proof.
  intros I Q Hj Hc. rewrite (inv_out n st I) by assumption. unfold expected. destruct (Q i) as [Q1 _].
  apply Nat.ltb_lt in Hj. rewrite Hj. simpl. rewrite orb_false_r, (Nat.eqb_sym j i).
  destruct (Nat.eqb i j); [reflexivity|]. destruct (s_pc st i); try reflexivity. discriminate.
Qed.

(* end to end, at quiescence: every worker j looks up exactly an interleaving of the other
   workers' announcements, whatever the chunking on the way up, the schedule of the
   server's handlers, and the chunking on the way down *)
Lemma notify_exact n (ann : nat -> list bytes) ls st :
  (forall i, Forall len32 (ann i)) ->
  st = run n init ls ->
  (forall i, exists p, s_arr st i = concat (ann i) ++ p /\ length p < IDLEN) ->
  quiescent st ->
  forall j, j < n -> s_pc st j <> Closed ->
  forall cchunks, concat cchunks = concat (map snd (s_out st j)) ->
  exists tagged, map snd tagged = fst (client_run [] cchunks) /\ snd (client_run [] cchunks) = [] /\
                 Interleaving (others ann j) tagged.
Proof.
  intros F -> A Q j Hj Hc cchunks E.
  assert (I : Inv n (run n init ls)) by (apply inv_run, inv_init).
  exists (s_out (run n init ls) j).
  assert (Fo : Forall len32 (map snd (s_out (run n init ls) j))).
  { pose proof (inv_outlen n _ I j) as H. rewrite Forall_map. exact H. }
  rewrite (client_exact cchunks (map snd (s_out (run n init ls) j)) []); simpl.
  - split; [reflexivity|]. split; [reflexivity|]. intros i. rewrite (quiescent_out n _ i j I Q Hj Hc).
    unfold others. destruct (Nat.eqb i j); [reflexivity|].
    destruct (A i) as [p [Ep Lp]]. eapply quiescent_taken; eauto.
  - exact Fo.
  - idl; lia.
  - rewrite app_nil_r. exact E.
Qed.

(* ---------- safety at every moment, including disconnects in the middle of an id ---------- *)
Lemma taken_prefix n st i ids m :
  Inv n st -> Forall len32 ids -> s_arr st i = firstn m (concat ids) ->
  exists k, s_taken st i = firstn k ids.
Proof.
  intros I F E. destruct (prefix_decompose ids m F) as [k [p [Ek Lp]]].
  pose proof (inv_arr n st I i) as A. pose proof (inv_len n st I i) as Ln.
  assert (Fk : Forall len32 (firstn k ids)).
  { rewrite Forall_forall in *. intros x Hx. apply F. eapply firstn_In'; eassumption. }
  assert (X : exists us r, Framed (s_arr st i) (s_taken st i ++ us) r).
  { destruct (s_pc st i).
    - pose proof (units_of_framed (s_buf st i)) as Fr. destruct (units_of (s_buf st i)) as [us r]. simpl in Fr.
      exists us, r. rewrite A. replace (concat (s_taken st i) ++ s_buf st i) with ((concat (s_taken st i) ++ []) ++ s_buf st i) by (rewrite app_nil_r; reflexivity).
      eapply framed_app; [apply framed_concat; [assumption | idl; simpl; lia] | exact Fr].
    - pose proof (units_of_framed (s_buf st i)) as Fr. destruct (units_of (s_buf st i)) as [us r]. simpl in Fr.
      exists us, r. rewrite A. replace (concat (s_taken st i) ++ s_buf st i) with ((concat (s_taken st i) ++ []) ++ s_buf st i) by (rewrite app_nil_r; reflexivity).
      eapply framed_app; [apply framed_concat; [assumption | idl; simpl; lia] | exact Fr].
    - destruct A as [_ [q [Eq Lq]]]. exists [], q. rewrite app_nil_r, Eq. apply framed_concat; assumption. }
  destruct X as [us [r Fr]].
  assert (Fr2 : Framed (s_arr st i) (firstn k ids) p) by (rewrite E, Ek; apply framed_concat; assumption).
  destruct (framed_unique _ _ _ _ _ Fr Fr2) as [H _].
  exists (length (s_taken st i)). eapply app_prefix_firstn. exact H.
Qed.

Lemma firstn_firstn_ex {A} (l : list A) a b : exists c, firstn a (firstn b l) = firstn c l.
Proof. rewrite firstn_firstn. eexists; reflexivity. Qed.

Lemma removelast_firstn_ex {A} (l : list A) k : exists c, removelast (firstn k l) = firstn c l.
Proof.
  revert l. induction k as [|k IH]; intros l; [exists 0; reflexivity|].
  destruct l as [|x l]; [exists 0; reflexivity|]. simpl.
  destruct (firstn k l) eqn:E.
  - exists 0. reflexivity.
  - destruct (IH l) as [c Hc]. rewrite E in Hc. exists (S c). simpl. rewrite <- Hc. reflexivity.
Qed.

Lemma from_firstn_ex i : forall l k, exists c, from i (firstn k l) = firstn c (from i l).
Proof.
  induction l as [|[a u] l IH]; intros k.
  - exists 0. rewrite firstn_nil. reflexivity.
  - destruct k; [exists 0; reflexivity|]. destruct (IH k) as [c Hc]. unfold from in *. simpl.
    destruct (Nat.eqb a i); simpl; [exists (S c); simpl; rewrite Hc; reflexivity | exists c; exact Hc].
Qed.

Lemma out_prefix n st i j ids :
  Inv n st -> s_pc st j <> Closed -> (exists k, s_taken st i = firstn k ids) ->
  exists k, from i (s_out st j) = firstn k ids.
Proof.
  intros I Hc [k Hk]. rewrite (inv_out n st I) by assumption. unfold expected.
  destruct (Nat.eqb j i || negb (j <? n)); [exists 0; reflexivity|].
  destruct (s_pc st i); try (exists k; assumption).
  destruct (mem_nat j todo); [|exists k; assumption]. rewrite Hk. apply removelast_firstn_ex.
Qed.

Lemma notify_safe n (ann : nat -> list bytes) ls st j cchunks m :
  (forall i, Forall len32 (ann i)) ->
  st = run n init ls ->
  (forall i, exists mi, s_arr st i = firstn mi (concat (ann i))) ->
  s_pc st j <> Closed ->
  concat cchunks = firstn m (concat (map snd (s_out st j))) ->
  exists tagged, map snd tagged = fst (client_run [] cchunks) /\
    from j tagged = [] /\ forall i, exists k, from i tagged = firstn k (ann i).
Proof.
  intros F -> A Hcl E.
  assert (I : Inv n (run n init ls)) by (apply inv_run, inv_init).
  set (st := run n init ls) in *.
  assert (Fo : Forall len32 (map snd (s_out st j))) by (rewrite Forall_map; apply (inv_outlen n st I)).
  destruct (prefix_decompose _ m Fo) as [k [p [Ek Lp]]].
  exists (firstn k (s_out st j)).
  assert (Fk : Forall len32 (firstn k (map snd (s_out st j)))).
  { rewrite Forall_forall in *. intros x Hx. apply Fo. eapply firstn_In'; eassumption. }
  rewrite (client_exact cchunks (firstn k (map snd (s_out st j))) p Fk Lp) by (rewrite E; exact Ek).
  simpl. split; [symmetry; apply firstn_map|]. split.
  - destruct (from_firstn_ex j (s_out st j) k) as [c Hc]. rewrite Hc, (inv_out n st I) by assumption. unfold expected.
    rewrite Nat.eqb_refl. simpl. apply firstn_nil.
  - intros i. destruct (A i) as [mi Hmi].
    destruct (out_prefix n st i j (ann i) I Hcl (taken_prefix n st i (ann i) mi I (F i) Hmi)) as [k2 Hk2].
    destruct (from_firstn_ex i (s_out st j) k) as [c Hc]. rewrite Hc, Hk2. apply firstn_firstn_ex.
Qed.

(* the client acts on an id exactly as on a local event: one lookup per id, one fan-out per id found *)
Lemma client_actions_lookups known ids :
  flat_map (fun a => match a with Lookup u => [u] | FanOut _ => [] end) (client_actions known ids) = ids.
Proof.
  induction ids as [|u r IH]; simpl; [reflexivity|]. destruct (known u); simpl; rewrite IH; reflexivity.
Qed.
Lemma client_actions_fanouts known ids :
  flat_map (fun a => match a with FanOut u => [u] | Lookup _ => [] end) (client_actions known ids) = filter known ids.
Proof.
  induction ids as [|u r IH]; simpl; [reflexivity|]. destruct (known u); simpl; rewrite IH; reflexivity.
Qed.

(* ---------- the receiving worker over time ---------- *)
Lemma world_app st a b : world st (a ++ b) = world st a ++ world (fold_left store_step a st) b.
Proof.
  revert st; induction a as [|e a IH]; intros st; simpl; [reflexivity|]. rewrite IH, app_assoc. reflexivity.
Qed.
Lemma fanouts_app a b : fanouts (a ++ b) = fanouts a ++ fanouts b.
Proof. unfold fanouts. apply flat_map_app. Qed.

(* look-ups have no memory: asking for ids - stored or not, before or after they exist - changes nothing that is fanned out *)
Lemma probes_irrelevant evs : forall st,
  fanouts (world st evs) = fanouts (world st (filter (fun e => negb (is_probe e)) evs)).
Proof.
  induction evs as [|e r IH]; intros st; simpl; [reflexivity|].
  destruct e as [u|u|u|u]; simpl; rewrite ?fanouts_app, ?IH; try reflexivity.
Qed.

Lemma stored_survives u mid : forall st,
  In u st -> ~ In (Remove u) mid -> In u (fold_left store_step mid st).
Proof.
  induction mid as [|e r IH]; intros st Hin Hno; simpl; [exact Hin|].
  apply IH; [|intros H; apply Hno; right; exact H].
  destruct e as [v|v|v|v]; simpl; try exact Hin; [right; exact Hin|].
  apply in_in_remove; [|exact Hin]. intros ->. apply Hno. left; reflexivity.
Qed.

(* an event committed before its id is announced, and not removed in between, is fanned out - whatever else
   happened, in particular whoever asked for that id while it did not exist yet *)
Lemma committed_then_announced_is_fanned_out st pre mid post u :
  ~ In (Remove u) mid ->
  In u (fanouts (world st (pre ++ Accept u :: mid ++ Announce u :: post))).
Proof.
  intros Hno. rewrite world_app, fanouts_app. apply in_or_app; right.
  cbn [world store_step]. cbn [app]. rewrite world_app, fanouts_app. apply in_or_app; right.
  cbn [world]. rewrite fanouts_app. apply in_or_app; left.
  unfold client_actions, stored. cbn [flat_map].
  destruct (in_dec bytes_dec u _) as [_|Hn].
  - cbn. left; reflexivity.
  - exfalso; apply Hn. apply stored_survives; [left; reflexivity|exact Hno].
Qed.

(* and nothing is fanned out that is not stored at the moment its id arrives *)
Lemma fanned_out_was_announced evs : forall st u,
  In u (fanouts (world st evs)) -> In (Announce u) evs.
Proof.
  induction evs as [|e r IH]; intros st u H; simpl in H; [contradiction|].
  rewrite fanouts_app in H. apply in_app_or in H. destruct H as [H|H]; [|right; eapply IH; exact H].
  destruct e as [v|v|v|v]; cbn in H; try contradiction.
  unfold stored in H. destruct (in_dec bytes_dec v st); cbn in H; [|contradiction].
  destruct H as [->|[]]. left; reflexivity.
Qed.
