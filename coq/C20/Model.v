(* C20 - model of nostr_relay/notifier.py.

   A TCP byte stream is a `bytes` value; the transport may hand it to the
   receiving StreamReader in arbitrary pieces ("chunks").  An event id is a
   32-byte unit.

   Repaired code (fix: readexactly(32) on both sides): the reader keeps a buffer
   (asyncio.StreamReader) and `await reader.readexactly(32)` returns the first 32
   buffered bytes as soon as there are 32, raises IncompleteReadError at EOF with
   fewer (the loop ends; the partial id is dropped).

   Legacy code (`await reader.read(32)`): returns whatever is buffered, at most 32
   bytes - kept below as `legacy_*` for the corpus witness of the defect (F23). *)
From NR Require Import Lib.Base.
Open Scope list_scope. Open Scope nat_scope.

Definition IDLEN : nat := 32.
Arguments IDLEN : simpl never.

(* ---------- the framed reader ---------- *)
(* the loop `while True: data = await reader.readexactly(32); handle(data)` run until
   it blocks on a buffer shorter than 32: units handled, buffer left *)
Fixpoint drain (fuel : nat) (buf : bytes) : list bytes * bytes :=
  match fuel with
  | O => ([], buf)
  | S f =>
      if IDLEN <=? length buf
      then let '(us, b) := drain f (skipn IDLEN buf) in (firstn IDLEN buf :: us, b)
      else ([], buf)
  end.
(* every unit consumes 32 >= 1 bytes: length buf is enough fuel *)
Definition units_of (buf : bytes) : list bytes * bytes := drain (length buf) buf.

(* one feed_data(chunk) followed by the loop running until it blocks *)
Definition feed (buf chunk : bytes) : list bytes * bytes := units_of (buf ++ chunk).

(* NotifyClient.connect on a stream delivered as `chunks`: ids passed to
   storage.get_event (as bytes; the code passes data.hex()), and the buffer left
   (dropped at EOF: IncompleteReadError -> break) *)
Fixpoint client_run (buf : bytes) (chunks : list bytes) : list bytes * bytes :=
  match chunks with
  | [] => ([], buf)
  | c :: r =>
      let '(us, b) := feed buf c in
      let '(us', b') := client_run b r in
      (us ++ us', b')
  end.

(* what the client does with each id: look it up, fan out if found *)
Inductive action := Lookup (id : bytes) | FanOut (id : bytes).
Definition client_actions (known : bytes -> bool) (ids : list bytes) : list action :=
  flat_map (fun u => if known u then [Lookup u; FanOut u] else [Lookup u]) ids.

(* ---------- the legacy reader: read(32) ---------- *)
(* successive `read(32)` results for a buffer that received `chunk` while the loop was blocked *)
Fixpoint split32 (fuel : nat) (chunk : bytes) : list bytes :=
  match fuel with
  | O => []
  | S f =>
      match chunk with
      | [] => []
      | _ => firstn IDLEN chunk :: split32 f (skipn IDLEN chunk)
      end
  end.
Definition legacy_reads (chunks : list bytes) : list bytes :=
  flat_map (fun c => split32 (length c) c) chunks.

(* ---------- the server ---------- *)
(* connection i: StreamReader buffer, EOF flag, where its handle_notify coroutine is,
   the units it has read so far (the "Broadcasting %s" log line), the bytes that ever
   arrived on it; writer j: the units written to it, tagged with the sending connection *)
Inductive pc := Reading | Forwarding (u : bytes) (todo : list nat) | Closed.
Record sstate := mkS {
  s_buf : nat -> bytes; s_eof : nat -> bool; s_pc : nat -> pc;
  s_taken : nat -> list bytes; s_arr : nat -> bytes;
  s_out : nat -> list (nat * bytes) }.

Definition upd {A} (f : nat -> A) (i : nat) (v : A) : nat -> A :=
  fun k => if Nat.eqb k i then v else f k.

(* `for peer in list(self.connections.values()): if peer != writer` for n connections 0..n-1
   (see live_peers: connections whose handler has ended are no longer in the dict) *)
Definition peers (n i : nat) : list nat := filter (fun j => negb (Nat.eqb j i)) (seq 0 n).

Definition is_closed (p : pc) : bool := match p with Closed => true | _ => false end.
(* a handler that has ended has removed its writer from self.connections *)
Definition live_peers (n : nat) (pcs : nat -> pc) (i : nat) : list nat :=
  filter (fun j => negb (is_closed (pcs j))) (peers n i).

Inductive label :=
| Arrive (i : nat) (chunk : bytes)   (* the transport delivers a piece of i's stream *)
| Eof (i : nat)                      (* i's connection is closed by the peer *)
| Run (i : nat).                     (* i's handle_notify coroutine advances to its next await *)

Definition init : sstate :=
  mkS (fun _ => []) (fun _ => false) (fun _ => Reading) (fun _ => []) (fun _ => []) (fun _ => []).

Definition step (n : nat) (st : sstate) (l : label) : sstate :=
  match l with
  | Arrive i chunk =>
      if s_eof st i then st
      else mkS (upd (s_buf st) i (s_buf st i ++ chunk)) (s_eof st) (s_pc st) (s_taken st)
               (upd (s_arr st) i (s_arr st i ++ chunk)) (s_out st)
  | Eof i => mkS (s_buf st) (upd (s_eof st) i true) (s_pc st) (s_taken st) (s_arr st) (s_out st)
  | Run i =>
      match s_pc st i with
      | Reading =>
          if IDLEN <=? length (s_buf st i) then
            let u := firstn IDLEN (s_buf st i) in
            mkS (upd (s_buf st) i (skipn IDLEN (s_buf st i))) (s_eof st)
                (upd (s_pc st) i (Forwarding u (live_peers n (s_pc st) i)))
                (upd (s_taken st) i (s_taken st i ++ [u])) (s_arr st) (s_out st)
          else if s_eof st i then
            (* IncompleteReadError: partial id dropped, handler ends *)
            mkS (upd (s_buf st) i []) (s_eof st) (upd (s_pc st) i Closed) (s_taken st) (s_arr st) (s_out st)
          else st
      | Forwarding u (j :: r) =>
          mkS (s_buf st) (s_eof st) (upd (s_pc st) i (Forwarding u r)) (s_taken st) (s_arr st)
              (upd (s_out st) j (s_out st j ++ [(i, u)]))
      | Forwarding u [] =>
          mkS (s_buf st) (s_eof st) (upd (s_pc st) i Reading) (s_taken st) (s_arr st) (s_out st)
      | Closed => st
      end
  end.

Definition run (n : nat) (st : sstate) (ls : list label) : sstate := fold_left (step n) ls st.

(* units written to writer j that came from connection i *)
Definition from (i : nat) (l : list (nat * bytes)) : list bytes :=
  map snd (filter (fun p => Nat.eqb (fst p) i) l).

Definition quiet_pc (p : pc) : bool := match p with Forwarding _ _ => false | _ => true end.

(* ---------- the receiving worker over time: what is stored changes, ids arrive, and anybody may ask ---------- *)
(* Accept u / Remove u: some worker commits / removes the event with id u (all workers share the one store);
   Probe u: somebody asks this worker for u (GET /e/<id>, a REQ by id ...) - answered from the store, nothing kept;
   Announce u: the id arrives from the hub: looked up, fanned out if it is stored at that moment. *)
Inductive wev := Accept (u : bytes) | Remove (u : bytes) | Probe (u : bytes) | Announce (u : bytes).
Definition bytes_dec : forall a b : bytes, {a = b} + {a <> b} := list_eq_dec N.eq_dec.
Definition stored (u : bytes) (st : list bytes) : bool := if in_dec bytes_dec u st then true else false.
Definition store_step (st : list bytes) (e : wev) : list bytes :=
  match e with Accept u => u :: st | Remove u => remove bytes_dec u st | Probe _ | Announce _ => st end.
Fixpoint world (st : list bytes) (evs : list wev) : list action :=
  match evs with
  | [] => []
  | e :: r =>
      (match e with
       | Probe u => [Lookup u]
       | Announce u => client_actions (fun x => stored x st) [u]
       | _ => []
       end) ++ world (store_step st e) r
  end.
Definition fanouts (l : list action) : list bytes := flat_map (fun a => match a with FanOut u => [u] | Lookup _ => [] end) l.
Definition is_probe (e : wev) : bool := match e with Probe _ => true | _ => false end.
