(* C20 - what "each id intact, once, to other workers" means. *)
From NR Require Import Lib.Base C20.Model.
Open Scope list_scope. Open Scope nat_scope.

Definition len32 (u : bytes) : Prop := length u = IDLEN.

(* the unique way of cutting a byte stream into whole 32-byte units and a rest shorter than a unit *)
Definition Framed (s : bytes) (us : list bytes) (rest : bytes) : Prop :=
  s = concat us ++ rest /\ Forall len32 us /\ length rest < IDLEN.

(* `l` (the ids a worker looked up, each tagged with the worker it came from) is an
   interleaving of the sequences `want i`: per sender exactly that sequence, in order *)
Definition Interleaving (want : nat -> list bytes) (l : list (nat * bytes)) : Prop :=
  forall i, from i l = want i.

(* what worker j must look up when every worker i has announced `ann i`:
   everybody's announcements but its own *)
Definition others (ann : nat -> list bytes) (j : nat) : nat -> list bytes :=
  fun i => if Nat.eqb i j then [] else ann i.

(* all handlers are blocked in readexactly (or have ended) *)
Definition quiescent (st : sstate) : Prop :=
  forall i, quiet_pc (s_pc st i) = true /\ (s_pc st i = Reading -> length (s_buf st i) < IDLEN).

(* ---------- executable statement (used on the implementation's observations) ---------- *)
Definition bytes_eqb : bytes -> bytes -> bool := list_eqb N.eqb.
Definition mem_bytes (x : bytes) (l : list bytes) : bool := existsb (bytes_eqb x) l.
Fixpoint is_prefix_l (p l : list bytes) : bool :=
  match p, l with
  | [], _ => true
  | x :: p', y :: l' => bytes_eqb x y && is_prefix_l p' l'
  | _ :: _, [] => false
  end.
Fixpoint distinct (l : list bytes) : bool :=
  match l with [] => true | x :: r => negb (mem_bytes x r) && distinct r end.

(* anns: announcements per worker (globally distinct ids); complete i: whether all of
   worker i's bytes reached the server before it disconnected; j: the observed worker;
   seen: the ids it looked up.  Verdict: "ok" or the first way the statement fails. *)
Definition check_worker (anns : list (list bytes)) (complete : list bool) (j : nat) (seen : list bytes) : pystr :=
  let own := nth j anns [] in
  let foreign := concat (map (fun p => snd p)
                   (filter (fun p => negb (Nat.eqb (fst p) j)) (combine (seq 0 (length anns)) anns))) in
  if existsb (fun u => mem_bytes u own) seen then pys "echoed-to-sender"
  else if negb (forallb (fun u => mem_bytes u foreign) seen) then pys "not-an-announced-id"
  else if negb (distinct seen) then pys "delivered-twice"
  else
    (fix go (k : nat) (l : list (list bytes)) (cs : list bool) : pystr :=
       match l with
       | [] => pys "ok"
       | a :: l' =>
           let c := match cs with c :: _ => c | [] => true end in
           let cs' := match cs with _ :: r => r | [] => [] end in
           if Nat.eqb k j then go (S k) l' cs' else
           let got := filter (fun u => mem_bytes u a) seen in
           if c then (if list_eqb bytes_eqb got a then go (S k) l' cs'
                      else if is_prefix_l got a then pys "lost" else pys "reordered")
           else (if is_prefix_l got a then go (S k) l' cs' else pys "reordered")
       end) O anns complete.
