(* C01 on the LMDB backend: a stored query is answered only with records kept in the store under
   their own id that satisfy the residual predicate of their filter, the residual implies NIP-01
   may_match, and the answer is a function of the keyspace walk and of `get` on primary keys only -
   the filter contents are data. *)
From NR Require Import Lib.Base Lib.BaseFacts Lib.Nip01 KVM.Engine KVM.Keys KVM.Scan KVM.Order KVM.Coherent
  KVM.Plan KVM.Match KVM.Exec KVM.Spec KVM.Proofs_Match KVM.Proofs_Exec KVM.Proofs_Const.
From NR Require Gen.KVConst.
Open Scope list_scope. Open Scope Z_scope.

Lemma firstn_In {A} n (l : list A) x : In x (firstn n l) -> In x l.
Proof. rewrite <- (firstn_skipn n l) at 2. intros H. apply in_or_app. left. exact H. Qed.

Lemma plan_one_query dl mx f p : plan_one dl mx f = Some p -> p_query p = plan_items f.
Proof.
  unfold plan_one. destruct (skipped f); [discriminate|].
  destruct (plan_stages f); [destruct (_ || _); [|discriminate]|]; intros H; injection H as <-; reflexivity.
Qed.
Lemma planner_In dl mx fs p : In p (planner dl mx fs) ->
  exists f, In f (firstn maximum_plans fs) /\ plan_one dl mx f = Some p.
Proof.
  unfold planner. intros H. apply in_flat_map in H. destruct H as [f [Hf Hp]]. exists f. split; [assumption|].
  destruct (plan_one dl mx f); [destruct Hp as [->|[]]; reflexivity|destruct Hp].
Qed.
Lemma answer_In dl mx d fs e : In e (answer_kv dl mx d fs) ->
  exists p, In p (planner dl mx fs) /\ In e (execute_one_plan d p).
Proof.
  unfold answer_kv, executor. intros H. apply in_concat in H. destruct H as [l [Hl He]].
  apply in_map_iff in Hl. destruct Hl as [p [<- Hp]]. eauto.
Qed.

(* every returned event is the record stored under its id and satisfies the residual *)
Theorem kv_answer_sound d p e : In e (execute_one_plan d p) ->
  exists i, get (primary_key_of i) d = Some (REvent e) /\ residual (p_query p) e = true.
Proof. exact (exec_sound d p e). Qed.

(* the residual of a filter's plan implies NIP-01 matching in the closed window *)
Theorem kv_residual_may_match f e : wf_filter f -> hex64 (w_id e) = true -> hex64 (w_pubkey e) = true ->
  residual (plan_items f) e = true -> may_match f e = true.
Proof. exact (residual_may_match f e). Qed.

(* the answer depends on the store only through the ordered key list (cursor: set_range / prev / key)
   and through get on primary keys 00 ++ id: no other engine operation, no other data *)
Lemma matcher_reads d1 d2 q : (forall i, get (primary_key_of i) d1 = get (primary_key_of i) d2) ->
  forall ids seen, matcher d1 q ids seen = matcher d2 q ids seen.
Proof.
  intros H. induction ids as [|j r IH]; intros seen; simpl; [reflexivity|].
  rewrite (H j). destruct (mem_bytes j seen); [apply IH|].
  destruct (get (primary_key_of j) d2) as [[|e]|]; [reflexivity| |apply IH].
  destruct (residual q e); [f_equal|]; apply IH.
Qed.
Theorem kv_exec_reads_only d1 d2 p : keys d1 = keys d2 ->
  (forall i, get (primary_key_of i) d1 = get (primary_key_of i) d2) ->
  execute_one_plan d1 p = execute_one_plan d2 p.
Proof.
  intros Hk Hg. unfold execute_one_plan. rewrite Hk. destruct (scan_plan (keys d2) p); try reflexivity.
  rewrite (matcher_reads d1 d2 _ Hg). reflexivity.
Qed.

(* C01-kv.  The hypothesis on the generated lint is checked on every run: the only text handed to exec()
   in compile_match_from_query is the fixed template around clauses whose interpolations are `!r` of a
   query value / tag name or the integer column number; Match.residual is that predicate as a function. *)
Theorem C01_kv dl mx d fs e :
  KVConst.exec_interpolations_ok = true ->
  Coherent d -> Forall wf_filter fs -> In e (answer_kv dl mx d fs) ->
  stored d e /\ exists f, In f (firstn maximum_plans fs) /\ may_match f e = true.
Proof.
  intros _ Hc Hwf H. destruct (answer_In _ _ _ _ _ H) as [p [Hp He]].
  destruct (planner_In _ _ _ _ Hp) as [f [Hf Hpl]].
  destruct (exec_sound _ _ _ He) as [i [Hg Hr]].
  destruct (coherent_primary d i e Hc Hg) as [_ [Hst [Hid [Hpk _]]]].
  split; [exact Hst|]. exists f. split; [exact Hf|].
  rewrite (plan_one_query _ _ _ _ Hpl) in Hr.
  apply residual_may_match; auto.
  rewrite Forall_forall in Hwf. apply Hwf. eapply firstn_In; eauto.
Qed.
