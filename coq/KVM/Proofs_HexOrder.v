(* Lower-case hex strings of the same even length compare like the bytes they denote: the ids of a validated
   filter (sort_fields: sorted descending, duplicates removed) compile to strictly descending id-index keys. *)
From NR Require Import Lib.Base Lib.BaseFacts Lib.Nip01 KVM.Engine KVM.Keys KVM.Scan KVM.Order KVM.Coherent
  KVM.Plan KVM.Proofs_Scan KVM.Proofs_Coherent KVM.Proofs_Hit.
From Coq Require Import ZifyBool Sorting.Sorted.
Open Scope list_scope.

Lemma hexval_lower c : is_lower_hex_char c = true ->
  exists u, hexval c = Some u /\ (u < 16)%N /\
            ((48 <= c <= 57 /\ u = c - 48) \/ (97 <= c <= 102 /\ u = c - 87))%N.
Proof.
  unfold is_lower_hex_char, hexval. intros H.
  destruct ((48 <=? c) && (c <=? 57))%N eqn:E1.
  - eexists. split; [reflexivity|]. split; [lia|]. left. lia.
  - destruct ((97 <=? c) && (c <=? 102))%N eqn:E2; [|simpl in H; discriminate].
    eexists. split; [reflexivity|]. split; [lia|]. right. lia.
Qed.

Lemma cmp_pair (a1 a2 b1 b2 u1 u2 v1 v2 : N) :
  (u1 < 16 -> u2 < 16 -> v1 < 16 -> v2 < 16 ->
   (u1 ?= v1) = (a1 ?= b1) -> (u2 ?= v2) = (a2 ?= b2) ->
   (u1 * 16 + u2 ?= v1 * 16 + v2) = match a1 ?= b1 with Eq => a2 ?= b2 | c => c end)%N.
Proof.
  intros ? ? ? ? E1 E2. rewrite <- E1, <- E2.
  destruct (N.compare_spec u1 v1); [subst|apply N.compare_lt_iff; lia|apply N.compare_gt_iff; lia].
  destruct (N.compare_spec u2 v2); [subst; apply N.compare_eq_iff; reflexivity|apply N.compare_lt_iff; lia|apply N.compare_gt_iff; lia].
Qed.

Lemma hexval_cmp c d u v : is_lower_hex_char c = true -> is_lower_hex_char d = true ->
  hexval c = Some u -> hexval d = Some v -> (u ?= v)%N = (c ?= d)%N.
Proof.
  intros Hc Hd Eu Ev.
  destruct (hexval_lower c Hc) as [u' [Eu' [_ Hu]]]. destruct (hexval_lower d Hd) as [v' [Ev' [_ Hv]]].
  rewrite Eu in Eu'. injection Eu' as <-. rewrite Ev in Ev'. injection Ev' as <-.
  destruct (N.compare_spec c d) as [->|Hlt|Hgt].
  - rewrite Eu in Ev. injection Ev as ->. apply N.compare_refl.
  - apply N.compare_lt_iff. lia.
  - apply N.compare_gt_iff. lia.
Qed.

Lemma hex_order : forall n a b x y, length a = (2 * n)%nat -> length b = (2 * n)%nat ->
  is_lower_hex a = true -> is_lower_hex b = true -> py_fromhex a = Some x -> py_fromhex b = Some y ->
  lex_cmp x y = lex_cmp a b.
Proof.
  induction n as [|n IH]; intros a b x y La Lb Ha Hb Ex Ey.
  - destruct a; [|discriminate]. destruct b; [|discriminate]. simpl in Ex, Ey. injection Ex as <-. injection Ey as <-. reflexivity.
  - destruct a as [|a1 [|a2 a']]; try (simpl in La; lia). destruct b as [|b1 [|b2 b']]; try (simpl in Lb; lia).
    simpl in Ha, Hb. apply andb_true_iff in Ha. destruct Ha as [Ha1 Ha]. apply andb_true_iff in Ha. destruct Ha as [Ha2 Ha'].
    apply andb_true_iff in Hb. destruct Hb as [Hb1 Hb]. apply andb_true_iff in Hb. destruct Hb as [Hb2 Hb'].
    simpl in Ex, Ey. rewrite (lower_hex_not_ws a1 Ha1) in Ex. rewrite (lower_hex_not_ws b1 Hb1) in Ey.
    destruct (hexval_lower a1 Ha1) as [u1 [E1 [L1 _]]]. destruct (hexval_lower a2 Ha2) as [u2 [E2 [L2 _]]].
    destruct (hexval_lower b1 Hb1) as [v1 [F1 [M1 _]]]. destruct (hexval_lower b2 Hb2) as [v2 [F2 [M2 _]]].
    rewrite E1, E2 in Ex. rewrite F1, F2 in Ey.
    destruct (py_fromhex a') as [x'|] eqn:Ex'; [|discriminate]. destruct (py_fromhex b') as [y'|] eqn:Ey'; [|discriminate].
    injection Ex as <-. injection Ey as <-. simpl.
    rewrite (cmp_pair a1 a2 b1 b2 u1 u2 v1 v2 L1 L2 M1 M2 (hexval_cmp _ _ _ _ Ha1 Hb1 E1 F1) (hexval_cmp _ _ _ _ Ha2 Hb2 E2 F2)).
    rewrite (IH a' b' x' y') by (simpl in La, Lb; try lia; assumption).
    destruct (a1 ?= b1)%N; reflexivity.
Qed.

Lemma hex64_decodes s : hex64 s = true -> exists b, py_fromhex s = Some b.
Proof.
  unfold hex64. intros H. apply andb_true_iff in H. destruct H as [Hl Hh]. apply Nat.eqb_eq in Hl.
  assert (G : forall n t, length t = (2 * n)%nat -> is_lower_hex t = true -> exists b, py_fromhex t = Some b).
  { induction n as [|n IH]; intros t Lt Ht.
    - destruct t; [|discriminate]. exists []. reflexivity.
    - destruct t as [|c1 [|c2 t']]; try (simpl in Lt; lia).
      simpl in Ht. apply andb_true_iff in Ht. destruct Ht as [H1 Ht]. apply andb_true_iff in Ht. destruct Ht as [H2 Ht'].
      destruct (hexval_lower c1 H1) as [u1 [E1 _]]. destruct (hexval_lower c2 H2) as [u2 [E2 _]].
      destruct (IH t') as [b Eb]; [simpl in Lt; lia|assumption|].
      simpl. rewrite (lower_hex_not_ws c1 H1), E1, E2, Eb. eauto. }
  apply (G 32%nat); [lia|assumption].
Qed.

Lemma later_keys_below v bv : hex64 v = true -> py_fromhex v = Some bv ->
  forall r, Forall (fun w => hex64 w = true) r -> Forall (fun w => lex_cmp w v = Lt) r ->
  forall cr, compile (map (to_key IxIds) (map MStr r)) = Some cr -> Forall (fun b => lex_cmp b (0%N :: bv) = Lt) cr.
Proof.
  intros Hv Ebv. induction r as [|w r IHr]; intros Hr Hf cr Er.
  - simpl in Er. injection Er as <-. constructor.
  - inversion Hr as [|? ? Hw Hr']; subst. inversion Hf as [|? ? Hwv Hf']; subst.
    destruct (hex64_decodes w Hw) as [bw Ebw].
    cbn [map compile] in Er. simpl to_key in Er. unfold bytes_from_hex in Er. rewrite Ebw in Er. cbn [compile] in Er.
    destruct (compile (map (to_key IxIds) (map MStr r))) as [cr'|] eqn:Er'; [|discriminate]. simpl in Er. injection Er as <-.
    constructor; [|apply IHr; auto].
    simpl. rewrite ?N.compare_refl.
    unfold hex64 in Hv, Hw. apply andb_true_iff in Hv. destruct Hv as [Lv Hv]. apply andb_true_iff in Hw. destruct Hw as [Lw Hw].
    apply Nat.eqb_eq in Lv. apply Nat.eqb_eq in Lw.
    rewrite (hex_order 32 w v bw bv); auto.
Qed.

(* sorted 64-digit ids give strictly descending id-index keys *)
Theorem ids_desc_of_sorted f :
  (forall l, f_ids f = Some l -> Forall (fun v => hex64 v = true) l /\ StronglySorted (fun a b => lex_cmp b a = Lt) l) ->
  ids_desc f.
Proof.
  intros H l cms El Ec. destruct (H l El) as [Hh Hs]. clear H El.
  revert cms Ec. induction l as [|v r IH]; intros cms Ec.
  - simpl in Ec. injection Ec as <-. constructor.
  - inversion Hh as [|? ? Hv Hr]; subst. inversion Hs as [|? ? Hs' Hf]; subst.
    destruct (hex64_decodes v Hv) as [bv Ebv].
    cbn [map compile] in Ec. simpl to_key in Ec. unfold bytes_from_hex in Ec. rewrite Ebv in Ec. cbn [compile] in Ec.
    destruct (compile (map (to_key IxIds) (map MStr r))) as [cr|] eqn:Er; [|discriminate]. simpl in Ec. injection Ec as <-.
    constructor; [apply IH; auto|]. eapply later_keys_below; eauto.
Qed.
(* a filter without ids needs nothing *)
Lemma ids_desc_none f : f_ids f = None -> ids_desc f.
Proof. intros E l cms El. congruence. Qed.
