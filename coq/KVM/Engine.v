(* Ordered key-value engine: the specification of shims/lmdb.py and the
   assumption made about py-lmdb (DESIGN 3.3): a map from non-empty byte keys
   (<= 511 bytes) to values kept in lexicographic key order, cursors with
   py-lmdb's documented conventions, single-writer copy-on-commit transactions. *)
From NR Require Import Lib.Base.
Open Scope list_scope. Open Scope Z_scope.

Section Engine.
Context {V : Type}.
Definition db := list (bytes * V).          (* strictly sorted by key *)

Definition max_key_len : nat := 511.
Definition key_ok (k : bytes) : bool :=
  match k with [] => false | _ => Nat.leb (length k) max_key_len end.

Fixpoint get (k : bytes) (d : db) : option V :=
  match d with
  | [] => None
  | (k', v) :: r => match lex_cmp k k' with Eq => Some v | Lt => None | Gt => get k r end
  end.
(* put / delete return None when the engine raises BadValsizeError *)
Fixpoint put_raw (k : bytes) (v : V) (d : db) : db :=
  match d with
  | [] => [(k, v)]
  | (k', v') :: r => match lex_cmp k k' with
                     | Eq => (k, v) :: r
                     | Lt => (k, v) :: d
                     | Gt => (k', v') :: put_raw k v r
                     end
  end.
Definition put (k : bytes) (v : V) (d : db) : option db := if key_ok k then Some (put_raw k v d) else None.
Fixpoint delete_raw (k : bytes) (d : db) : db :=
  match d with
  | [] => []
  | (k', v') :: r => match lex_cmp k k' with
                     | Eq => r
                     | Lt => d
                     | Gt => (k', v') :: delete_raw k r
                     end
  end.
Definition delete (k : bytes) (d : db) : option db := if key_ok k then Some (delete_raw k d) else None.
Definition keys (d : db) : list bytes := map fst d.
End Engine.

(* ---- cursors over the sorted key list ---- *)
Definition cursor := option nat.            (* None = unpositioned *)
Definition cur_key (ks : list bytes) (c : cursor) : bytes :=
  match c with Some i => nth i ks [] | None => [] end.          (* unpositioned key() is b"" *)
Fixpoint find_ge (k : bytes) (ks : list bytes) (i : nat) : option nat :=
  match ks with
  | [] => None
  | x :: r => if lex_leb k x then Some i else find_ge k r (S i)
  end.
Definition set_range (ks : list bytes) (k : bytes) : bool * cursor :=
  match find_ge k ks 0 with Some i => (true, Some i) | None => (false, None) end.
Definition cur_prev (ks : list bytes) (c : cursor) : bool * cursor :=
  match c with
  | None => match ks with [] => (false, None) | _ => (true, Some (length ks - 1)%nat) end
  | Some O => (false, None)                 (* a failing prev() unpositions *)
  | Some (S i) => (true, Some i)
  end.
Definition cur_next (ks : list bytes) (c : cursor) : bool * cursor :=
  match c with
  | None => match ks with [] => (false, None) | _ => (true, Some O) end
  | Some i => if Nat.ltb (S i) (length ks) then (true, Some (S i)) else (false, None)
  end.
