(* Assembly of scanner_correct: range scan of the created_at index, okm from the tombstone,
   compile facts, and the top-level equality index_scanner = scan_spec. *)
From NR Require Import Lib.Base Lib.BaseFacts KVM.Engine KVM.Keys KVM.Scan KVM.ScanSpec KVM.Order
  KVM.Proofs_Cursor KVM.Proofs_Scan KVM.Proofs_Blocks KVM.Proofs_ScanCorrect.
From Coq Require Import Sorting.Sorted.
Open Scope list_scope.

(* ===================================================================== range scan *)
Section Range.
Variable ks : list bytes.
Variable prefix : byte.

Definition yr (stop key : bytes) : list bytes :=
  if lex_ltb stop key && list_eqb N.eqb (firstn 1 key) [prefix] then [last_n key 32] else [].

Lemma lex_ltb_nil_r stop : stop <> [] -> lex_ltb stop [] = false.
Proof. destruct stop; [congruence|reflexivity]. Qed.

Lemma scan_range_refines : forall fuel stop c acc,
  stop <> [] -> cur_ok ks c -> Desc (desc ks c) -> (length (desc ks c) + 1 <= fuel)%nat ->
  scan_range ks prefix fuel stop c acc = SOk (rev acc ++ flat_map (yr stop) (desc ks c)).
Proof.
  induction fuel as [|f IH]; intros stop c acc Hne Hc Hd Hfuel; [lia|].
  destruct c as [i|].
  - simpl in Hc. destruct (desc_step ks i Hc) as [Hds [Hok Hc']].
    cbn [scan_range]. rewrite Hds in Hd, Hfuel |- *. cbn [flat_map].
    destruct (cur_prev ks (Some i)) as [ok c'] eqn:Ep. cbn [fst snd] in Hds, Hok, Hc', Hd, Hfuel |- *.
    apply StronglySorted_inv in Hd. destruct Hd as [Hd' Hbelow].
    unfold yr at 1.
    destruct (lex_ltb stop (cur_key ks (Some i))) eqn:El; simpl andb.
    + set (acc' := if list_eqb N.eqb (firstn 1 (cur_key ks (Some i))) [prefix]
                   then last_n (cur_key ks (Some i)) 32 :: acc else acc).
      assert (Ha : rev acc' = rev acc ++ (if list_eqb N.eqb (firstn 1 (cur_key ks (Some i))) [prefix]
                                          then [last_n (cur_key ks (Some i)) 32] else [])).
      { unfold acc'. destruct (list_eqb N.eqb _ _); simpl; [reflexivity|symmetry; apply app_nil_r]. }
      destruct (desc ks c') eqn:Edc; simpl in Hok; subst ok.
      * rewrite Ha. simpl. rewrite app_nil_r. reflexivity.
      * rewrite IH; auto.
        -- rewrite Ha, Edc, <- app_assoc. reflexivity.
        -- rewrite Edc. exact Hd'.
        -- rewrite Edc. cbn [length] in *. lia.
    + assert (flat_map (yr stop) (desc ks c') = []) as ->; [|rewrite !app_nil_r; reflexivity].
      apply flat_map_nil_gen. intros k Hk. unfold yr.
      assert (lex_ltb stop k = false) as ->; [|reflexivity].
      rewrite Forall_forall in Hbelow. specialize (Hbelow k Hk).
      apply lex_ltb_ge in El. apply lex_ltb_ge.
      intros G. apply El. apply lex_lt_gt. apply lex_lt_gt in G. eapply lex_lt_trans; eauto.
  - assert (E : lex_ltb stop (cur_key ks None) = false) by (apply lex_ltb_nil_r; exact Hne).
    cbn [scan_range]. rewrite E. simpl. rewrite app_nil_r. reflexivity.
Qed.
End Range.

(* ===================================================================== created_at range *)
Section CreatedRange.
Variable ks : list bytes.
Variable since0 until0 : option bytes.
Hypothesis Hsorted : StrictSorted ks.
Hypothesis Hwf : wf_keys ks.
Hypothesis Hshaped : Shaped ks.
Hypothesis Hsince : forall s, since0 = Some s -> length s = 4%nat.
Hypothesis Huntil : forall u, until0 = Some u -> length u = 4%nat.

Definition r_start : bytes := [1%N] ++ ut until0 ++ [1%N].
Definition r_stop : bytes := match since0 with Some s => [1%N] ++ s | None => [1%N] end.
Definition sr (key : bytes) : list bytes :=
  if Nat.eqb (length key) 43 && N.eqb (nth 0 key 255%N) 1 && N.eqb (nth 5 key 1%N) 0
     && N.eqb (nth 10 key 1%N) 0 && in_window_b since0 until0 (firstn 4 (skipn 1 key))
  then [skipn 11 key] else [].

Lemma created_decomp key : wf_bytes key -> key_shaped key -> created_shaped key -> (exists r, key = 1%N :: r) ->
  exists ts ts2 b, key = [1%N] ++ ts ++ 0%N :: ts2 ++ 0%N :: b /\ length ts = 4%nat /\ length ts2 = 4%nat /\
                   length b = 32%nat /\ wf_bytes ts.
Proof.
  intros Hw Hs Hc Hr. destruct (Hc Hr) as [Hl H5]. destruct Hr as [r ->].
  destruct Hs as [a [b [E Hb]]]; [unfold bytes, byte in *; lia|].
  assert (Hla : length a = 10%nat).
  { apply (f_equal (@length N)) in E. rewrite app_length in E. simpl in E, Hl. unfold bytes, byte in *. lia. }
  destruct a as [|k0 [|t1 [|t2 [|t3 [|t4 [|k5 [|u1 [|u2 [|u3 [|u4 [|x a]]]]]]]]]]]; simpl in Hla; try lia.
  simpl in E. injection E as E0 E. subst. simpl in H5. subst k5.
  exists [t1; t2; t3; t4], [u1; u2; u3; u4], b. repeat split; auto.
  inversion Hw as [|? ? _ Hw1]; subst. inversion Hw1 as [|? ? H1 Hw2]; subst.
  inversion Hw2 as [|? ? H2 Hw3]; subst. inversion Hw3 as [|? ? H3 Hw4]; subst.
  inversion Hw4 as [|? ? H4 _]; subst. repeat constructor; assumption.
Qed.

Lemma range_pointwise key : wf_bytes key -> key_shaped key -> created_shaped key ->
  sr key = if lex_ltb key r_start then yr 1%N r_stop key else [].
Proof.
  intros Hw Hs Hc. unfold sr, yr.
  destruct key as [|k0 r].
  - simpl. rewrite andb_false_r. destruct (lex_ltb [] r_start); reflexivity.
  - destruct (N.eqb k0 1) eqn:Ek.
    + apply N.eqb_eq in Ek. subst k0.
      destruct (created_decomp _ Hw Hs Hc (ex_intro _ r eq_refl)) as [ts [ts2 [b [E [Hts [Hts2 [Hb Hwts]]]]]]].
      rewrite E. clear E.
      destruct (length4 ts Hts) as [t1 [t2 [t3 [t4 ->]]]]. destruct (length4 ts2 Hts2) as [u1 [u2 [u3 [u4 ->]]]].
      assert (Hlast : last_n ([1%N] ++ [t1; t2; t3; t4] ++ 0%N :: [u1; u2; u3; u4] ++ 0%N :: b) 32 = b).
      { apply (last_n_app [1%N; t1; t2; t3; t4; 0%N; u1; u2; u3; u4; 0%N] b Hb). }
      rewrite Hlast.
      assert (Hstart : lex_cmp ([1%N] ++ [t1; t2; t3; t4] ++ 0%N :: [u1; u2; u3; u4] ++ 0%N :: b) r_start =
                       match lex_cmp [t1; t2; t3; t4] (ut until0) with Eq => Lt | c => c end).
      { unfold r_start. rewrite (entry_vs_seek [1%N] [t1; t2; t3; t4] _ (ut until0) eq_refl (ut_length until0 Huntil)). reflexivity. }
      assert (Hstop : lex_cmp r_stop ([1%N] ++ [t1; t2; t3; t4] ++ 0%N :: [u1; u2; u3; u4] ++ 0%N :: b) =
                      match since0 with Some s => match lex_cmp s [t1; t2; t3; t4] with Eq => Lt | c => c end | None => Lt end).
      { unfold r_stop. destruct since0 as [s|] eqn:Es; [|reflexivity].
        rewrite lex_cmp_app_same. rewrite <- (app_nil_r s) at 1.
        rewrite (lex_cmp_app_eqlen s [t1; t2; t3; t4]) by (pose proof (Hsince s eq_refl) as Hq; unfold bytes, byte in *; rewrite Hq; reflexivity). reflexivity. }
      unfold lex_ltb. rewrite Hstart, Hstop.
      cbn [app length nth firstn skipn]. unfold bytes, byte in *. rewrite Hb. cbn [Nat.eqb N.eqb Pos.eqb andb list_eqb].
      unfold in_window_b, lex_leb, ut in *.
      destruct until0 as [u|] eqn:Eu.
      * destruct (lex_cmp [t1; t2; t3; t4] u) eqn:C1; destruct since0 as [s|]; try reflexivity;
          destruct (lex_cmp s [t1; t2; t3; t4]); reflexivity.
      * pose proof (wf4_le_ff _ Hwts eq_refl) as Hff.
        destruct (lex_cmp [t1; t2; t3; t4] [255; 255; 255; 255]%N) eqn:C1; try congruence;
          destruct since0 as [s|]; try reflexivity; destruct (lex_cmp s [t1; t2; t3; t4]); reflexivity.
    + unfold bytes, byte in *. cbn [nth firstn list_eqb]. rewrite Ek. rewrite !andb_false_r. simpl.
      destruct (lex_ltb _ _); reflexivity.
Qed.
End CreatedRange.

(* ===================================================================== assembly *)
Lemma to_key_prefix i m b : to_key i m = KKey b -> exists r, b = idx_prefix i :: r.
Proof.
  destruct i, m; simpl; try discriminate;
    repeat match goal with
           | |- context [match ?x with _ => _ end] => destruct x
           end; try discriminate; intros H; injection H as <-; eauto.
Qed.

Lemma compile_prefix i ms : forall cms, compile (map (to_key i) ms) = Some cms ->
  Forall (fun b => exists r, b = idx_prefix i :: r) cms.
Proof.
  induction ms as [|m ms IH]; intros cms H; simpl in H.
  - injection H as <-. constructor.
  - destruct (to_key i m) as [b| |] eqn:E; [|auto|auto].
    destruct (compile (map (to_key i) ms)) as [r|]; [|discriminate]. simpl in H. injection H as <-.
    constructor; [eapply to_key_prefix; eauto|auto].
Qed.

Lemma conv_time_length o r : conv_time o = Some r -> forall b, r = Some b -> length b = 4%nat.
Proof.
  unfold conv_time. destruct o as [z|]; [|intros H; injection H as <-; discriminate].
  destruct (be4 z) as [x|] eqn:E; [|discriminate]. intros H b Hb. injection H as <-. injection Hb as <-.
  eapply be4_length; eauto.
Qed.

Definition floor_ok (ks : list bytes) (i : idx) : Prop :=
  match i with IxIds => True | _ => ks <> [] -> nth 0 (hd [] ks) 0%N <> idx_prefix i end.

Lemma okm_tombstone ks ht until0 pfx r sep : In tombstone ks -> (pfx < 238)%N ->
  okm ks ht until0 ((pfx :: r) ++ sep).
Proof.
  intros Hin Hlt. split; [discriminate|]. exists tombstone. split; [assumption|].
  unfold seek_key, tombstone. simpl. apply N.compare_lt_iff in Hlt. rewrite Hlt. discriminate.
Qed.

Lemma scanner_blocks ks pfx ht s u events compiled cms0 :
  StrictSorted ks -> compile compiled = Some cms0 -> cms0 <> [] ->
  Forall (okm ks ht u) (map (fun m => m ++ separator ht) cms0) ->
  Forall (mono_ok ks ht s u) (map (fun m => m ++ separator ht) cms0) ->
  TailOK ks ht s u events (map (fun m => m ++ separator ht) cms0) ->
  scanner ks pfx ht s u events compiled =
  SOk (flat_map (contrib ks ht s u events) (map (fun m => m ++ separator ht) cms0)).
Proof.
  intros Hs Hc Hne Hok Hmono Htail. unfold scanner. rewrite Hc.
  destruct cms0 as [|m1 rest]; [congruence|]. cbv zeta. cbn [map] in *.
  inversion Hok as [|? ? Hok1 Hok2]; subst.
  destruct (next_match_ok ks ht u Hs (m1 ++ separator ht) (map (fun m => m ++ separator ht) rest) Hok1)
    as [c [E [Hd Hcur]]].
  unfold bytes, byte in *. rewrite E. rewrite (scan_match_refines ks ht s u events Hs); [| apply Hok1 | assumption | assumption |].
  - unfold finish. rewrite Hd.
    pose proof (lscan_char ks ht s u events Hs _ [] Hmono Htail) as HL. cbn [lscan] in HL.
    simpl rev in HL at 2. cbn [app] in HL. unfold bytes, byte in *. rewrite <- HL. reflexivity.
  - pose proof (desc_length ks c Hcur) as Hl. cbn [length]. unfold bytes, byte in *. nia.
Qed.

Theorem scanner_correct_proof ks i matches since until events :
  StrictSorted ks -> In tombstone ks -> wf_keys ks -> Shaped ks -> floor_ok ks i ->
  (forall cms, compile (map (to_key i) matches) = Some cms ->
     (cms <> [] \/ i = IxCreated) /\ (i = IxIds -> Desc cms)) ->
  index_scanner ks i matches since until events = scan_spec ks i matches since until events.
Proof.
  intros Hs Htomb Hwf Hshaped Hfloor Hcms.
  unfold index_scanner, scan_spec.
  destruct (compile (map (to_key i) matches)) as [cms|] eqn:Ec; [|reflexivity].
  destruct (conv_time since) as [s|] eqn:Es; [|reflexivity].
  destruct (conv_time until) as [u|] eqn:Eu; [|reflexivity].
  pose proof (conv_time_length _ _ Es) as Hls. pose proof (conv_time_length _ _ Eu) as Hlu.
  destruct (Hcms cms eq_refl) as [Hne Hdesc].
  pose proof (compile_prefix i matches cms Ec) as Hpre.
  assert (Hp238 : (idx_prefix i < 238)%N) by (destruct i; reflexivity).
  destruct cms as [|m1 rest].
  - (* no match value: range scan, only on the created_at index *)
    destruct Hne as [Hne|Hi]; [congruence|]. subst i. cbn [idx_prefix idx_has_time].
    unfold scanner. rewrite Ec. cbn [map].
    assert (Hex : exists y, In y ks /\ lex_cmp (r_start u) y <> Gt).
    { exists tombstone. split; [assumption|]. reflexivity || (unfold r_start, tombstone; simpl; discriminate). }
    destruct (seek_below (r_start u) ks Hs Hex) as [c [E [Hd Hcur]]].
    match goal with |- context [set_range ks ?k] =>
      replace k with (r_start u) by (unfold r_start, ut, Scan.until; destruct u; reflexivity) end.
    match goal with |- context [scan_range ks _ _ ?st _ _] =>
      replace st with (r_stop s) by (unfold r_stop, Scan.since; destruct s; reflexivity) end.
    rewrite E.
    rewrite scan_range_refines.
    + rewrite Hd. simpl rev at 1. cbn [app]. f_equal. unfold spec_range, below. rewrite <- filter_rev.
      apply flat_map_filter_gen. intros key Hk. apply in_rev in Hk.
      unfold wf_keys, Shaped in *. rewrite Forall_forall in Hwf, Hshaped.
      destruct (Hshaped key Hk) as [Hks Hkc].
      exact (range_pointwise s u Hls Hlu key (Hwf key Hk) Hks Hkc).
    + unfold r_stop. destruct s; discriminate.
    + exact Hcur.
    + rewrite Hd. apply Desc_rev, sorted_below, Hs.
    + pose proof (desc_length ks _ Hcur) as Hl. cbn [length]. unfold bytes, byte in *. nia.
  - assert (Hne' : m1 :: rest <> []) by discriminate.
    replace (match m1 :: rest, i with [], IxCreated => SOk (spec_range ks (idx_prefix i) s u) | _, _ =>
               SOk (flat_map (spec_block ks match i with IxIds => true | _ => false end s u events) (m1 :: rest)) end)
      with (SOk (flat_map (spec_block ks match i with IxIds => true | _ => false end s u events) (m1 :: rest)))
      by (destruct i; reflexivity).
    assert (Hokm : Forall (okm ks (idx_has_time i) u) (map (fun m => m ++ separator (idx_has_time i)) (m1 :: rest))).
    { apply Forall_forall. intros cm Hin. apply in_map_iff in Hin. destruct Hin as [m [<- Hm]].
      rewrite Forall_forall in Hpre. destruct (Hpre m Hm) as [r ->]. apply okm_tombstone; assumption. }
    destruct (idx_has_time i) eqn:Eht.
    + (* timed indexes *)
      rewrite (scanner_blocks ks (idx_prefix i) true s u events _ (m1 :: rest) Hs Ec Hne' Hokm).
      * f_equal. rewrite flat_map_map. apply flat_map_ext_in. intros m _.
        assert (Ei : match i with IxIds => true | _ => false end = false) by (destruct i; [discriminate|reflexivity..]).
        rewrite Ei. apply (timed_contrib ks s u events Hwf Hshaped Hls Hlu).
      * apply Forall_forall. intros cm _. apply (timed_mono ks s u Hls Hlu).
      * apply (timed_tail ks s u events (idx_prefix i)).
        -- destruct i; try discriminate; exact Hfloor.
        -- apply Forall_forall. intros cm Hin. apply in_map_iff in Hin. destruct Hin as [m [<- Hm]].
           rewrite Forall_forall in Hpre. destruct (Hpre m Hm) as [r ->]. eexists. reflexivity.
    + (* the id index *)
      assert (Ei : i = IxIds) by (destruct i; try discriminate; reflexivity). subst i.
      rewrite (scanner_blocks ks (idx_prefix IxIds) false s u events _ (m1 :: rest) Hs Ec Hne' Hokm).
      * f_equal. rewrite flat_map_map. apply flat_map_ext_in. intros m _.
        unfold separator. rewrite app_nil_r. apply (ids_contrib ks s u events).
      * apply Forall_forall. intros cm _. apply ids_mono.
      * unfold separator. rewrite map_ext with (g := fun m => m) by (intros; apply app_nil_r). rewrite map_id.
        apply (ids_tail ks s u events Hs). apply Hdesc. reflexivity.
Qed.
