(* LMDB secondary-index key layout of nostr_relay/storage/kv.py:
   Index.to_key of every index class, bytes_from_hex, str.encode(). *)
From NR Require Import Lib.Base.
Open Scope list_scope. Open Scope Z_scope.

(* ---- str.encode() = UTF-8; None = UnicodeEncodeError (a ValueError) on surrogates ---- *)
Local Open Scope N_scope.
Definition utf8_cp (c : cp) : option bytes :=
  if c <? 128 then Some [c]
  else if c <? 2048 then Some [192 + c / 64; 128 + c mod 64]
  else if (55296 <=? c) && (c <=? 57343) then None
  else if c <? 65536 then Some [224 + c / 4096; 128 + (c / 64) mod 64; 128 + c mod 64]
  else if c <? 1114112 then Some [240 + c / 262144; 128 + (c / 4096) mod 64; 128 + (c / 64) mod 64; 128 + c mod 64]
  else None.
Local Close Scope N_scope.
Fixpoint utf8 (s : pystr) : option bytes :=
  match s with
  | [] => Some []
  | c :: r => match utf8_cp c, utf8 r with Some a, Some b => Some (a ++ b) | _, _ => None end
  end.

(* ---- bytes.fromhex: pairs of hex digits (either case), ASCII whitespace skipped between pairs ---- *)
Definition is_ascii_ws (c : cp) : bool :=
  (c =? 32)%N || ((9 <=? c) && (c <=? 13))%N.
Fixpoint py_fromhex (s : pystr) : option bytes :=
  match s with
  | [] => Some []
  | a :: r =>
      if is_ascii_ws a then py_fromhex r else
      match r with
      | [] => None
      | b :: r' => match hexval a, hexval b, py_fromhex r' with
                   | Some x, Some y, Some t => Some ((x * 16 + y)%N :: t)
                   | _, _, _ => None
                   end
      end
  end.
(* kv.bytes_from_hex: retry without the last character for odd lengths >= 4 *)
Definition bytes_from_hex (s : pystr) : option bytes :=
  match py_fromhex s with
  | Some b => Some b
  | None => if Nat.leb 4 (length s) && Nat.odd (length s) then py_fromhex (removelast s) else None
  end.

(* ---- the six indexes ---- *)
Inductive idx := IxIds | IxCreated | IxKinds | IxAuthors | IxAuthorKinds | IxTags.
Definition idx_prefix (i : idx) : byte :=
  match i with IxIds => 0 | IxCreated => 1 | IxKinds => 2 | IxAuthors => 3 | IxAuthorKinds => 4 | IxTags => 9 end%N.
Definition idx_cardinality (i : idx) : Z :=
  match i with IxIds => 1000 | IxTags => 100 | IxAuthorKinds => 20 | _ => 1 end.

(* a match value handed to Index.to_key *)
Inductive mval := MStr (s : pystr) | MInt (z : Z) | MStrInt (s : pystr) (z : Z) | MStrStr (a b : pystr).
(* result of to_key: a key, ValueError (match skipped by the scanner), OverflowError (escapes) *)
Inductive kres := KKey (b : bytes) | KSkip | KOverflow.

Definition to_key (i : idx) (m : mval) : kres :=
  match i, m with
  | IxIds, MStr s | IxAuthors, MStr s =>
      match bytes_from_hex s with Some b => KKey (idx_prefix i :: b) | None => KSkip end
  | IxKinds, MInt z | IxCreated, MInt z =>
      match be4 z with Some b => KKey (idx_prefix i :: b) | None => KOverflow end
  | IxAuthorKinds, MStrInt s z =>
      match bytes_from_hex s with
      | None => KSkip
      | Some a => match be4 z with Some b => KKey (idx_prefix i :: a ++ [0%N] ++ b) | None => KOverflow end
      end
  | IxTags, MStrStr a b =>
      match utf8 a, utf8 b with
      | Some x, Some y => KKey (idx_prefix i :: x ++ [0%N] ++ y)
      | _, _ => KSkip
      end
  | _, _ => KSkip
  end.

(* b"%s\x00%s\x00%s" % (key, ctime, event_id) *)
Definition entry_key (k ctime eid : bytes) : bytes := k ++ [0%N] ++ ctime ++ [0%N] ++ eid.
Definition tombstone : bytes := [238%N].
