(* The cursor machine of KVM.Scan refines a list-level scanner (no cursor, no fuel), and the
   list-level scanner yields exactly the entries of each requested block (generic part). *)
From NR Require Import Lib.Base Lib.BaseFacts KVM.Engine KVM.Keys KVM.Scan KVM.Order KVM.Proofs_Cursor.
From Coq Require Import Sorting.Sorted.
Open Scope list_scope.

Definition Desc (l : list bytes) : Prop := StronglySorted (fun a b => lex_cmp b a = Lt) l.

Lemma Desc_snoc l a : Desc l -> Forall (fun b => lex_cmp a b = Lt) l -> Desc (l ++ [a]).
Proof.
  induction l as [|b r IH]; intros Hd Hf; simpl.
  - constructor; constructor.
  - inversion Hd; subst. inversion Hf; subst. constructor; [apply IH; assumption|].
    apply Forall_app. split; [assumption|]. constructor; [assumption|constructor].
Qed.
Lemma Desc_rev l : StrictSorted l -> Desc (rev l).
Proof.
  induction l as [|a l IH]; intros H; [constructor|]. apply sorted_inv in H. destruct H as [Hs Hf].
  simpl. apply Desc_snoc; [apply IH, Hs|].
  rewrite Forall_forall in *. intros y Hy. apply Hf, in_rev, Hy.
Qed.

Lemma flat_map_filter_gen {A B} (p : A -> bool) (f g : A -> list B) l :
  (forall x, In x l -> g x = if p x then f x else []) -> flat_map f (filter p l) = flat_map g l.
Proof.
  induction l as [|a l IH]; intros H; [reflexivity|]. simpl.
  rewrite (H a (or_introl eq_refl)). destruct (p a); simpl; rewrite IH; auto; intros; apply H; right; assumption.
Qed.

Lemma flat_map_nil_gen {A B} (f : A -> list B) l : (forall x, In x l -> f x = []) -> flat_map f l = [].
Proof.
  induction l as [|a l IH]; intros H; [reflexivity|]. simpl.
  rewrite (H a (or_introl eq_refl)), IH; auto. intros; apply H; right; assumption.
Qed.

Section ListScan.
Variable ks : list bytes.
Variable has_time : bool.
Variable since0 until0 : option bytes.
Variable events : bytes -> bool.

Let T := entry_tail has_time.
Let rej := reject has_time since0 until0.
Let addt := add_time has_time until0.

Definition skip_key (key cm : bytes) : bool :=
  prefix_ok key cm && negb (Nat.eqb (length key) (length cm + T)).
Definition push (key : bytes) (acc : list bytes) : list bytes :=
  if events (last_n key 32) then last_n key 32 :: acc else acc.

(* one block: walk down l (largest key first); (acc', true) = go on with the next match,
   (acc', false) = prev() failed, the whole scan ends *)
Fixpoint lblock (cm : bytes) (l : list bytes) (acc : list bytes) : list bytes * bool :=
  match l with
  | [] => (acc, true)
  | key :: l' =>
      if skip_key key cm then match l' with [] => (acc, false) | _ => lblock cm l' acc end
      else if rej key cm then (acc, true)
      else match l' with [] => (push key acc, false) | _ => lblock cm l' (push key acc) end
  end.

Definition seek_key (cm : bytes) : bytes := cm ++ addt.
Definition seek (cm : bytes) : list bytes := rev (below (seek_key cm) ks).

Fixpoint lscan (cms : list bytes) (acc : list bytes) : list bytes :=
  match cms with
  | [] => rev acc
  | cm :: rest => let r := lblock cm (seek cm) acc in if snd r then lscan rest (fst r) else rev (fst r)
  end.

Definition finish (r : list bytes * bool) (rem : list bytes) : list bytes :=
  if snd r then lscan rem (fst r) else rev (fst r).

(* a compiled match the cursor can always be positioned for *)
Definition okm (cm : bytes) : Prop :=
  cm <> [] /\ exists y, In y ks /\ lex_cmp (seek_key cm) y <> Gt.

Hypothesis Hsorted : StrictSorted ks.

Lemma next_match_ok cm rem : okm cm ->
  exists c, next_match ks has_time until0 (cm :: rem) = Some (cm, true, c, rem) /\
            desc ks c = seek cm /\ cur_ok ks c.
Proof.
  intros [_ Hex]. unfold next_match.
  destruct (seek_below (seek_key cm) ks Hsorted Hex) as [c [E [Hd Hc]]].
  unfold seek_key, addt in E. rewrite E. eexists; split; [reflexivity|]. split; assumption.
Qed.

Lemma prefix_ok_nil cm : cm <> [] -> prefix_ok [] cm = false.
Proof. destruct cm; [congruence|reflexivity]. Qed.

Lemma scan_match_refines : forall fuel cm rem c acc,
  cm <> [] -> Forall okm rem -> cur_ok ks c ->
  (length (desc ks c) + 1 + length rem * (length ks + 3) <= fuel)%nat ->
  scan_match ks has_time since0 until0 events fuel cm rem c acc =
  SOk (finish (lblock cm (desc ks c) acc) rem).
Proof.
  induction fuel as [|f IH]; intros cm rem c acc Hne Hrem Hc Hfuel; [lia|].
  (* moving on to the next match *)
  assert (Hnext : match next_match ks has_time until0 rem with
                  | None => SOk (rev acc)
                  | Some (m', found, c', rem') =>
                      if found then scan_match ks has_time since0 until0 events f m' rem' c' acc else SOk (rev acc)
                  end = SOk (lscan rem acc)).
  { destruct rem as [|m' rem']; [reflexivity|].
    inversion Hrem as [|? ? Hm' Hrem']; subst.
    destruct (next_match_ok m' rem' Hm') as [c' [E [Hd Hc']]]. rewrite E.
    rewrite IH; [|apply Hm'|assumption|assumption|].
    - simpl. rewrite Hd. reflexivity.
    - pose proof (desc_length ks c' Hc'). simpl in Hfuel. unfold bytes, byte in *. lia. }
  destruct c as [i|].
  - (* positioned *)
    simpl in Hc. destruct (desc_step ks i Hc) as [Hd [Hok Hc']].
    cbn [scan_match]. rewrite Hd. cbn [lblock].
    fold (skip_key (cur_key ks (Some i)) cm). fold T.
    change (prefix_ok (cur_key ks (Some i)) cm && negb (Nat.eqb (length (cur_key ks (Some i))) (length cm + T)))
      with (skip_key (cur_key ks (Some i)) cm).
    change (reject has_time since0 until0 (cur_key ks (Some i)) cm) with (rej (cur_key ks (Some i)) cm).
    destruct (cur_prev ks (Some i)) as [ok c'] eqn:Ep. cbn [fst snd] in Hd, Hok, Hc' |- *.
    assert (Hlen : (length (desc ks c') + 1 + length rem * (length ks + 3) <= f)%nat).
    { rewrite Hd in Hfuel. cbn [length] in Hfuel. unfold bytes, byte in *. lia. }
    destruct (skip_key (cur_key ks (Some i)) cm).
    + destruct (desc ks c') eqn:El; simpl in Hok; subst ok.
      * reflexivity.
      * rewrite IH; auto; [|rewrite El; exact Hlen]. rewrite El. reflexivity.
    + destruct (rej (cur_key ks (Some i)) cm).
      * exact Hnext.
      * change (if events (last_n (cur_key ks (Some i)) 32) then last_n (cur_key ks (Some i)) 32 :: acc else acc)
          with (push (cur_key ks (Some i)) acc).
        destruct (desc ks c') eqn:El; simpl in Hok; subst ok.
        -- reflexivity.
        -- rewrite IH; auto; [|rewrite El; exact Hlen]. rewrite El. reflexivity.
  - (* unpositioned: key() = b"" *)
    cbn [scan_match]. simpl cur_key. rewrite (prefix_ok_nil cm Hne). simpl andb. cbv iota.
    unfold reject. rewrite (prefix_ok_nil cm Hne). simpl negb. simpl orb. cbv iota.
    exact Hnext.
Qed.

(* ---- what one block yields ---- *)
Definition hit (cm key : bytes) : bool :=
  prefix_ok key cm && Nat.eqb (length key) (length cm + T) && negb (rej key cm).
Definition yield (cm key : bytes) : list bytes :=
  if hit cm key && events (last_n key 32) then [last_n key 32] else [].

Lemma push_yield cm key acc : hit cm key = true -> push key acc = rev (yield cm key) ++ acc.
Proof. intros H. unfold push, yield. rewrite H. simpl. destruct (events (last_n key 32)); reflexivity. Qed.

Lemma rej_not_prefixed key cm : prefix_ok key cm = false -> rej key cm = true.
Proof. intros H. unfold rej, reject. rewrite H. reflexivity. Qed.

Lemma lblock_char cm sk : has_prefix sk cm = true -> forall L acc,
  Desc L -> Forall (fun k => lex_cmp k sk = Lt) L ->
  (forall k k', In k L -> In k' L -> lex_cmp k' k = Lt ->
      prefix_ok k cm = true -> length k = (length cm + T)%nat ->
      prefix_ok k' cm = true -> length k' = (length cm + T)%nat ->
      rej k cm = true -> rej k' cm = true) ->
  fst (lblock cm L acc) = rev (flat_map (yield cm) L) ++ acc /\
  (snd (lblock cm L acc) = false -> L <> [] /\ prefix_ok (last L []) cm = true).
Proof.
  intros Hsk. apply has_prefix_spec in Hsk. destruct Hsk as [suf ->].
  induction L as [|key l' IH]; intros acc Hd Hlt Hmono.
  - simpl. split; [reflexivity|discriminate].
  - inversion Hd as [|? ? Hd' Hbelow]; subst. inversion Hlt as [|? ? Hkey Hlt']; subst.
    assert (Hmono' : forall k k', In k l' -> In k' l' -> lex_cmp k' k = Lt ->
      prefix_ok k cm = true -> length k = (length cm + T)%nat ->
      prefix_ok k' cm = true -> length k' = (length cm + T)%nat ->
      rej k cm = true -> rej k' cm = true).
    { intros k k' Hk Hk'. apply Hmono; right; assumption. }
    assert (Hlast : l' <> [] -> last (key :: l') [] = last l' []).
    { destruct l'; [congruence|reflexivity]. }
    cbn [lblock]. unfold skip_key.
    destruct (prefix_ok key cm) eqn:Ep; simpl andb.
    + destruct (Nat.eqb (length key) (length cm + T)) eqn:El; simpl negb; cbv iota.
      * apply Nat.eqb_eq in El.
        destruct (rej key cm) eqn:Er.
        -- (* first key of the block that is out of the window: everything below is, too *)
           cbn [fst snd]. split; [|discriminate].
           assert (flat_map (yield cm) (key :: l') = []) as ->; [|reflexivity].
           apply flat_map_nil_gen. intros k Hk. unfold yield, hit.
           destruct Hk as [<-|Hk]; [rewrite Er, !andb_false_r; reflexivity|].
           destruct (prefix_ok k cm) eqn:Epk; [|reflexivity].
           destruct (Nat.eqb (length k) (length cm + T)) eqn:Elk; [|reflexivity].
           apply Nat.eqb_eq in Elk.
           rewrite (Hmono key k); auto; [left; reflexivity|right; assumption|].
           rewrite Forall_forall in Hbelow. apply Hbelow, Hk.
        -- assert (Hh : hit cm key = true) by (unfold hit; rewrite Ep, Er; simpl; rewrite El, Nat.eqb_refl; reflexivity).
           destruct l' as [|k2 l''] eqn:El'.
           ++ simpl. rewrite app_nil_r. split; [apply push_yield, Hh|]. intros _. split; [discriminate|exact Ep].
           ++ rewrite <- El' in *. specialize (IH (push key acc) Hd' Hlt' Hmono'). destruct IH as [IH1 IH2].
              assert (Hne : l' <> []) by (rewrite El'; discriminate).
              replace (match l' with [] => (push key acc, false) | _ :: _ => lblock cm l' (push key acc) end)
                with (lblock cm l' (push key acc)) by (rewrite El'; reflexivity).
              split.
              ** rewrite IH1, (push_yield cm key acc Hh). simpl flat_map. rewrite rev_app_distr, app_assoc. reflexivity.
              ** intros Hs. destruct (IH2 Hs) as [_ Hp]. split; [discriminate|]. rewrite (Hlast Hne). exact Hp.
      * (* entry of a longer value: stepped over *)
        assert (Hy : yield cm key = []) by (unfold yield, hit; rewrite El, andb_false_r; reflexivity).
        destruct l' as [|k2 l''] eqn:El'.
        -- simpl. rewrite Hy. split; [reflexivity|]. intros _. split; [discriminate|exact Ep].
        -- rewrite <- El' in *. specialize (IH acc Hd' Hlt' Hmono'). destruct IH as [IH1 IH2].
           assert (Hne : l' <> []) by (rewrite El'; discriminate).
           replace (match l' with [] => (acc, false) | _ :: _ => lblock cm l' acc end)
             with (lblock cm l' acc) by (rewrite El'; reflexivity).
           split.
           ++ rewrite IH1. simpl flat_map. rewrite Hy. reflexivity.
           ++ intros Hs. destruct (IH2 Hs) as [_ Hp]. split; [discriminate|]. rewrite (Hlast Hne). exact Hp.
    + (* a key outside the block: nothing of the block lies below it *)
      cbv iota. rewrite (rej_not_prefixed key cm Ep). cbn [fst snd]. split; [|discriminate].
      assert (flat_map (yield cm) (key :: l') = []) as ->; [|reflexivity].
      apply flat_map_nil_gen. intros k Hk. unfold yield, hit.
      assert (Hkm : lex_cmp key cm = Lt) by (eapply not_prefixed_lt; eauto).
      destruct Hk as [<-|Hk]; [rewrite Ep; reflexivity|].
      rewrite Forall_forall in Hbelow. specialize (Hbelow k Hk).
      assert (Hk2 : prefix_ok k cm = false).
      { apply below_not_prefixed. eapply lex_lt_trans; eauto. }
      rewrite Hk2. reflexivity.
Qed.
End ListScan.
