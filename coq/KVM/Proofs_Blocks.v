(* Byte-level facts about index entries (key = match ++ 00 ++ time(4) ++ 00 ++ id(32)):
   decomposition of shaped keys, ScanSpec.entry_of, position of an entry relative to the
   seek key of its block ("block contiguity"). *)
From NR Require Import Lib.Base Lib.BaseFacts KVM.Engine KVM.Keys KVM.Scan KVM.ScanSpec KVM.Order.
Open Scope list_scope.

(* ---- shape of the keys of a store (true of every coherent store, see Proofs_Coherent) ---- *)
(* a key long enough to be a timed index entry ends with 00 ++ id(32) *)
Definition key_shaped (key : bytes) : Prop :=
  (38 <= length key)%nat -> exists a b, key = a ++ 0%N :: b /\ length b = 32%nat.
(* a key of the created_at index is 01 ++ time(4) ++ 00 ++ time(4) ++ 00 ++ id(32) *)
Definition created_shaped (key : bytes) : Prop :=
  (exists r, key = 1%N :: r) -> length key = 43%nat /\ nth 5 key 1%N = 0%N.
Definition Shaped (ks : list bytes) : Prop := Forall (fun key => key_shaped key /\ created_shaped key) ks.

(* ---- list surgery under a common prefix ---- *)
Lemma nth_app_plus {A} (m r : list A) n d : nth (length m + n) (m ++ r) d = nth n r d.
Proof. rewrite app_nth2 by lia. f_equal. lia. Qed.
Lemma firstn_app_exact {A} (m r : list A) : firstn (length m) (m ++ r) = m.
Proof. rewrite firstn_app, Nat.sub_diag, firstn_all. simpl. apply app_nil_r. Qed.
Lemma skipn_app_plus {A} (m r : list A) n : skipn (length m + n) (m ++ r) = skipn n r.
Proof.
  rewrite skipn_app. replace (length m + n - length m)%nat with n by lia.
  rewrite skipn_all2 by lia. reflexivity.
Qed.
Lemma skipn_app_exact {A} (m r : list A) : skipn (length m) (m ++ r) = r.
Proof. rewrite <- (Nat.add_0_r (length m)). rewrite skipn_app_plus. reflexivity. Qed.

Lemma length4 {A} (l : list A) : length l = 4%nat -> exists a b c d, l = [a; b; c; d].
Proof. destruct l as [|a [|b [|c [|d [|e l]]]]]; simpl; try discriminate. eauto. Qed.

Lemma last_n_app a b : length b = 32%nat -> last_n (a ++ b) 32 = b.
Proof.
  intros H. unfold last_n. rewrite app_length, H.
  replace (length a + 32 - 32)%nat with (length a) by lia. apply skipn_app_exact.
Qed.

Lemma lex_lt_app_cons a x r : lex_cmp a (a ++ x :: r) = Lt.
Proof. induction a as [|y a IH]; simpl; [reflexivity|]. rewrite N.compare_refl. exact IH. Qed.

(* ---- timed entries ---- *)
(* a shaped key that starts with m ++ 00 and has the length of an entry of m is one *)
Lemma shaped_entry m key : has_prefix key (m ++ [0%N]) = true -> length key = (length (m ++ [0%N]) + 37)%nat ->
  key_shaped key -> exists ts eid, key = m ++ 0%N :: ts ++ 0%N :: eid /\ length ts = 4%nat /\ length eid = 32%nat.
Proof.
  intros Hp Hl Hs. apply has_prefix_spec in Hp. destruct Hp as [r ->].
  rewrite !app_length in Hl. simpl in Hl.
  destruct Hs as [a [b [E Hb]]]; [rewrite !app_length; simpl; lia|].
  assert (Hr : skipn 4 r = 0%N :: b).
  { assert (E2 : skipn (length (m ++ [0%N]) + 4) ((m ++ [0%N]) ++ r) = skipn (length a) (a ++ 0%N :: b)).
    { rewrite <- E. f_equal. apply (f_equal (@length N)) in E. rewrite !app_length in E. simpl in E.
      rewrite !app_length. simpl. lia. }
    rewrite skipn_app_plus, skipn_app_exact in E2. exact E2. }
  exists (firstn 4 r), b. split; [|split].
  - rewrite <- app_assoc. cbn [app]. f_equal. f_equal. rewrite <- Hr. symmetry. apply firstn_skipn.
  - rewrite firstn_length. lia.
  - exact Hb.
Qed.

Lemma entry_of_entry m ts eid : length ts = 4%nat -> length eid = 32%nat ->
  entry_of m (m ++ 0%N :: ts ++ 0%N :: eid) = Some (ts, eid).
Proof.
  intros Ht He. destruct (length4 ts Ht) as [a [b [c [d ->]]]]. unfold entry_of.
  cbn [app]. rewrite app_length. cbn [length]. unfold bytes, byte in *. rewrite He.
  replace (length m + S (S (S (S (S (S 32))))))%nat with (length m + 38)%nat by lia.
  rewrite Nat.eqb_refl, firstn_app_exact.
  assert (bytes_eqb m m = true) as -> by (apply bytes_eqb_eq; reflexivity).
  rewrite <- (Nat.add_0_r (length m)) at 1. rewrite !nth_app_plus. simpl.
  rewrite !skipn_app_plus. reflexivity.
Qed.

Lemma entry_of_some m key ts eid : entry_of m key = Some (ts, eid) ->
  has_prefix key (m ++ [0%N]) = true /\ length key = (length (m ++ [0%N]) + 37)%nat.
Proof.
  unfold entry_of. destruct (Nat.eqb (length key) (length m + 38)) eqn:E1; [|discriminate].
  destruct (bytes_eqb (firstn (length m) key) m) eqn:E2; [|discriminate].
  destruct (N.eqb (nth (length m) key 1%N) 0) eqn:E3; [|discriminate].
  simpl. intros _. apply Nat.eqb_eq in E1. apply N.eqb_eq in E3.
  assert (Hp : has_prefix key m = true) by exact E2.
  apply has_prefix_spec in Hp. destruct Hp as [r ->]. split.
  - rewrite <- (Nat.add_0_r (length m)) in E3. rewrite nth_app_plus in E3.
    destruct r as [|x r]; [rewrite app_length in E1; simpl in E1; unfold bytes, byte in *; lia|]. simpl in E3. subst x.
    apply has_prefix_spec. exists r. rewrite <- app_assoc. reflexivity.
  - rewrite !app_length in *. simpl. unfold bytes, byte in *. lia.
Qed.

(* comparison of an entry cm ++ ts ++ rest with the seek key cm ++ ut ++ 01 *)
Lemma entry_vs_seek cm ts rest ut : length ts = 4%nat -> length ut = 4%nat ->
  lex_cmp (cm ++ ts ++ rest) (cm ++ ut ++ [1%N]) =
  match lex_cmp ts ut with Eq => lex_cmp rest [1%N] | c => c end.
Proof. intros H1 H2. rewrite lex_cmp_app_same. apply lex_cmp_app_eqlen. congruence. Qed.

Lemma wf4_le_ff ts : wf_bytes ts -> length ts = 4%nat -> lex_cmp ts [255; 255; 255; 255]%N <> Gt.
Proof.
  intros Hw Hl. destruct (length4 ts Hl) as [a [b [c [d ->]]]].
  inversion Hw as [|? ? Ha Hw1]; subst. inversion Hw1 as [|? ? Hb Hw2]; subst.
  inversion Hw2 as [|? ? Hc Hw3]; subst. inversion Hw3 as [|? ? Hd _]; subst.
  simpl.
  destruct (N.compare a 255) eqn:E1; try congruence; [|apply N.compare_gt_iff in E1; lia].
  destruct (N.compare b 255) eqn:E2; try congruence; [|apply N.compare_gt_iff in E2; lia].
  destruct (N.compare c 255) eqn:E3; try congruence; [|apply N.compare_gt_iff in E3; lia].
  destruct (N.compare d 255) eqn:E4; try congruence. apply N.compare_gt_iff in E4; lia.
Qed.

Lemma wf_bytes_app a b : wf_bytes (a ++ b) <-> wf_bytes a /\ wf_bytes b.
Proof. apply Forall_app. Qed.

(* the entry m ++ 00 ++ ts ++ 00 ++ eid seen from the compiled match m ++ 00 *)
Lemma entry_regroup (m ts eid : list N) : m ++ 0%N :: ts ++ 0%N :: eid = (m ++ [0%N]) ++ ts ++ 0%N :: eid.
Proof. rewrite <- app_assoc. reflexivity. Qed.
Lemma last_n_entry (m ts eid : list N) : length eid = 32%nat -> last_n (m ++ 0%N :: ts ++ 0%N :: eid) 32 = eid.
Proof.
  intros H. replace (m ++ 0%N :: ts ++ 0%N :: eid) with ((m ++ 0%N :: ts ++ [0%N]) ++ eid).
  - apply last_n_app, H.
  - rewrite <- !app_assoc. simpl. rewrite <- app_assoc. reflexivity.
Qed.
Lemma ts_of_entry (m ts eid : list N) : length ts = 4%nat ->
  firstn 4 (skipn (length (m ++ [0%N])) (m ++ 0%N :: ts ++ 0%N :: eid)) = ts.
Proof. intros H. rewrite entry_regroup, skipn_app_exact. rewrite <- H. apply firstn_app_exact. Qed.
Lemma prefix_entry (m ts eid : list N) : prefix_ok (m ++ 0%N :: ts ++ 0%N :: eid) (m ++ [0%N]) = true.
Proof. rewrite entry_regroup. apply has_prefix_app. Qed.
Lemma entry_vs_seek0 (m ts eid ut : list N) : length ts = 4%nat -> length ut = 4%nat ->
  lex_cmp (m ++ 0%N :: ts ++ 0%N :: eid) ((m ++ [0%N]) ++ ut ++ [1%N]) =
  match lex_cmp ts ut with Eq => Lt | c => c end.
Proof. intros H1 H2. rewrite entry_regroup, (entry_vs_seek _ ts _ ut H1 H2). reflexivity. Qed.
