(* What C01 / C02 / C11 / C12 demand of the answer to ONE filter of a REQ on the LMDB backend
   (executable statements: evaluated on the implementation's observations by the harness and
   proved of the model in Thm_C*.v), and the classifiers of the known findings. *)
From NR Require Import Lib.Base Lib.Nip01.
Open Scope list_scope. Open Scope Z_scope.

Definition same_id (a b : wevent) : bool := str_eqb (w_id a) (w_id b).
Definition count_id (e : wevent) (l : list wevent) : nat := count_occ_b (same_id e) l.
Definition count_b {A} (p : A -> bool) (l : list A) : Z := Z.of_nat (count_occ_b p l).

(* effective limit of a filter on the websocket path: min(limit defaulting to max_limit, max_limit) *)
Definition eff_limit (max_limit : Z) (f : filter) : Z :=
  match f_limit f with None => max_limit | Some n => Z.min n max_limit end.

(* C01: only stored records (the very record kept under that id) that may match *)
Definition holds_C01 (stored : list wevent) (f : filter) (ans : list wevent) : bool :=
  forallb (fun e => existsb (wevent_eqb e) stored && may_match f e) ans.

(* C02: when no more events may match than the limit allows, every must-matching stored event
   is delivered, and nothing is delivered twice for one filter *)
Definition under_limit (max_limit : Z) (stored : list wevent) (f : filter) : bool :=
  count_b (may_match f) stored <=? eff_limit max_limit f.
Definition holds_C02 (max_limit : Z) (stored : list wevent) (f : filter) (ans : list wevent) : bool :=
  forallb (fun e => Nat.eqb (count_id e ans) 1) ans &&
  (if under_limit max_limit stored f
   then forallb (fun e => negb (must_match f e) || Nat.eqb (count_id e ans) 1) stored
   else true).

(* C12: never more than the effective limit, and no left-out must-matching event is newer
   than a delivered one *)
Definition holds_C12 (max_limit : Z) (stored : list wevent) (f : filter) (ans : list wevent) : bool :=
  (Z.of_nat (length ans) <=? eff_limit max_limit f) &&
  forallb (fun x => negb (must_match f x) || negb (Nat.eqb (count_id x ans) 0) ||
                    forallb (fun y => w_created x <=? w_created y) ans) stored.

(* C11 relations between two answers (as sets of ids) *)
Definition ids_of (l : list wevent) : list pystr := map w_id l.
Definition subset_ids (a b : list pystr) : bool := forallb (fun x => mem_str x b) a.
Definition same_ids (a b : list pystr) : bool := subset_ids a b && subset_ids b a.

(* ---- classifiers of known findings (guards of the _partial theorems) ---- *)
(* F07: the event meets the authors condition only through its NIP-26 delegation tag *)
Definition delegator_only_match (f : filter) (e : wevent) : bool :=
  match f_authors f with
  | Some l => negb (mem_str (w_pubkey e) l) && has_tag_value e s_delegation l
  | None => false
  end.
(* the planner refuses a filter without ids/kinds/authors/tags unless since or until is non-zero *)
Definition no_index_filter (f : filter) : bool :=
  match f_ids f, f_kinds f, f_authors f, f_tags f with
  | None, None, None, [] => true
  | _, _, _, _ => false
  end.
Definition nonzero (o : option Z) : bool := match o with Some z => negb (z =? 0) | None => false end.
Definition range_scan_refused (f : filter) : bool :=
  no_index_filter f && negb (nonzero (f_since f) || nonzero (f_until f)).
(* F16: more than one match value / more than one index stage: scanned value by value *)
Definition n_values {A} (o : option (list A)) : nat := match o with Some l => length l | None => 0%nat end.
Definition multi_match_filter (f : filter) : bool :=
  match f_ids f with
  | Some l => Nat.ltb 1 (length l)
  | None =>
      let nak := match f_kinds f, f_authors f with
                 | Some k, Some a => (length k * length a)%nat
                 | Some k, None => length k
                 | None, Some a => length a
                 | None, None => 0%nat end in
      let nt := fold_right (fun nv acc => (length (snd nv) + acc)%nat) 0%nat (f_tags f) in
      Nat.ltb 1 nak || Nat.ltb 1 nt || (Nat.ltb 0 nak && Nat.ltb 0 nt)
  end.
