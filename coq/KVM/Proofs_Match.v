(* The residual predicate against the NIP-01 specification: what it accepts may match
   (soundness), and what must match - not merely through a delegation tag - it accepts. *)
From NR Require Import Lib.Base Lib.BaseFacts Lib.Nip01 KVM.Engine KVM.Keys KVM.Coherent KVM.Plan KVM.Match KVM.Spec KVM.Order.
From Coq Require Import ZifyBool.
Open Scope list_scope. Open Scope Z_scope.

(* what model_validate guarantees of a filter (as far as the LMDB query path relies on it) *)
Definition wf_filter (f : filter) : Prop :=
  (forall l, f_ids f = Some l -> Forall (fun v => (64 <= length v)%nat) l) /\
  (forall l, f_authors f = Some l -> Forall (fun v => (64 <= length v)%nat) l) /\
  Forall (fun nv => length (fst nv) = 1%nat) (f_tags f) /\
  (forall z, f_since f = Some z -> 0 <= z < 4294967296) /\
  (forall z, f_until f = Some z -> 0 <= z < 4294967296).
(* what admission guarantees of a stored event beyond stored_wf: Event.verify indexes tag[0] of every tag *)
Definition tags_ok (e : wevent) : Prop := Forall (fun t => t <> []) (w_tags e).

Lemma is_prefix_spec p s : is_prefix p s = true <-> exists r, s = p ++ r.
Proof.
  revert s; induction p as [|x p IH]; intros s; simpl.
  - split; [eauto|reflexivity].
  - destruct s as [|y s]; [split; [discriminate|intros [r H]; discriminate]|].
    rewrite andb_true_iff, N.eqb_eq, IH. split.
    + intros [-> [r ->]]. eauto.
    + intros [r H]. injection H as -> ->. eauto.
Qed.
Lemma is_prefix_refl s : is_prefix s s = true.
Proof. apply is_prefix_spec. exists []. symmetry. apply app_nil_r. Qed.
Lemma is_prefix_long p s : is_prefix p s = true -> (length s <= length p)%nat -> p = s.
Proof.
  intros H Hl. apply is_prefix_spec in H. destruct H as [r ->]. rewrite app_length in Hl.
  destruct r; [symmetry; apply app_nil_r|simpl in Hl; lia].
Qed.

(* a 64-digit field against validated (>= 64 digits) values: the clause is membership *)
Lemma hex_clause_mem field vals : length field = 64%nat -> Forall (fun v => (64 <= length v)%nat) vals ->
  hex_clause field vals = mem_str field vals.
Proof.
  intros Hf Hv. unfold hex_clause. destruct (forallb _ vals) eqn:E; [reflexivity|].
  destruct (mem_str field vals) eqn:Em.
  - apply mem_str_In in Em. apply existsb_exists. exists field. split; [assumption|apply is_prefix_refl].
  - destruct (existsb (fun v => is_prefix v field) vals) eqn:Ex; [|reflexivity].
    apply existsb_exists in Ex. destruct Ex as [v [Hin Hp]]. rewrite Forall_forall in Hv.
    specialize (Hv v Hin). simpl in Hv.
    assert (Hle : (length field <= length v)%nat) by (unfold pystr, cp in *; lia).
    pose proof (is_prefix_long v field Hp Hle) as ->.
    apply mem_str_In in Hin. congruence.
Qed.

Lemma tag_clause_has_tag e n vs : tag_clause (w_tags e) n vs = true -> has_tag_value e n vs = true.
Proof. unfold tag_clause, has_tag_value. destruct (existsb _ (w_tags e)); [discriminate|auto]. Qed.
Lemma has_tag_tag_clause e n vs : tags_ok e -> has_tag_value e n vs = true -> tag_clause (w_tags e) n vs = true.
Proof.
  unfold tag_clause, has_tag_value, tags_ok. intros Hok H.
  destruct (existsb (fun t => match t with [] => true | _ => false end) (w_tags e)) eqn:E; [|exact H].
  apply existsb_exists in E. destruct E as [t [Hin Ht]]. rewrite Forall_forall in Hok.
  specialize (Hok t Hin). destruct t; congruence.
Qed.

Lemma hex64_length s : hex64 s = true -> length s = 64%nat.
Proof. unfold hex64. intros H. apply andb_true_iff in H. destruct H as [H _]. apply Nat.eqb_eq in H. exact H. Qed.

Lemma residual_app a b e : residual (a ++ b) e = residual a e && residual b e.
Proof. apply forallb_app. Qed.
Lemma residual_opt {A} (o : option A) mk e :
  residual (opt_items o mk) e = match o with Some x => clause (mk x) e | None => true end.
Proof. destruct o; simpl; [apply andb_true_r|reflexivity]. Qed.
Lemma residual_tags tags e :
  residual (map (fun nv => QTag (fst nv) (snd nv)) tags) e =
  forallb (fun nv => tag_clause (w_tags e) (fst nv) (snd nv)) tags.
Proof. unfold residual. induction tags as [|a r IH]; simpl; [reflexivity|]. rewrite IH. reflexivity. Qed.

Lemma residual_items f e : residual (plan_items f) e =
  match f_since f with Some z => z <=? w_created e | None => true end &&
  (match f_until f with Some z => w_created e <=? z | None => true end &&
  (match f_ids f with Some l => hex_clause (w_id e) l | None => true end &&
  (match f_kinds f with Some l => mem_Z (w_kind e) l | None => true end &&
  (match f_authors f with Some l => hex_clause (w_pubkey e) l | None => true end &&
   forallb (fun nv => tag_clause (w_tags e) (fst nv) (snd nv)) (f_tags f))))).
Proof.
  unfold plan_items. rewrite !residual_app, !residual_opt, residual_tags. reflexivity.
Qed.

(* soundness: residual -> may_match *)
Theorem residual_may_match f e : wf_filter f -> hex64 (w_id e) = true -> hex64 (w_pubkey e) = true ->
  residual (plan_items f) e = true -> may_match f e = true.
Proof.
  intros [Hids [Hau _]] Hid Hpk H. rewrite residual_items in H.
  repeat (apply andb_true_iff in H; destruct H as [? H]).
  unfold may_match, core_match, after_closed, before_closed, in_opt_str, in_opt_Z, author_or_delegator.
  repeat (apply andb_true_iff; split).
  - destruct (f_ids f) as [l|]; [|reflexivity]. rewrite <- (hex_clause_mem _ l (hex64_length _ Hid) (Hids l eq_refl)). assumption.
  - destruct (f_authors f) as [l|]; [|reflexivity]. apply orb_true_iff. left.
    rewrite <- (hex_clause_mem _ l (hex64_length _ Hpk) (Hau l eq_refl)). assumption.
  - destruct (f_kinds f); assumption.
  - apply forallb_forall. intros nv Hin. rewrite forallb_forall in H. apply tag_clause_has_tag, H, Hin.
  - destruct (f_since f); assumption.
  - destruct (f_until f); assumption.
Qed.

(* completeness of the residual: must_match, and not only through the delegator (F07) *)
Theorem must_match_residual f e : wf_filter f -> hex64 (w_id e) = true -> hex64 (w_pubkey e) = true -> tags_ok e ->
  must_match f e = true -> delegator_only_match f e = false -> residual (plan_items f) e = true.
Proof.
  intros [Hids [Hau _]] Hid Hpk Htags H Hdel. rewrite residual_items.
  unfold must_match, core_match, after_open, before_open, in_opt_str, in_opt_Z, author_or_delegator in H.
  repeat (apply andb_true_iff in H; destruct H as [H ?]).
  unfold delegator_only_match in Hdel.
  repeat (apply andb_true_iff; split).
  - destruct (f_since f); [lia|reflexivity].
  - destruct (f_until f); [lia|reflexivity].
  - destruct (f_ids f) as [l|]; [|reflexivity]. rewrite (hex_clause_mem _ l (hex64_length _ Hid) (Hids l eq_refl)). assumption.
  - destruct (f_kinds f); assumption.
  - destruct (f_authors f) as [l|]; [|reflexivity]. rewrite (hex_clause_mem _ l (hex64_length _ Hpk) (Hau l eq_refl)).
    destruct (mem_str (w_pubkey e) l); [reflexivity|]. simpl in *. congruence.
  - apply forallb_forall. intros nv Hin.
    match goal with Hf : forallb _ (f_tags f) = true |- _ => rewrite forallb_forall in Hf; apply has_tag_tag_clause; [assumption|apply Hf, Hin] end.
Qed.
