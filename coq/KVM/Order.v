(* Lexicographic order on byte strings (Lib.Base.lex_cmp): a strict total order, its
   interaction with ++ / prefixes, big-endian 4-byte integers, and strictly sorted key lists. *)
From NR Require Import Lib.Base Lib.BaseFacts.
From Coq Require Import ZifyBool Sorting.Sorted.
Open Scope list_scope.

Definition lt (a b : bytes) : Prop := lex_cmp a b = Lt.
Definition StrictSorted (l : list bytes) : Prop := StronglySorted lt l.
(* every element is a byte *)
Definition wf_bytes (b : bytes) : Prop := Forall (fun x => (x < 256)%N) b.
Definition wf_keys (ks : list bytes) : Prop := Forall wf_bytes ks.

Lemma lex_cmp_refl a : lex_cmp a a = Eq.
Proof. induction a as [|x a IH]; simpl; [reflexivity|]. rewrite N.compare_refl. exact IH. Qed.

Lemma lex_cmp_eq a b : lex_cmp a b = Eq <-> a = b.
Proof.
  split; [|intros ->; apply lex_cmp_refl].
  revert b; induction a as [|x a IH]; intros [|y b]; simpl; try congruence.
  destruct (N.compare x y) eqn:E; try congruence.
  apply N.compare_eq in E. intros H. f_equal; auto.
Qed.

Lemma lex_cmp_antisym a b : lex_cmp b a = CompOpp (lex_cmp a b).
Proof.
  revert b; induction a as [|x a IH]; intros [|y b]; simpl; try reflexivity.
  rewrite (N.compare_antisym x y). destruct (N.compare x y); simpl; auto.
Qed.

Lemma lex_lt_gt a b : lex_cmp a b = Lt <-> lex_cmp b a = Gt.
Proof. rewrite (lex_cmp_antisym a b). destruct (lex_cmp a b); simpl; split; congruence. Qed.

Lemma lex_lt_trans a b c : lex_cmp a b = Lt -> lex_cmp b c = Lt -> lex_cmp a c = Lt.
Proof.
  revert b c; induction a as [|x a IH]; intros [|y b] [|z c]; simpl; try congruence.
  destruct (N.compare x y) eqn:E1; try congruence; destruct (N.compare y z) eqn:E2; try congruence; intros H1 H2.
  - apply N.compare_eq in E1, E2. subst. rewrite N.compare_refl. eapply IH; eauto.
  - apply N.compare_eq in E1. subst. rewrite E2. reflexivity.
  - apply N.compare_eq in E2. subst. rewrite E1. reflexivity.
  - assert (N.compare x z = Lt) as ->; [|reflexivity].
    apply N.compare_lt_iff. apply N.compare_lt_iff in E1. apply N.compare_lt_iff in E2.
    eapply N.lt_trans; eauto.
Qed.

Lemma lex_le_lt_trans a b c : lex_cmp a b <> Gt -> lex_cmp b c = Lt -> lex_cmp a c = Lt.
Proof.
  intros H1 H2. destruct (lex_cmp a b) eqn:E; try congruence.
  - apply lex_cmp_eq in E. subst. exact H2.
  - eapply lex_lt_trans; eauto.
Qed.
Lemma lex_lt_le_trans a b c : lex_cmp a b = Lt -> lex_cmp b c <> Gt -> lex_cmp a c = Lt.
Proof.
  intros H1 H2. destruct (lex_cmp b c) eqn:E; try congruence.
  - apply lex_cmp_eq in E. subst. exact H1.
  - eapply lex_lt_trans; eauto.
Qed.
Lemma lex_le_trans a b c : lex_cmp a b <> Gt -> lex_cmp b c <> Gt -> lex_cmp a c <> Gt.
Proof.
  intros H1 H2. destruct (lex_cmp a b) eqn:E; try congruence.
  - apply lex_cmp_eq in E. subst. exact H2.
  - rewrite (lex_lt_le_trans a b c E H2). congruence.
Qed.
Lemma lex_lt_irrefl a : lex_cmp a a <> Lt.
Proof. rewrite lex_cmp_refl. congruence. Qed.
Lemma lex_lt_asym a b : lex_cmp a b = Lt -> lex_cmp b a <> Lt.
Proof. intros H. apply lex_lt_gt in H. congruence. Qed.

Lemma lex_ltb_lt a b : lex_ltb a b = true <-> lex_cmp a b = Lt.
Proof. unfold lex_ltb. destruct (lex_cmp a b); split; congruence. Qed.
Lemma lex_ltb_ge a b : lex_ltb a b = false <-> lex_cmp b a <> Gt.
Proof.
  unfold lex_ltb. rewrite (lex_cmp_antisym a b). destruct (lex_cmp a b); simpl; split; congruence.
Qed.
Lemma lex_leb_le a b : lex_leb a b = true <-> lex_cmp a b <> Gt.
Proof. unfold lex_leb. destruct (lex_cmp a b); split; congruence. Qed.
Lemma lex_leb_gt a b : lex_leb a b = false <-> lex_cmp b a = Lt.
Proof.
  unfold lex_leb. rewrite (lex_cmp_antisym a b). destruct (lex_cmp a b); simpl; split; congruence.
Qed.
Lemma lex_leb_ltb a b : lex_leb a b = negb (lex_ltb b a).
Proof. unfold lex_leb, lex_ltb. rewrite (lex_cmp_antisym a b). destruct (lex_cmp a b); reflexivity. Qed.

(* ---- ++ and prefixes ---- *)
Lemma lex_cmp_app_same p a b : lex_cmp (p ++ a) (p ++ b) = lex_cmp a b.
Proof. induction p as [|x p IH]; simpl; [reflexivity|]. rewrite N.compare_refl. exact IH. Qed.

Lemma lex_cmp_app_eqlen a b x y : length a = length b ->
  lex_cmp (a ++ x) (b ++ y) = match lex_cmp a b with Eq => lex_cmp x y | c => c end.
Proof.
  revert b; induction a as [|u a IH]; intros [|v b]; simpl; try discriminate; [reflexivity|].
  intros H. injection H as H. destruct (N.compare u v); auto.
Qed.

Lemma lex_le_app a r : lex_cmp a (a ++ r) <> Gt.
Proof.
  induction a as [|x a IH]; simpl.
  - destruct r; congruence.
  - rewrite N.compare_refl. exact IH.
Qed.

Lemma bytes_eqb_eq a b : list_eqb N.eqb a b = true <-> a = b.
Proof. apply list_eqb_spec. intros; apply N.eqb_eq. Qed.

(* key[:len(m)] == m *)
Definition has_prefix (key m : bytes) : bool := list_eqb N.eqb (firstn (length m) key) m.
Lemma has_prefix_spec key m : has_prefix key m = true <-> exists r, key = m ++ r.
Proof.
  unfold has_prefix. rewrite bytes_eqb_eq. split.
  - intros H. exists (skipn (length m) key). rewrite <- H at 1. symmetry. apply firstn_skipn.
  - intros [r ->]. rewrite firstn_app, Nat.sub_diag, firstn_all. simpl. apply app_nil_r.
Qed.
Lemma has_prefix_app m r : has_prefix (m ++ r) m = true.
Proof. apply has_prefix_spec. eauto. Qed.
Lemma has_prefix_cons x key c m : has_prefix (x :: key) (c :: m) = N.eqb x c && has_prefix key m.
Proof. reflexivity. Qed.
Lemma has_prefix_nil_l c m : has_prefix [] (c :: m) = false.
Proof. reflexivity. Qed.

(* a key below a string that starts with m, and not itself starting with m, is below m *)
Lemma not_prefixed_lt key m suf :
  lex_cmp key (m ++ suf) = Lt -> has_prefix key m = false -> lex_cmp key m = Lt.
Proof.
  revert key; induction m as [|c m IH]; intros key; simpl.
  - unfold has_prefix; simpl. discriminate.
  - destruct key as [|x key]; [reflexivity|]. rewrite has_prefix_cons. simpl.
    destruct (N.compare x c) eqn:E; try congruence.
    apply N.compare_eq in E. subst. rewrite N.eqb_refl. simpl. apply IH.
Qed.
(* whatever starts with m is not below m *)
Lemma prefixed_ge key m : has_prefix key m = true -> lex_cmp m key <> Gt.
Proof. intros H. apply has_prefix_spec in H. destruct H as [r ->]. apply lex_le_app. Qed.
Lemma below_not_prefixed key m : lex_cmp key m = Lt -> has_prefix key m = false.
Proof.
  intros H. destruct (has_prefix key m) eqn:E; [|reflexivity].
  apply prefixed_ge in E. apply lex_lt_gt in H. congruence.
Qed.

(* ---- strictly sorted lists ---- *)
Lemma sorted_inv a l : StrictSorted (a :: l) -> StrictSorted l /\ Forall (lt a) l.
Proof. intros H. inversion H; subst. split; assumption. Qed.
Lemma sorted_NoDup l : StrictSorted l -> NoDup l.
Proof.
  induction l as [|a l IH]; intros H; [constructor|].
  apply sorted_inv in H. destruct H as [Hs Hf]. constructor; [|auto].
  intros Hin. rewrite Forall_forall in Hf. specialize (Hf a Hin). unfold lt in Hf.
  rewrite lex_cmp_refl in Hf. discriminate.
Qed.

(* the keys strictly below k *)
Definition below (k : bytes) (ks : list bytes) : list bytes := filter (fun x => lex_ltb x k) ks.

Lemma below_all_ge k ks : Forall (fun x => lex_cmp k x <> Gt) ks -> below k ks = [].
Proof.
  induction ks as [|x ks IH]; intros H; [reflexivity|]. inversion H; subst. simpl.
  assert (lex_ltb x k = false) as -> by (apply lex_ltb_ge; assumption). auto.
Qed.

Lemma sorted_above_not_below k x ks : StrictSorted (x :: ks) -> lex_ltb x k = false -> below k ks = [].
Proof.
  intros H E. apply sorted_inv in H. destruct H as [_ Hf]. apply below_all_ge.
  rewrite Forall_forall in *. intros y Hy. specialize (Hf y Hy). unfold lt in Hf.
  apply lex_ltb_ge in E. intros G. apply lex_lt_gt in G.
  apply E. apply lex_lt_gt. eapply lex_lt_trans; eauto.
Qed.

Lemma below_firstn k ks : StrictSorted ks -> below k ks = firstn (length (below k ks)) ks.
Proof.
  induction ks as [|x ks IH]; intros H; [reflexivity|]. simpl.
  destruct (lex_ltb x k) eqn:E; simpl.
  - f_equal. apply IH. apply sorted_inv in H. tauto.
  - rewrite (sorted_above_not_below k x ks H E). reflexivity.
Qed.

Lemma below_In k ks x : In x (below k ks) <-> In x ks /\ lex_cmp x k = Lt.
Proof. unfold below. rewrite filter_In, lex_ltb_lt. tauto. Qed.

Lemma below_length k ks : (length (below k ks) <= length ks)%nat.
Proof. unfold below. induction ks as [|x ks IH]; simpl; [lia|]. destruct (lex_ltb x k); simpl; lia. Qed.

Lemma sorted_below k ks : StrictSorted ks -> StrictSorted (below k ks).
Proof.
  induction ks as [|x ks IH]; intros H; [constructor|]. simpl.
  apply sorted_inv in H. destruct H as [Hs Hf].
  destruct (lex_ltb x k); [|apply IH, Hs]. constructor; [apply IH, Hs|].
  apply Forall_forall. intros y Hy. apply below_In in Hy.
  rewrite Forall_forall in Hf. apply Hf; tauto.
Qed.

(* rewriting modulo the aliases bytes = list byte = list N (implicit arguments differ syntactically) *)
Ltac nrw t := let H := fresh "Hrw" in pose proof t as H; unfold bytes, byte in H |- *; rewrite H; clear H.
Ltac nrw_in t H0 := let H := fresh "Hrw" in pose proof t as H; unfold bytes, byte in H, H0; rewrite H in H0; clear H.
