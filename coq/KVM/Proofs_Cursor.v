(* Cursor facts on a strictly sorted key list: set_range lands on the first key >= k,
   the keys a reverse walk visits from a cursor are rev (firstn (S i) ks). *)
From NR Require Import Lib.Base Lib.BaseFacts KVM.Engine KVM.Keys KVM.Order.
Open Scope list_scope.

(* the keys a reverse walk from c sees: current key first, then downwards *)
Definition desc (ks : list bytes) (c : cursor) : list bytes :=
  match c with Some i => rev (firstn (S i) ks) | None => [] end.
Definition cur_ok (ks : list bytes) (c : cursor) : Prop :=
  match c with Some i => (i < length ks)%nat | None => True end.

Lemma firstn_S_nth {A} (d : A) (l : list A) i : (i < length l)%nat ->
  firstn (S i) l = firstn i l ++ [nth i l d].
Proof.
  revert i; induction l as [|x l IH]; intros i H; simpl in H; [lia|].
  destruct i; [reflexivity|]. simpl. f_equal. apply IH. lia.
Qed.

Lemma desc_step ks i : (i < length ks)%nat ->
  desc ks (Some i) = cur_key ks (Some i) :: desc ks (snd (cur_prev ks (Some i))) /\
  fst (cur_prev ks (Some i)) = negb (match desc ks (snd (cur_prev ks (Some i))) with [] => true | _ => false end) /\
  cur_ok ks (snd (cur_prev ks (Some i))).
Proof.
  intros H. assert (E0 : desc ks (Some i) = rev (firstn i ks ++ [nth i ks []])).
  { unfold desc. f_equal. apply firstn_S_nth. exact H. }
  rewrite E0. clear E0. rewrite rev_app_distr. simpl.
  destruct i as [|j]; simpl.
  - repeat split.
  - split; [reflexivity|]. split; [|lia].
    destruct ks as [|x ks]; [simpl in H; lia|]. simpl.
    destruct (rev (firstn j ks) ++ [x]) eqn:E; [|reflexivity].
    apply app_eq_nil in E. destruct E; discriminate.
Qed.

Lemma desc_length ks c : cur_ok ks c -> (length (desc ks c) <= length ks)%nat.
Proof.
  destruct c as [i|]; unfold desc, cur_ok; [|simpl; lia]. intros H. rewrite rev_length, firstn_length. lia.
Qed.

Lemma find_ge_below k ks n : StrictSorted ks ->
  (exists y, In y ks /\ lex_cmp k y <> Gt) -> find_ge k ks n = Some (n + length (below k ks))%nat.
Proof.
  revert n; induction ks as [|x ks IH]; intros n Hs [y [Hy Hle]]; [destruct Hy|].
  simpl. rewrite lex_leb_ltb. destruct (lex_ltb x k) eqn:E; simpl.
  - rewrite IH.
    + f_equal. lia.
    + apply sorted_inv in Hs. tauto.
    + destruct Hy as [->|Hy]; [|eauto]. apply lex_ltb_lt in E. apply lex_lt_gt in E. congruence.
  - rewrite (sorted_above_not_below k x ks Hs E). simpl. f_equal. lia.
Qed.

Lemma below_length_lt k ks : (exists y, In y ks /\ lex_cmp k y <> Gt) -> (length (below k ks) < length ks)%nat.
Proof.
  intros [y [Hy Hle]]. induction ks as [|x ks IH]; [destruct Hy|]. pose proof (below_length k ks) as Hb.
  unfold below in *. simpl.
  destruct (lex_ltb x k) eqn:E; simpl.
  - destruct Hy as [->|Hy].
    + apply lex_ltb_lt in E. apply lex_lt_gt in E. congruence.
    + specialize (IH Hy). lia.
  - apply Nat.lt_succ_r. exact Hb.
Qed.

(* seek: set_range(k) followed by prev() leaves the walk looking at the keys below k, largest first *)
Lemma seek_below k ks : StrictSorted ks -> (exists y, In y ks /\ lex_cmp k y <> Gt) ->
  exists c, set_range ks k = (true, c) /\
            desc ks (snd (cur_prev ks c)) = rev (below k ks) /\ cur_ok ks (snd (cur_prev ks c)).
Proof.
  intros Hs Hex. unfold set_range. rewrite (find_ge_below k ks 0 Hs Hex). simpl.
  eexists; split; [reflexivity|].
  pose proof (below_length_lt k ks Hex) as Hlt.
  pose proof (below_firstn k ks Hs) as Hf.
  destruct (length (below k ks)) as [|j] eqn:El.
  - simpl. apply length_zero_iff_nil in El. rewrite El. split; [reflexivity|exact I].
  - simpl. rewrite Hf. split; [reflexivity|]. unfold bytes, byte in *. lia.
Qed.
