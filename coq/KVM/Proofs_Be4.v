(* int.to_bytes(4, "big") is strictly monotone: byte order of the time / kind field = numeric order. *)
From NR Require Import Lib.Base Lib.BaseFacts KVM.Order.
From Coq Require Import ZifyBool.
Open Scope list_scope.

Ltac Zify.zify_post_hook ::= Z.to_euclidean_division_equations.

Definition val4 (x : bytes) : N :=
  match x with [a; b; c; d] => (((a * 256 + b) * 256 + c) * 256 + d)%N | _ => 0%N end.

Lemma lex_cmp_val4 a3 a2 a1 a0 b3 b2 b1 b0 :
  (a3 < 256 -> a2 < 256 -> a1 < 256 -> a0 < 256 -> b3 < 256 -> b2 < 256 -> b1 < 256 -> b0 < 256 ->
   lex_cmp [a3; a2; a1; a0] [b3; b2; b1; b0] = (val4 [a3; a2; a1; a0] ?= val4 [b3; b2; b1; b0]))%N.
Proof.
  intros. unfold val4. simpl lex_cmp.
  destruct (N.compare_spec a3 b3); [subst|symmetry; apply N.compare_lt_iff; lia|symmetry; apply N.compare_gt_iff; lia].
  destruct (N.compare_spec a2 b2); [subst|symmetry; apply N.compare_lt_iff; lia|symmetry; apply N.compare_gt_iff; lia].
  destruct (N.compare_spec a1 b1); [subst|symmetry; apply N.compare_lt_iff; lia|symmetry; apply N.compare_gt_iff; lia].
  destruct (N.compare_spec a0 b0); [subst|symmetry; apply N.compare_lt_iff; lia|symmetry; apply N.compare_gt_iff; lia].
  symmetry. apply N.compare_eq_iff. reflexivity.
Qed.

Lemma be4_val z x : be4 z = Some x ->
  exists a b c d, x = [a; b; c; d] /\ (a < 256 /\ b < 256 /\ c < 256 /\ d < 256)%N /\ val4 x = Z.to_N z /\ (0 <= z < 4294967296)%Z.
Proof.
  unfold be4. destruct ((0 <=? z)%Z && (z <? 4294967296)%Z) eqn:E; [|discriminate].
  intros H. injection H as <-. do 4 eexists. split; [reflexivity|].
  assert (Hr : (0 <= z < 4294967296)%Z) by lia.
  set (n := Z.to_N z). assert (Hn : (n < 4294967296)%N) by lia.
  split; [repeat split; apply N.mod_lt; discriminate|]. split; [|exact Hr].
  unfold val4. clearbody n. clear E Hr. lia.
Qed.

Theorem be4_cmp a b x y : be4 a = Some x -> be4 b = Some y -> lex_cmp x y = (a ?= b)%Z.
Proof.
  intros Ha Hb.
  destruct (be4_val a x Ha) as [a3 [a2 [a1 [a0 [-> [[? [? [? ?]]] [Va Ra]]]]]]].
  destruct (be4_val b y Hb) as [b3 [b2 [b1 [b0 [-> [[? [? [? ?]]] [Vb Rb]]]]]]].
  rewrite lex_cmp_val4 by assumption. unfold bytes, byte in *. rewrite Va, Vb.
  rewrite <- (Z2N.id a) at 2 by lia. rewrite <- (Z2N.id b) at 2 by lia. rewrite N2Z.inj_compare. reflexivity.
Qed.

Lemma be4_leb a b x y : be4 a = Some x -> be4 b = Some y -> lex_leb x y = (a <=? b)%Z.
Proof. intros Ha Hb. unfold lex_leb, Z.leb. rewrite (be4_cmp a b x y Ha Hb). reflexivity. Qed.
Lemma be4_ltb a b x y : be4 a = Some x -> be4 b = Some y -> lex_ltb x y = (a <? b)%Z.
Proof. intros Ha Hb. unfold lex_ltb, Z.ltb. rewrite (be4_cmp a b x y Ha Hb). reflexivity. Qed.
Lemma be4_inj a b x : be4 a = Some x -> be4 b = Some x -> a = b.
Proof. intros Ha Hb. pose proof (be4_cmp a b x x Ha Hb) as H. rewrite lex_cmp_refl in H. symmetry in H. apply Z.compare_eq in H. exact H. Qed.
Lemma be4_some z : (0 <= z < 4294967296)%Z -> exists x, be4 z = Some x.
Proof. intros H. unfold be4. assert ((0 <=? z)%Z && (z <? 4294967296)%Z = true) as -> by lia. eauto. Qed.
