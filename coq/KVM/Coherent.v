(* Store coherence of the LMDB backend: the keyspace consists of the tombstone, one primary
   record per stored event and exactly the index entries Index.write produces for the stored
   events.  The query-path theorems (C01/C02/C11/C12-kv) take it as a hypothesis; the write path
   (KVW) proves it as an invariant of every writer history.  Definitions only. *)
From NR Require Import Lib.Base Lib.Nip01 KVM.Engine KVM.Keys KVM.Order.
Open Scope list_scope. Open Scope Z_scope.

(* value of a key: b"" of an index entry / the decoded primary record (what decode_event returns) *)
Inductive rec := RIndex | REvent (e : wevent).
Definition kvdb := @db rec.

(* Event.id_bytes: strict bytes.fromhex *)
Definition id_bytes (e : wevent) : option bytes := py_fromhex (w_id e).
Definition primary_key_of (idb : bytes) : bytes := 0%N :: idb.
Definition primary_key (e : wevent) : option bytes := option_map primary_key_of (id_bytes e).

(* TagIndex.convert: len(tag) >= 2 and (len(tag[0]) == 1 or tag[0] in ("expiration", "delegation")) *)
Definition tag_indexable (t : list pystr) : bool :=
  match t with
  | n :: _ :: _ => Nat.eqb (length n) 1 || str_eqb n s_expiration || str_eqb n s_delegation
  | _ => false
  end.
(* the (index, match value) pairs under which Index.write files an event, in write order *)
Definition index_matches (e : wevent) : list (idx * mval) :=
  [(IxCreated, MInt (w_created e)); (IxKinds, MInt (w_kind e)); (IxAuthors, MStr (w_pubkey e));
   (IxAuthorKinds, MStrInt (w_pubkey e) (w_kind e))]
  ++ flat_map (fun t => if tag_indexable t then [(IxTags, MStrStr (nth 0 t []) (nth 1 t []))] else []) (w_tags e).

Fixpoint all_some {A} (l : list (option A)) : option (list A) :=
  match l with
  | [] => Some []
  | Some x :: r => option_map (cons x) (all_some r)
  | None :: _ => None
  end.
(* the keys of the five timed indexes written for e; None when a to_key / to_bytes raises *)
Definition index_entries (e : wevent) : option (list bytes) :=
  match id_bytes e, be4 (w_created e) with
  | Some idb, Some ct =>
      all_some (map (fun im => match to_key (fst im) (snd im) with
                               | KKey k => Some (entry_key k ct idb)
                               | _ => None end) (index_matches e))
  | _, _ => None
  end.

Definition hex64 (s : pystr) : bool := Nat.eqb (length s) 64 && is_lower_hex s.
Definition stored_wf (e : wevent) : Prop :=
  hex64 (w_id e) = true /\ hex64 (w_pubkey e) = true /\
  0 <= w_created e < 4294967296 /\ 0 <= w_kind e < 4294967296 /\ index_entries e <> None.

Definition Coherent (d : kvdb) : Prop :=
  StrictSorted (keys d) /\ In tombstone (keys d) /\
  (forall k v, In (k, v) d ->
     k = tombstone \/
     (exists e, v = REvent e /\ primary_key e = Some k /\ stored_wf e) \/
     (v = RIndex /\ exists e pk es, primary_key e = Some pk /\ In (pk, REvent e) d /\
                                   index_entries e = Some es /\ In k es)) /\
  (forall e pk es, primary_key e = Some pk -> In (pk, REvent e) d -> index_entries e = Some es ->
     forall k, In k es -> In k (keys d)).
