(* C12 on the LMDB backend: (a) a stored query never returns more than min(limit, max_limit) events per filter
   (the limit defaulting to max_limit) - the cap is applied by Subscription.prepare since the repair of F16;
   (b) a plan with one match value on one timed index, and the created_at range scan, return the newest:
   no stored event the residual accepts that was left out is newer than one that was sent.
   Open (F16): plans with several match values or several index stages are scanned value by value. *)
From NR Require Import Lib.Base Lib.BaseFacts Lib.Nip01 KVM.Engine KVM.Keys KVM.Scan KVM.ScanSpec KVM.Order
  KVM.Coherent KVM.Plan KVM.Match KVM.Exec KVM.Spec KVM.Proofs_Cursor KVM.Proofs_Scan KVM.Proofs_Blocks
  KVM.Proofs_ScanCorrect KVM.Proofs_ScanTop KVM.Proofs_Coherent KVM.Proofs_Be4 KVM.Proofs_Match KVM.Proofs_Exec
  KVM.Proofs_Hit KVM.Thm_C01 KVM.Thm_C02 KVM.Thm_C11.
From Coq Require Import ZifyBool Sorting.Sorted.
Open Scope list_scope. Open Scope Z_scope.

(* ------------------------------------------------------------------ (a) the cap *)
Lemma plan_limit_ws mx f : plan_limit None (Some mx) f = Some (eff_limit mx f).
Proof. unfold plan_limit, eff_limit. simpl. destruct (f_limit f); reflexivity. Qed.

Theorem C12_kv_cap mx d f p : plan_one None (Some mx) f = Some p -> 0 <= eff_limit mx f ->
  Z.of_nat (length (execute_one_plan d p)) <= eff_limit mx f.
Proof.
  intros Hp H0. rewrite (plan_one_mk _ _ _ _ Hp). unfold execute_one_plan. cbn [p_limit mk_plan].
  rewrite plan_limit_ws. destruct (scan_plan _ _); simpl; try lia. apply take_z_length. exact H0.
Qed.
(* whatever limit the caller passes (run_single_query: 600000) the plan never returns more than it *)
Theorem C12_kv_limit d p n : p_limit p = Some n -> 0 <= n -> Z.of_nat (length (execute_one_plan d p)) <= n.
Proof.
  intros E H0. unfold execute_one_plan. rewrite E. destruct (scan_plan _ _); simpl; try lia. apply take_z_length. exact H0.
Qed.

(* ------------------------------------------------------------------ (b) newest first *)
(* ids whose stored events have non-increasing created_at *)
Definition newer_eq (d : kvdb) (i j : bytes) : Prop :=
  forall ei ej, get (primary_key_of i) d = Some (REvent ei) -> get (primary_key_of j) d = Some (REvent ej) ->
                w_created ej <= w_created ei.
Definition by_time (a b : wevent) : Prop := w_created b <= w_created a.

Lemma matcher_sorted d q : forall ids seen, StronglySorted (newer_eq d) ids ->
  StronglySorted by_time (matcher d q ids seen).
Proof.
  induction ids as [|j r IH]; intros seen Hs; simpl; [constructor|].
  inversion Hs as [|? ? Hs' Hf]; subst.
  destruct (mem_bytes j seen); [apply IH; assumption|].
  destruct (get (primary_key_of j) d) as [[|e]|] eqn:Eg; [constructor| |apply IH; assumption].
  destruct (residual q e); [|apply IH; assumption].
  constructor; [apply IH; assumption|].
  apply Forall_forall. intros x Hx. destruct (matcher_sound _ _ _ _ _ Hx) as [i [Hi [Hg _]]].
  rewrite Forall_forall in Hf. exact (Hf i Hi e x Eg Hg).
Qed.

Lemma sorted_split {A} (R : A -> A -> Prop) pre suf y x :
  StronglySorted R (pre ++ suf) -> In y pre -> In x suf -> R y x.
Proof.
  induction pre as [|a pre IH]; intros Hs Hy Hx; [destruct Hy|].
  simpl in Hs. inversion Hs as [|? ? Hs' Hf]; subst. destruct Hy as [->|Hy].
  - rewrite Forall_forall in Hf. apply Hf. apply in_or_app. right. exact Hx.
  - apply IH; assumption.
Qed.

(* whatever scan order is by time, the cut keeps the newest *)
Theorem newest_kept d p ids x y :
  Coherent d -> scan_plan (keys d) p = SOk ids -> StronglySorted (newer_eq d) ids ->
  In y (execute_one_plan d p) ->
  (exists i, In i ids /\ get (primary_key_of i) d = Some (REvent x)) -> residual (p_query p) x = true ->
  ~ In x (execute_one_plan d p) -> w_created x <= w_created y.
Proof.
  intros Hc Hs Hsorted Hy [i [Hi Hg]] Hr Hnx. unfold execute_one_plan in *. rewrite Hs in *.
  set (out := matcher d (p_query p) ids []) in *.
  assert (Hxo : In x out).
  { eapply matcher_complete; eauto. intros j _. apply coherent_primary_not_index, Hc. }
  destruct (take_limit_prefix (p_limit p) out) as [suf Hsuf].
  assert (Hxs : In x suf).
  { rewrite Hsuf in Hxo. apply in_app_or in Hxo. destruct Hxo as [H|H]; [contradiction|exact H]. }
  pose proof (matcher_sorted d (p_query p) ids [] Hsorted) as Hso. fold out in Hso. rewrite Hsuf in Hso.
  exact (sorted_split by_time _ _ y x Hso Hy Hxs).
Qed.

(* ---- the scan order of one block / of the created_at range is by time ---- *)
Lemma sorted_flat_map {A B} (P : A -> A -> Prop) (Q : B -> B -> Prop) (g : A -> list B) l :
  StronglySorted P l -> (forall a, (length (g a) <= 1)%nat) ->
  (forall a b x y, P a b -> In x (g a) -> In y (g b) -> Q x y) -> StronglySorted Q (flat_map g l).
Proof.
  intros Hs H1 HQ. induction l as [|a r IH]; [constructor|]. inversion Hs as [|? ? Hs' Hf]; subst. simpl.
  specialize (IH Hs'). specialize (H1 a). destruct (g a) as [|x [|? ?]] eqn:Eg; [exact IH| |simpl in H1; lia].
  simpl. constructor; [exact IH|]. apply Forall_forall. intros y Hy. apply in_flat_map in Hy. destruct Hy as [b [Hb Hyb]].
  rewrite Forall_forall in Hf. apply (HQ a b x y (Hf b Hb)); [rewrite Eg; left; reflexivity|exact Hyb].
Qed.

Lemma app_eq_tail {A} (x x' y y' : list A) : x ++ y = x' ++ y' -> length y = length y' -> x = x' /\ y = y'.
Proof.
  revert x'. induction x as [|a x IH]; intros x' H Hl.
  - destruct x' as [|a' x']; [auto|]. simpl in H. apply (f_equal (@length A)) in H. simpl in H. rewrite app_length in H. lia.
  - destruct x' as [|a' x'].
    + simpl in H. apply (f_equal (@length A)) in H. simpl in H. rewrite app_length in H. lia.
    + simpl in H. injection H as -> H. destruct (IH x' H Hl) as [-> ->]. auto.
Qed.

(* the time field of an entry key of a coherent store is the created_at of the event stored under its id *)
Lemma entry_time d kk ct idb e : Coherent d -> In (kk ++ 0%N :: ct ++ 0%N :: idb) (keys d) ->
  length ct = 4%nat -> length idb = 32%nat -> (exists p r, kk = p :: r /\ p <> 0%N /\ p <> 238%N) ->
  get (primary_key_of idb) d = Some (REvent e) ->
  be4 (w_created e) = Some ct /\ exists i m, In (i, m) (index_matches e) /\ to_key i m = KKey kk.
Proof.
  intros Hc Hin Hlc Hli [p0 [r0 [Ekk [Hp0 Hp238]]]] Hg.
  destruct (coherent_key_kind d Hc _ Hin) as [E|e' idb' _ E _|e' idb' Hi' Hpin Hh [i [m [kk' [ct' [idb2 [Him [Hk [Hct [Hi2 E]]]]]]]]]].
  - subst kk. unfold tombstone in E. simpl in E. injection E as E _. congruence.
  - subst kk. unfold primary_key_of in E. simpl in E. injection E as E _. congruence.
  - rewrite Hi' in Hi2. injection Hi2 as <-.
    unfold entry_key in E. change (kk' ++ [0%N] ++ ct' ++ [0%N] ++ idb') with (kk' ++ 0%N :: ct' ++ 0%N :: idb') in E.
    assert (Hl' : length idb' = 32%nat) by (unfold id_bytes in Hi'; eapply hex64_bytes; eauto).
    pose proof (be4_length _ _ Hct) as Hlc'.
    (* compare the two decompositions from the right *)
    replace (kk ++ 0%N :: ct ++ 0%N :: idb) with ((kk ++ 0%N :: ct ++ [0%N]) ++ idb) in E
      by (rewrite <- !app_assoc; simpl; rewrite <- app_assoc; reflexivity).
    replace (kk' ++ 0%N :: ct' ++ 0%N :: idb') with ((kk' ++ 0%N :: ct' ++ [0%N]) ++ idb') in E
      by (rewrite <- !app_assoc; simpl; rewrite <- app_assoc; reflexivity).
    destruct (app_eq_tail _ _ _ _ E) as [E1 E2]; [unfold bytes, byte in *; lia|]. subst idb'.
    replace (kk ++ 0%N :: ct ++ [0%N]) with ((kk ++ [0%N]) ++ ct ++ [0%N]) in E1 by (rewrite <- app_assoc; reflexivity).
    replace (kk' ++ 0%N :: ct' ++ [0%N]) with ((kk' ++ [0%N]) ++ ct' ++ [0%N]) in E1 by (rewrite <- app_assoc; reflexivity).
    destruct (app_eq_tail _ _ _ _ E1) as [E0 E3]; [rewrite !app_length; simpl; unfold bytes, byte in *; lia|].
    apply app_inv_tail in E3. subst ct'. apply app_inv_tail in E0. subst kk'.
    assert (Hge : get (primary_key_of idb) d = Some (REvent e')) by (apply get_of_In; [apply Hc|exact Hpin]).
    rewrite Hg in Hge. injection Hge as ->. split; [exact Hct|]. exists i, m. auto.
Qed.

(* one block: spec_block lists its ids newest first *)
Lemma block_sorted d kk s u ev : Coherent d -> (exists p r, kk = p :: r /\ p <> 0%N /\ p <> 238%N) ->
  StronglySorted (newer_eq d) (spec_block (keys d) false s u ev kk).
Proof.
  intros Hc Hkk. unfold spec_block.
  apply (sorted_flat_map (fun a b => lex_cmp b a = Lt /\ In a (keys d) /\ In b (keys d))).
  - assert (Hs : StrictSorted (keys d)) by apply Hc.
    assert (Hd : Desc (rev (keys d))) by (apply Desc_rev, Hs).
    assert (Hall : Forall (fun k => In k (keys d)) (rev (keys d))) by (apply Forall_forall; intros k Hk; apply in_rev; exact Hk).
    revert Hd Hall. generalize (rev (keys d)). induction l as [|a r IH]; intros Hd Hall; [constructor|].
    inversion Hd as [|? ? Hd' Hf]; subst. inversion Hall as [|? ? Ha Hr]; subst. constructor; [apply IH; assumption|].
    rewrite Forall_forall in *. intros b Hb. repeat split; auto.
  - intros a. destruct (entry_of kk a) as [[ts eid]|]; [|simpl; lia]. destruct (_ && _); simpl; lia.
  - intros a b x y [Hlt [Ha Hb]] Hx Hy ei ej Hgi Hgj.
    destruct (entry_of kk a) as [[ta ia]|] eqn:Ea; [|destruct Hx].
    destruct (entry_of kk b) as [[tb ib]|] eqn:Eb; [|destruct Hy].
    destruct (in_window_b s u ta && ev ia); [|destruct Hx]. destruct (in_window_b s u tb && ev ib); [|destruct Hy].
    destruct Hx as [<-|[]]. destruct Hy as [<-|[]].
    destruct (entry_of_some _ _ _ _ Ea) as [Hpa Hla]. destruct (entry_of_some _ _ _ _ Eb) as [Hpb Hlb].
    assert (Hsa : key_shaped a) by (pose proof (coherent_shaped d Hc) as Hsh; unfold Shaped in Hsh; rewrite Forall_forall in Hsh; apply Hsh, Ha).
    assert (Hsb : key_shaped b) by (pose proof (coherent_shaped d Hc) as Hsh; unfold Shaped in Hsh; rewrite Forall_forall in Hsh; apply Hsh, Hb).
    destruct (shaped_entry kk a Hpa Hla Hsa) as [ta' [ia' [-> [Hta Hia]]]].
    destruct (shaped_entry kk b Hpb Hlb Hsb) as [tb' [ib' [-> [Htb Hib]]]].
    nrw_in (entry_of_entry kk ta' ia' Hta Hia) Ea. injection Ea as <- <-.
    nrw_in (entry_of_entry kk tb' ib' Htb Hib) Eb. injection Eb as <- <-.
    destruct (entry_time d kk ta' ia' ei Hc Ha Hta Hia Hkk Hgi) as [Hti _].
    destruct (entry_time d kk tb' ib' ej Hc Hb Htb Hib Hkk Hgj) as [Htj _].
    rewrite lex_cmp_app_same in Hlt. simpl in Hlt. rewrite ?N.compare_refl in Hlt.
    pose proof (lex_cmp_app_eqlen tb' ta' (0%N :: ib') (0%N :: ia')) as El. unfold bytes, byte in *. rewrite El in Hlt by congruence.
    assert (Hle : lex_leb tb' ta' = true) by (unfold lex_leb; destruct (lex_cmp tb' ta'); congruence).
    rewrite (be4_leb _ _ _ _ Htj Hti) in Hle. lia.
Qed.

(* the created_at range scan lists its ids newest first *)
Lemma range_sorted d s u : Coherent d -> StronglySorted (newer_eq d) (spec_range (keys d) 1%N s u).
Proof.
  intros Hc. unfold spec_range.
  apply (sorted_flat_map (fun a b => lex_cmp b a = Lt /\ In a (keys d) /\ In b (keys d))).
  - assert (Hs : StrictSorted (keys d)) by apply Hc.
    assert (Hd : Desc (rev (keys d))) by (apply Desc_rev, Hs).
    assert (Hall : Forall (fun k => In k (keys d)) (rev (keys d))) by (apply Forall_forall; intros k Hk; apply in_rev; exact Hk).
    revert Hd Hall. generalize (rev (keys d)). induction l as [|a r IH]; intros Hd Hall; [constructor|].
    inversion Hd as [|? ? Hd' Hf]; subst. inversion Hall as [|? ? Ha Hr]; subst. constructor; [apply IH; assumption|].
    rewrite Forall_forall in *. intros b Hb. repeat split; auto.
  - intros a. destruct (_ && _); simpl; lia.
  - assert (Hdec : forall k x, In k (keys d) ->
      In x (if Nat.eqb (length k) 43 && N.eqb (nth 0 k 255%N) 1 && N.eqb (nth 5 k 1%N) 0 && N.eqb (nth 10 k 1%N) 0
               && in_window_b s u (firstn 4 (skipn 1 k)) then [skipn 11 k] else []) ->
      exists t1 t2 t3 t4 u1 u2 u3 u4, k = [1%N; t1; t2; t3; t4] ++ 0%N :: [u1; u2; u3; u4] ++ 0%N :: x /\ length x = 32%nat).
    { intros k x Hk Hx.
      destruct (Nat.eqb (length k) 43) eqn:E1; [|destruct Hx]. destruct (N.eqb (nth 0 k 255%N) 1) eqn:E2; [|destruct Hx].
      destruct (N.eqb (nth 5 k 1%N) 0) eqn:E3; [|destruct Hx]. destruct (N.eqb (nth 10 k 1%N) 0) eqn:E4; [|destruct Hx].
      simpl in Hx. destruct (in_window_b _ _ _); [|destruct Hx]. destruct Hx as [<-|[]].
      apply Nat.eqb_eq in E1. apply N.eqb_eq in E2. apply N.eqb_eq in E3. apply N.eqb_eq in E4.
      destruct k as [|k0 [|t1 [|t2 [|t3 [|t4 [|k5 [|u1 [|u2 [|u3 [|u4 [|k10 r]]]]]]]]]]]; simpl in E1; try lia.
      simpl in E2, E3, E4. subst. exists t1, t2, t3, t4, u1, u2, u3, u4. split; [reflexivity|]. simpl. lia. }
    intros a b x y [Hlt [Ha Hb]] Hx Hy ei ej Hgi Hgj.
    destruct (Hdec a x Ha Hx) as [a1 [a2 [a3 [a4 [c1 [c2 [c3 [c4 [-> Hlx]]]]]]]]].
    destruct (Hdec b y Hb Hy) as [b1 [b2 [b3 [b4 [e1 [e2 [e3 [e4 [-> Hly]]]]]]]]].
    assert (Hkk : forall t1 t2 t3 t4 : N, exists p r, [1%N; t1; t2; t3; t4] = p :: r /\ p <> 0%N /\ p <> 238%N)
      by (intros; do 2 eexists; split; [reflexivity|split; discriminate]).
    destruct (entry_time d _ _ _ ei Hc Ha eq_refl Hlx (Hkk a1 a2 a3 a4) Hgi) as [_ [i1 [m1 [Him1 Hk1]]]].
    destruct (entry_time d _ _ _ ej Hc Hb eq_refl Hly (Hkk b1 b2 b3 b4) Hgj) as [_ [i2 [m2 [Him2 Hk2]]]].
    assert (Hcr : forall e i m t, In (i, m) (index_matches e) -> to_key i m = KKey (1%N :: t) -> be4 (w_created e) = Some t).
    { intros e i m t Him Hk. destruct (to_key_prefix i m _ Hk) as [r Hr]. injection Hr as Hp _.
      assert (i = IxCreated) by (destruct i; simpl in Hp; try discriminate; reflexivity). subst i.
      apply in_index_matches_created in Him. subst m. simpl in Hk. destruct (be4 (w_created e)); [|discriminate].
      injection Hk as <-. reflexivity. }
    pose proof (Hcr ei i1 m1 _ Him1 Hk1) as Hti. pose proof (Hcr ej i2 m2 _ Him2 Hk2) as Htj.
    change ([1%N; b1; b2; b3; b4] ++ 0%N :: [e1; e2; e3; e4] ++ 0%N :: y) with ([1%N] ++ [b1; b2; b3; b4] ++ (0%N :: [e1; e2; e3; e4] ++ 0%N :: y)) in Hlt.
    change ([1%N; a1; a2; a3; a4] ++ 0%N :: [c1; c2; c3; c4] ++ 0%N :: x) with ([1%N] ++ [a1; a2; a3; a4] ++ (0%N :: [c1; c2; c3; c4] ++ 0%N :: x)) in Hlt.
    rewrite lex_cmp_app_same in Hlt. rewrite (lex_cmp_app_eqlen [b1; b2; b3; b4] [a1; a2; a3; a4]) in Hlt by reflexivity.
    assert (Hle : lex_leb [b1; b2; b3; b4] [a1; a2; a3; a4] = true) by (unfold lex_leb; destruct (lex_cmp [b1; b2; b3; b4] [a1; a2; a3; a4]); congruence).
    rewrite (be4_leb _ _ _ _ Htj Hti) in Hle. lia.
Qed.

(* ---- the scan list of the plans with a single block is by time ---- *)
Definition single_block_plan (p : plan) : Prop :=
  p_index p = PSingle IxCreated [] \/
  exists i m kk, p_index p = PSingle i [m] /\ i <> IxIds /\ to_key i m = KKey kk.

Lemma single_block_sorted d p ids : Coherent d -> single_block_plan p ->
  scan_plan (keys d) p = SOk ids -> StronglySorted (newer_eq d) ids.
Proof.
  intros Hc [Hp|[i [m [kk [Hp [Hi Hk]]]]]] Hs; unfold scan_plan in Hs; rewrite Hp in Hs.
  - rewrite (coherent_scanner_correct d IxCreated [] _ _ _ Hc) in Hs.
    + unfold scan_spec in Hs. cbn [map compile] in Hs.
      destruct (conv_time (p_since p)) as [s|]; [|discriminate]. destruct (conv_time (p_until p)) as [u|]; [|discriminate].
      injection Hs as <-. apply range_sorted, Hc.
    + intros cms E. injection E as <-. split; [right; reflexivity|discriminate].
  - rewrite (coherent_scanner_correct d i [m] _ _ _ Hc) in Hs.
    + unfold scan_spec in Hs. cbn [map compile] in Hs. rewrite Hk in Hs. cbn [compile option_map] in Hs.
      destruct (conv_time (p_since p)) as [s|]; [|discriminate]. destruct (conv_time (p_until p)) as [u|]; [|discriminate].
      assert (E : match i with IxIds => true | _ => false end = false) by (destruct i; congruence).
      replace (match [kk], i with [], IxCreated => SOk (spec_range (keys d) (idx_prefix i) s u) | _, _ =>
                 SOk (flat_map (spec_block (keys d) match i with IxIds => true | _ => false end s u (fun _ => true)) [kk]) end)
        with (SOk (flat_map (spec_block (keys d) false s u (fun _ => true)) [kk])) in Hs by (rewrite E; destruct i; reflexivity).
      injection Hs as <-. simpl. rewrite app_nil_r. apply block_sorted; [exact Hc|].
      destruct (to_key_prefix i m kk Hk) as [r ->]. do 2 eexists. split; [reflexivity|]. destruct i; split; try discriminate; congruence.
    + intros cms E. cbn [map compile] in E. rewrite Hk in E. cbn [compile option_map] in E. injection E as <-.
      split; [left; discriminate|intros; congruence].
Qed.

(* C12-kv (b): the created_at range scan and every plan with one match value on one timed index keep the newest *)
Theorem C12_kv_newest dl mx d f p x y :
  Coherent d -> wf_filter f -> ids_desc f -> plan_one dl mx f = Some p -> single_block_plan p ->
  stored d x -> residual (plan_items f) x = true ->
  In y (execute_one_plan d p) -> ~ In x (execute_one_plan d p) -> w_created x <= w_created y.
Proof.
  intros Hc Hwf Hdesc Hp Hsb Hst Hr Hy Hnx.
  destruct (stored_get d x Hc Hst) as [idb [Hid Hg]].
  destruct (plan_hit dl mx d f p x idb Hc Hwf Hdesc Hp Hst Hid Hr) as [ids [Hs Hin]].
  apply (newest_kept d p ids x y Hc Hs (single_block_sorted d p ids Hc Hsb Hs) Hy); auto.
  - exists idb. auto.
  - rewrite (plan_one_query _ _ _ _ Hp). exact Hr.
Qed.

(* with must_match in place of the residual (what the property text quantifies over) *)
Theorem C12_kv_newest_partial dl mx d f p x y :
  Coherent d -> (forall e, stored d e -> tags_ok e) -> wf_filter f -> ids_desc f -> plan_one dl mx f = Some p ->
  single_block_plan p ->
  stored d x -> must_match f x = true -> delegator_only_match f x = false ->
  In y (execute_one_plan d p) -> ~ In x (execute_one_plan d p) -> w_created x <= w_created y.
Proof.
  intros Hc Htags Hwf Hdesc Hp Hsb Hst Hm Hdel Hy Hnx.
  destruct (stored_get d x Hc Hst) as [i [Hi Hg]]. destruct (coherent_primary d i x Hc Hg) as [_ [_ [Hh [Hpk _]]]].
  eapply C12_kv_newest; eauto. apply must_match_residual; auto.
Qed.

(* ------------------------------------------------------------------ (c) several filters in one REQ *)
(* Each filter of a REQ is planned and served on its own (under its own limit): what the subscriber receives before EOSE
   is the concatenation, in order, of what it would receive for each of the first `maximum_plans` filters sent alone. *)
Lemma concat_map_flat_map {A B C} (g : B -> list C) (h : A -> list B) (l : list A) :
  concat (map g (flat_map h l)) = flat_map (fun a => concat (map g (h a))) l.
Proof.
  induction l as [|a l IH]; simpl; [reflexivity|].
  rewrite map_app, concat_app, IH. reflexivity.
Qed.

Theorem C12_kv_req_is_concat dl mx d fs :
  answer_kv dl mx d fs = flat_map (fun f => answer_kv dl mx d [f]) (firstn maximum_plans fs).
Proof.
  unfold answer_kv, executor, planner. rewrite concat_map_flat_map.
  apply flat_map_ext. intros f. change (firstn maximum_plans [f]) with [f]. simpl. rewrite app_nil_r. reflexivity.
Qed.

(* in particular: no filter's answer is affected by the other filters of the REQ, and the length bound adds up *)
Corollary C12_kv_req_filter_independent dl mx d fs f e :
  In f (firstn maximum_plans fs) -> In e (answer_kv dl mx d [f]) -> In e (answer_kv dl mx d fs).
Proof.
  intros Hf He. rewrite C12_kv_req_is_concat. apply in_flat_map. exists f. split; assumption.
Qed.
