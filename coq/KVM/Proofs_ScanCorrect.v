(* scanner_correct: on every strictly sorted, shaped keyspace that contains the tombstone,
   Index.scanner (KVM.Scan.index_scanner) returns exactly ScanSpec.scan_spec - the entries of
   the requested blocks inside the closed window, per match in order, newest first; in
   particular it never runs out of fuel. *)
From NR Require Import Lib.Base Lib.BaseFacts KVM.Engine KVM.Keys KVM.Scan KVM.ScanSpec KVM.Order
  KVM.Proofs_Cursor KVM.Proofs_Scan KVM.Proofs_Blocks.
From Coq Require Import Sorting.Sorted.
Open Scope list_scope.

Lemma filter_rev {A} (f : A -> bool) l : filter f (rev l) = rev (filter f l).
Proof.
  induction l as [|a l IH]; simpl; [reflexivity|].
  rewrite filter_app, IH. simpl. destruct (f a); simpl; [reflexivity | apply app_nil_r].
Qed.
Lemma last_rev_hd {A} (l : list A) d : last (rev l) d = hd d l.
Proof. destruct l as [|a l]; [reflexivity|]. simpl. apply last_last. Qed.
Lemma hd_below k ks : StrictSorted ks -> below k ks <> [] -> hd [] (below k ks) = hd [] ks.
Proof.
  intros Hs Hne. rewrite (below_firstn k ks Hs) in *.
  destruct (length (below k ks)); [simpl in Hne; congruence|]. destruct ks; reflexivity.
Qed.
Lemma sorted_hd_le ks key : StrictSorted ks -> In key ks -> lex_cmp (hd [] ks) key <> Gt.
Proof.
  intros Hs Hin. destruct ks as [|a ks]; [destruct Hin|]. simpl.
  destruct Hin as [->|Hin]; [rewrite lex_cmp_refl; congruence|].
  apply sorted_inv in Hs. destruct Hs as [_ Hf]. rewrite Forall_forall in Hf.
  specialize (Hf key Hin). unfold lt in Hf. rewrite Hf. congruence.
Qed.
Lemma flat_map_map {A B C} (f : B -> list C) (g : A -> B) l : flat_map f (map g l) = flat_map (fun x => f (g x)) l.
Proof. induction l as [|a l IH]; simpl; [reflexivity|]. rewrite IH. reflexivity. Qed.
Lemma flat_map_ext_in {A B} (f g : A -> list B) l : (forall x, In x l -> f x = g x) -> flat_map f l = flat_map g l.
Proof.
  induction l as [|a l IH]; intros H; [reflexivity|]. simpl.
  rewrite (H a (or_introl eq_refl)), IH; auto. intros; apply H; right; assumption.
Qed.

Lemma be4_length z b : be4 z = Some b -> length b = 4%nat.
Proof. unfold be4. destruct (_ && _); [|discriminate]. intros H. injection H as <-. reflexivity. Qed.
Lemma be4_wf z b : be4 z = Some b -> wf_bytes b.
Proof.
  unfold be4. destruct (_ && _); [|discriminate]. intros H. injection H as <-.
  repeat constructor; apply N.mod_lt; discriminate.
Qed.

(* ===================================================================== generic part *)
Section Char.
Variable ks : list bytes.
Variable has_time : bool.
Variable since0 until0 : option bytes.
Variable events : bytes -> bool.
Hypothesis Hsorted : StrictSorted ks.

Let T := entry_tail has_time.
Let rej := reject has_time since0 until0.
Let seek' := seek ks has_time until0.
Let yield' := yield has_time since0 until0 events.

Definition contrib (cm : bytes) : list bytes := flat_map (yield' cm) (seek' cm).
Definition mono_ok (cm : bytes) : Prop :=
  forall k k', In k (seek' cm) -> In k' (seek' cm) -> lex_cmp k' k = Lt ->
    prefix_ok k cm = true -> length k = (length cm + T)%nat ->
    prefix_ok k' cm = true -> length k' = (length cm + T)%nat ->
    rej k cm = true -> rej k' cm = true.
Fixpoint TailOK (cms : list bytes) : Prop :=
  match cms with
  | [] => True
  | cm :: rest => (ks <> [] -> prefix_ok (hd [] ks) cm = true -> flat_map contrib rest = []) /\ TailOK rest
  end.

Lemma lscan_char : forall cms acc, Forall mono_ok cms -> TailOK cms ->
  lscan ks has_time since0 until0 events cms acc = rev acc ++ flat_map contrib cms.
Proof.
  induction cms as [|cm rest IH]; intros acc Hm Ht.
  - simpl. symmetry. apply app_nil_r.
  - inversion Hm as [|? ? Hm1 Hm2]; subst. destruct Ht as [Ht1 Ht2].
    cbn [lscan flat_map].
    destruct (lblock_char has_time since0 until0 events cm (seek_key has_time until0 cm)
                (has_prefix_app cm _) (seek' cm) acc) as [H1 H2].
    + apply Desc_rev, sorted_below, Hsorted.
    + apply Forall_forall. intros k Hk. apply in_rev in Hk. apply below_In in Hk. tauto.
    + exact Hm1.
    + fold seek'. fold (contrib cm) in H1.
      destruct (snd (lblock has_time since0 until0 events cm (seek' cm) acc)) eqn:Es.
      * rewrite IH by assumption. rewrite H1, rev_app_distr, rev_involutive, app_assoc. reflexivity.
      * destruct (H2 eq_refl) as [Hne Hp].
        unfold seek', seek in Hne, Hp. rewrite last_rev_hd in Hp.
        assert (Hb : below (seek_key has_time until0 cm) ks <> []).
        { intros E. apply Hne. rewrite E. reflexivity. }
        pose proof (hd_below _ _ Hsorted Hb) as Hh. unfold bytes, byte in *. rewrite Hh in Hp.
        assert (Hk : ks <> []) by (intros E; apply Hb; rewrite E; reflexivity).
        rewrite (Ht1 Hk Hp), app_nil_r, H1, rev_app_distr, rev_involutive. reflexivity.
Qed.
End Char.

(* ===================================================================== timed indexes *)
Section Timed.
Variable ks : list bytes.
Variable since0 until0 : option bytes.
Variable events : bytes -> bool.
Hypothesis Hsorted : StrictSorted ks.
Hypothesis Hwf : wf_keys ks.
Hypothesis Hshaped : Shaped ks.
Hypothesis Hsince : forall s, since0 = Some s -> length s = 4%nat.
Hypothesis Huntil : forall u, until0 = Some u -> length u = 4%nat.

Definition ut : bytes := match until0 with Some u => u | None => [255; 255; 255; 255]%N end.
Lemma ut_length : length ut = 4%nat.
Proof. unfold ut. destruct until0 as [u|] eqn:E; [apply Huntil; reflexivity|reflexivity]. Qed.
Lemma seek_key_timed cm : seek_key true until0 cm = cm ++ ut ++ [1%N].
Proof. unfold seek_key, add_time, until, ut. destruct until0; reflexivity. Qed.

Definition since_chk (ts : bytes) : bool := match since0 with Some s => lex_ltb ts s | None => false end.
Definition until_chk (ts : bytes) : bool := match until0 with Some u => lex_ltb u ts | None => false end.
Lemma reject_timed key cm : reject true since0 until0 key cm =
  negb (prefix_ok key cm) || since_chk (firstn 4 (skipn (length cm) key)) || until_chk (firstn 4 (skipn (length cm) key)).
Proof. reflexivity. Qed.
Lemma in_window_chk ts : in_window_b since0 until0 ts = negb (since_chk ts || until_chk ts).
Proof.
  unfold in_window_b, since_chk, until_chk. rewrite negb_orb.
  destruct since0, until0; rewrite ?lex_leb_ltb; reflexivity.
Qed.

Lemma timed_decomp cm k : prefix_ok k cm = true -> length k = (length cm + 37)%nat ->
  exists ts rest, k = cm ++ ts ++ rest /\ length ts = 4%nat /\ firstn 4 (skipn (length cm) k) = ts.
Proof.
  intros Hp Hl. apply has_prefix_spec in Hp. destruct Hp as [x ->].
  rewrite app_length in Hl. exists (firstn 4 x), (skipn 4 x).
  rewrite firstn_skipn, skipn_app_exact. repeat split. rewrite firstn_length. unfold bytes, byte in *. lia.
Qed.

(* below the seek key, the until test never fires *)
Lemma below_seek_until cm ts rest : length ts = 4%nat ->
  lex_cmp (cm ++ ts ++ rest) (seek_key true until0 cm) = Lt -> until_chk ts = false.
Proof.
  intros Hl H. rewrite seek_key_timed in H. pose proof (entry_vs_seek cm ts rest ut Hl ut_length) as E.
  unfold bytes, byte in *. rewrite E in H. clear E.
  unfold until_chk, ut in *. destruct until0 as [u|]; [|reflexivity].
  apply lex_ltb_ge. destruct (lex_cmp ts u); congruence.
Qed.

Lemma timed_mono cm : mono_ok ks true since0 until0 cm.
Proof.
  intros k k' Hk Hk' Hlt Hp Hl Hp' Hl' Hr.
  destruct (timed_decomp cm k Hp Hl) as [ts [rest [-> [Hts Ets]]]].
  destruct (timed_decomp cm k' Hp' Hl') as [ts' [rest' [-> [Hts' Ets']]]].
  apply in_rev, below_In in Hk. destruct Hk as [_ Hk].
  rewrite reject_timed in *. rewrite Ets in Hr. rewrite Ets'. rewrite Hp in Hr. rewrite Hp'.
  rewrite (below_seek_until cm ts rest Hts Hk) in Hr. simpl in Hr. rewrite orb_false_r in Hr.
  rewrite lex_cmp_app_same in Hlt. pose proof (lex_cmp_app_eqlen ts' ts rest' rest) as E.
  unfold bytes, byte in *. rewrite E in Hlt by congruence. clear E.
  assert (Hle : lex_cmp ts' ts <> Gt) by (destruct (lex_cmp ts' ts); congruence).
  unfold since_chk in *. destruct since0 as [s|]; [|discriminate].
  apply lex_ltb_lt in Hr. simpl.
  assert (lex_ltb ts' s = true) as -> by (apply lex_ltb_lt; eapply lex_le_lt_trans; eauto).
  reflexivity.
Qed.

Definition spec_fun (m key : bytes) : list bytes :=
  match entry_of m key with
  | Some (ts, eid) => if in_window_b since0 until0 ts && events eid then [eid] else []
  | None => [] end.

Lemma timed_pointwise m key : wf_bytes key -> key_shaped key ->
  spec_fun m key = if lex_ltb key (seek_key true until0 (m ++ [0%N]))
                   then yield true since0 until0 events (m ++ [0%N]) key else [].
Proof.
  intros Hw Hs. unfold spec_fun, yield, hit.
  destruct (prefix_ok key (m ++ [0%N]) && Nat.eqb (length key) (length (m ++ [0%N]) + entry_tail true)) eqn:E.
  - apply andb_true_iff in E. destruct E as [Hp Hl]. apply Nat.eqb_eq in Hl.
    destruct (shaped_entry m key Hp Hl Hs) as [ts [eid [-> [Hts Heid]]]].
    nrw (entry_of_entry m ts eid Hts Heid). nrw (last_n_entry m ts eid Heid).
    rewrite reject_timed. nrw (ts_of_entry m ts eid Hts). nrw (prefix_entry m ts eid).
    simpl negb. simpl orb. nrw (in_window_chk ts). simpl andb. unfold bytes, byte in *.
    destruct (lex_ltb (m ++ 0%N :: ts ++ 0%N :: eid) (seek_key true until0 (m ++ [0%N]))) eqn:Elt.
    + reflexivity.
    + (* at or above the seek key: the timestamp is above until *)
      assert (Hu : until_chk ts = true).
      { rewrite seek_key_timed in Elt. unfold lex_ltb in Elt.
        nrw_in (entry_vs_seek0 m ts eid ut Hts ut_length) Elt.
        destruct (lex_cmp ts ut) eqn:Ec; try discriminate.
        unfold until_chk, ut in *. destruct until0 as [u|].
        - apply lex_ltb_lt. apply lex_lt_gt. exact Ec.
        - exfalso. apply wf_bytes_app in Hw. destruct Hw as [_ Hw].
          change (0%N :: ts ++ 0%N :: eid) with ([0%N] ++ ts ++ 0%N :: eid) in Hw.
          apply wf_bytes_app in Hw. destruct Hw as [_ Hw].
          apply wf_bytes_app in Hw. destruct Hw as [Hw _].
          apply (wf4_le_ff ts Hw Hts). exact Ec. }
      rewrite Hu, orb_true_r. reflexivity.
  - destruct (entry_of m key) as [[ts eid]|] eqn:Ee.
    + apply entry_of_some in Ee. destruct Ee as [Hp Hl].
      change (has_prefix key (m ++ [0%N])) with (prefix_ok key (m ++ [0%N])) in Hp.
      rewrite Hp, Hl in E. simpl in E. rewrite Nat.eqb_refl in E. discriminate.
    + simpl. destruct (lex_ltb _ _); reflexivity.
Qed.

Lemma timed_contrib m :
  contrib ks true since0 until0 events (m ++ [0%N]) = spec_block ks false since0 until0 events m.
Proof.
  unfold contrib, seek, spec_block, below. rewrite <- filter_rev.
  apply flat_map_filter_gen. intros key Hk. apply in_rev in Hk.
  unfold wf_keys, Shaped in *. rewrite Forall_forall in Hwf, Hshaped.
  apply (timed_pointwise m key (Hwf key Hk) (proj1 (Hshaped key Hk))).
Qed.

(* floor: the smallest key of the store is not a key of this index *)
Lemma timed_tail pfx cms : (ks <> [] -> nth 0 (hd [] ks) 0%N <> pfx) ->
  Forall (fun cm => exists r, cm = pfx :: r) cms -> TailOK ks true since0 until0 events cms.
Proof.
  intros Hfloor. induction cms as [|cm rest IH]; intros Hf; [exact I|].
  inversion Hf as [|? ? [r ->] Hf']; subst. split; [|apply IH, Hf'].
  intros Hk Hp. exfalso. apply (Hfloor Hk).
  apply has_prefix_spec in Hp. destruct Hp as [x ->]. reflexivity.
Qed.
End Timed.

(* ===================================================================== id index *)
Section Ids.
Variable ks : list bytes.
Variable since0 until0 : option bytes.
Variable events : bytes -> bool.
Hypothesis Hsorted : StrictSorted ks.

Lemma reject_ids key cm : reject false since0 until0 key cm = negb (prefix_ok key cm).
Proof. unfold reject, since, until. rewrite !orb_false_r. reflexivity. Qed.

Lemma ids_mono cm : mono_ok ks false since0 until0 cm.
Proof. intros k k' _ _ _ Hp _ _ _ Hr. rewrite reject_ids, Hp in Hr. discriminate. Qed.

Lemma ids_hit m key : hit false since0 until0 m key = bytes_eqb key m.
Proof.
  unfold hit. rewrite reject_ids, negb_involutive. unfold entry_tail. rewrite Nat.add_0_r.
  destruct (bytes_eqb key m) eqn:E.
  - apply bytes_eqb_eq in E. subst. unfold prefix_ok. rewrite firstn_all.
    assert (list_eqb N.eqb m m = true) as -> by (apply bytes_eqb_eq; reflexivity).
    rewrite Nat.eqb_refl. reflexivity.
  - destruct (prefix_ok key m) eqn:Ep; [|reflexivity].
    destruct (Nat.eqb (length key) (length m)) eqn:El; [|reflexivity].
    exfalso. apply Nat.eqb_eq in El. apply has_prefix_spec in Ep. destruct Ep as [r ->].
    rewrite app_length in El. destruct r; [|simpl in El; unfold bytes, byte in *; lia].
    rewrite app_nil_r in E. assert (bytes_eqb m m = true) by (apply bytes_eqb_eq; reflexivity). congruence.
Qed.

Lemma ids_contrib m : contrib ks false since0 until0 events m = spec_block ks true since0 until0 events m.
Proof.
  unfold contrib, seek, spec_block, below. rewrite <- filter_rev.
  apply flat_map_filter_gen. intros key _. unfold yield. rewrite ids_hit.
  destruct (lex_ltb key (seek_key false until0 m)) eqn:Elt; [reflexivity|].
  destruct (bytes_eqb key m) eqn:E; [|reflexivity].
  apply bytes_eqb_eq in E. subst. unfold seek_key, add_time, lex_ltb in Elt.
  rewrite lex_lt_app_cons in Elt. discriminate.
Qed.

Lemma ids_tail cms : Desc cms -> TailOK ks false since0 until0 events cms.
Proof.
  induction cms as [|cm rest IH]; intros Hd; [exact I|].
  inversion Hd as [|? ? Hd' Hlt]; subst. split; [|apply IH, Hd'].
  intros Hk Hp. apply flat_map_nil_gen. intros cm' Hin. unfold contrib.
  apply flat_map_nil_gen. intros key Hkey. unfold yield. rewrite ids_hit.
  destruct (bytes_eqb key cm') eqn:E; [|reflexivity]. exfalso.
  apply bytes_eqb_eq in E. subst key.
  apply in_rev, below_In in Hkey. destruct Hkey as [Hkey _].
  rewrite Forall_forall in Hlt. specialize (Hlt cm' Hin).
  pose proof (sorted_hd_le ks cm' Hsorted Hkey) as H1.
  pose proof (prefixed_ge _ _ Hp) as H2.
  pose proof (lex_le_trans _ _ _ H2 H1) as H3.
  apply lex_lt_gt in Hlt. congruence.
Qed.
End Ids.
