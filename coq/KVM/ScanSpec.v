(* What Index.scanner is for: the ids of the index entries that belong to one of the
   requested match values and whose timestamp lies in [since, until] (closed), once per
   entry.  Entry layout: match-key ++ 00 ++ be4(ts) ++ 00 ++ id(32); the id index has
   bare keys prefix ++ id and carries no timestamp. *)
From NR Require Import Lib.Base KVM.Engine KVM.Keys KVM.Scan.
Open Scope list_scope. Open Scope Z_scope.

Definition bytes_eqb : bytes -> bytes -> bool := list_eqb N.eqb.

(* key = m ++ [0] ++ ts ++ [0] ++ id with |ts| = 4, |id| = 32 *)
Definition entry_of (m key : bytes) : option (bytes * bytes) :=
  let lm := length m in
  if Nat.eqb (length key) (lm + 38) && bytes_eqb (firstn lm key) m
     && N.eqb (nth lm key 1%N) 0 && N.eqb (nth (lm + 5) key 1%N) 0
  then Some (firstn 4 (skipn (lm + 1) key), skipn (lm + 6) key) else None.

Definition in_window_b (since until : option bytes) (ts : bytes) : bool :=
  match since with Some s => lex_leb s ts | None => true end &&
  match until with Some u => lex_leb ts u | None => true end.

Definition spec_block (ks : list bytes) (is_ids : bool) (since until : option bytes)
           (events : bytes -> bool) (m : bytes) : list bytes :=
  flat_map (fun key =>
     if is_ids then (if bytes_eqb key m && events (last_n key 32) then [last_n key 32] else [])
     else match entry_of m key with
          | Some (ts, eid) => if in_window_b since until ts && events eid then [eid] else []
          | None => [] end) (rev ks).

(* range scan of the created_at index (no matches); its entries are
   prefix ++ ts ++ 00 ++ ts ++ 00 ++ id (the match key of an event is prefix ++ be4(created_at)) *)
Definition spec_range (ks : list bytes) (prefix : byte) (since until : option bytes) : list bytes :=
  flat_map (fun key =>
     if Nat.eqb (length key) 43 && N.eqb (nth 0 key 255%N) prefix && N.eqb (nth 5 key 1%N) 0
        && N.eqb (nth 10 key 1%N) 0
        && in_window_b since until (firstn 4 (skipn 1 key))
     then [skipn 11 key] else []) (rev ks).

Definition scan_spec (ks : list bytes) (i : idx) (matches : list mval) (since until : option Z)
           (events : bytes -> bool) : sres :=
  match compile (map (to_key i) matches), conv_time since, conv_time until with
  | Some cms, Some s, Some u =>
      match cms, i with
      | [], IxCreated => SOk (spec_range ks (idx_prefix i) s u)
      | _, _ => SOk (flat_map (spec_block ks (match i with IxIds => true | _ => false end) s u events) cms)
      end
  | _, _, _ => SRaise
  end.
