(* A boolean check of store coherence, sound w.r.t. KVM.Coherent.Coherent, and a concrete store built with the
   engine's put: used for the non-vacuity examples and the refutation witnesses (closed by vm_compute). *)
From NR Require Import Lib.Base Lib.BaseFacts Lib.Nip01 KVM.Engine KVM.Keys KVM.Scan KVM.ScanSpec KVM.Order KVM.Coherent
  KVM.Proofs_Exec KVM.Thm_C02.
From Coq Require Import ZifyBool Sorting.Sorted.
Open Scope list_scope. Open Scope Z_scope.

Fixpoint sorted_from (x : bytes) (r : list bytes) : bool :=
  match r with [] => true | y :: r' => lex_ltb x y && sorted_from y r' end.
Definition sortedb (l : list bytes) : bool := match l with [] => true | x :: r => sorted_from x r end.

Lemma sorted_from_sound : forall r x, sorted_from x r = true -> StrictSorted (x :: r).
Proof.
  induction r as [|y r IH]; intros x H; [repeat constructor|].
  simpl in H. apply andb_true_iff in H. destruct H as [H1 H2]. apply lex_ltb_lt in H1.
  specialize (IH y H2). constructor; [exact IH|]. constructor; [exact H1|].
  apply sorted_inv in IH. destruct IH as [_ Hf]. rewrite Forall_forall in *. intros z Hz.
  unfold lt in *. eapply lex_lt_trans; eauto.
Qed.
Lemma sortedb_sound l : sortedb l = true -> StrictSorted l.
Proof. destruct l; [constructor|apply sorted_from_sound]. Qed.

Definition opt_bytes_eqb (o : option bytes) (k : bytes) : bool := match o with Some x => bytes_eqb x k | None => false end.
Lemma opt_bytes_eqb_eq o k : opt_bytes_eqb o k = true <-> o = Some k.
Proof.
  destruct o as [x|]; simpl; [|split; discriminate]. rewrite bytes_eqb_eq. split; [intros ->; reflexivity|intros H; injection H; auto].
Qed.

Definition stored_wfb (e : wevent) : bool :=
  hex64 (w_id e) && hex64 (w_pubkey e) && (0 <=? w_created e) && (w_created e <? 4294967296) &&
  (0 <=? w_kind e) && (w_kind e <? 4294967296) && match index_entries e with Some _ => true | None => false end.
Lemma stored_wfb_sound e : stored_wfb e = true -> stored_wf e.
Proof.
  unfold stored_wfb, stored_wf. intros H. repeat (apply andb_true_iff in H; destruct H as [H ?]).
  repeat split; try lia; try assumption.
  - unfold hex64. apply andb_true_iff. split; assumption.
  - intros E. rewrite E in *. discriminate.
Qed.

Definition check_kv (d : kvdb) (kv : bytes * rec) : bool :=
  bytes_eqb (fst kv) tombstone ||
  match snd kv with
  | REvent e => opt_bytes_eqb (primary_key e) (fst kv) && stored_wfb e
  | RIndex => existsb (fun kv' => match snd kv' with
                                  | REvent e => opt_bytes_eqb (primary_key e) (fst kv') &&
                                                match index_entries e with Some es => mem_bytes (fst kv) es | None => false end
                                  | RIndex => false end) d
  end.
Definition check_entries (d : kvdb) (kv : bytes * rec) : bool :=
  match snd kv with
  | REvent e => if opt_bytes_eqb (primary_key e) (fst kv)
                then match index_entries e with Some es => forallb (fun k => mem_bytes k (keys d)) es | None => true end
                else true
  | RIndex => true
  end.
Definition check_coherent (d : kvdb) : bool :=
  sortedb (keys d) && mem_bytes tombstone (keys d) && forallb (check_kv d) d && forallb (check_entries d) d.

Theorem check_coherent_sound d : check_coherent d = true -> Coherent d.
Proof.
  unfold check_coherent. intros H.
  apply andb_true_iff in H. destruct H as [H H4]. apply andb_true_iff in H. destruct H as [H H3].
  apply andb_true_iff in H. destruct H as [H1 H2].
  rewrite forallb_forall in H3. rewrite forallb_forall in H4.
  split; [apply sortedb_sound; assumption|]. split; [apply mem_bytes_In; assumption|]. split.
  - intros k v Hin. pose proof (H3 (k, v) Hin) as Hc. unfold check_kv in Hc. simpl in Hc.
    apply orb_true_iff in Hc. destruct Hc as [Hc|Hc].
    + left. apply bytes_eqb_eq. assumption.
    + right. destruct v as [|e].
      * right. split; [reflexivity|]. apply existsb_exists in Hc. destruct Hc as [[pk v'] [Hin' Hc]]. simpl in Hc.
        destruct v' as [|e]; [discriminate|]. apply andb_true_iff in Hc. destruct Hc as [Ha Hb].
        apply opt_bytes_eqb_eq in Ha. destruct (index_entries e) as [es|] eqn:Ees; [|discriminate].
        apply mem_bytes_In in Hb. exists e, pk, es. auto.
      * left. apply andb_true_iff in Hc. destruct Hc as [Ha Hb]. apply opt_bytes_eqb_eq in Ha.
        exists e. split; [reflexivity|]. split; [assumption|apply stored_wfb_sound; assumption].
  - intros e pk es Hp Hin Hes k Hk. pose proof (H4 (pk, REvent e) Hin) as Hc. unfold check_entries in Hc. simpl in Hc.
    assert (Ho : opt_bytes_eqb (primary_key e) pk = true) by (apply opt_bytes_eqb_eq; assumption).
    rewrite Ho, Hes in Hc. rewrite forallb_forall in Hc. apply mem_bytes_In, Hc, Hk.
Qed.

(* ---- a store built with the engine's put ---- *)
Definition add_event (d : kvdb) (e : wevent) : kvdb :=
  match primary_key e, index_entries e with
  | Some pk, Some es => fold_left (fun acc k => put_raw k RIndex acc) es (put_raw pk (REvent e) d)
  | _, _ => d
  end.
Definition mk_store (evs : list wevent) : kvdb := fold_left add_event evs [(tombstone, RIndex)].

(* every stored event appears in the list of records *)
Definition stored_events (d : kvdb) : list wevent :=
  flat_map (fun kv => match snd kv with REvent e => [e] | RIndex => [] end) d.
Lemma stored_in_events d e : stored d e -> In e (stored_events d).
Proof.
  intros [pk [_ Hin]]. unfold stored_events. apply in_flat_map. exists (pk, REvent e). split; [assumption|left; reflexivity].
Qed.
(* a limit of at least the number of stored events never truncates *)
Theorem at_most_total d P n : Z.of_nat (length (stored_events d)) <= n -> at_most d P n.
Proof.
  intros Hn l Hnd Hall.
  assert (Hl : NoDup l).
  { clear -Hnd. induction l as [|x r IH]; [constructor|]. simpl in Hnd. inversion Hnd; subst. constructor; [|auto].
    intros Hin. apply H1. apply in_map. assumption. }
  assert (Hincl : incl l (stored_events d)) by (intros x Hx; apply stored_in_events, Hall, Hx).
  pose proof (NoDup_incl_length Hl Hincl). lia.
Qed.
