(* From "the residual accepts a stored event" to "the scanner of the filter's plan finds its id":
   every index the planner can choose (ids, created_at range, kinds, authors, author+kind, tags,
   chained multi-index) is hit, using scanner_correct on the coherent store. *)
From NR Require Import Lib.Base Lib.BaseFacts Lib.Nip01 KVM.Engine KVM.Keys KVM.Scan KVM.ScanSpec KVM.Order
  KVM.Coherent KVM.Plan KVM.Match KVM.Exec KVM.Spec KVM.Proofs_Cursor KVM.Proofs_Scan KVM.Proofs_Blocks
  KVM.Proofs_ScanCorrect KVM.Proofs_ScanTop KVM.Proofs_Coherent KVM.Proofs_Be4 KVM.Proofs_Match KVM.Proofs_Exec.
From Coq Require Import ZifyBool Sorting.Sorted.
Open Scope list_scope. Open Scope Z_scope.

(* ---- compile ---- *)
Lemma compile_total l : exists cms, compile l = Some cms.
Proof.
  induction l as [|k r [cms IH]]; [exists []; reflexivity|].
  destruct k; simpl; rewrite IH; simpl; eauto.
Qed.
Lemma compile_In l : forall cms k, compile l = Some cms -> In (KKey k) l -> In k cms.
Proof.
  induction l as [|x r IH]; intros cms k H Hin; [destruct Hin|].
  destruct Hin as [->|Hin].
  - simpl in H. destruct (compile r); [|discriminate]. simpl in H. injection H as <-. left. reflexivity.
  - destruct x; simpl in H.
    + destruct (compile r) as [c|] eqn:E; [|discriminate]. simpl in H. injection H as <-. right. eapply IH; eauto.
    + eauto.
    + eauto.
Qed.

(* ---- the index entries of a stored event are keys of the store ---- *)
Lemma all_some_map_in {A B} (f : A -> option B) l : forall es x, all_some (map f l) = Some es -> In x l ->
  exists y, f x = Some y /\ In y es.
Proof.
  induction l as [|a l IH]; intros es x H Hin; [destruct Hin|]. simpl in H.
  destruct (f a) as [y|] eqn:Ea; [|discriminate]. destruct (all_some (map f l)) as [r|] eqn:Er; [|discriminate].
  simpl in H. injection H as <-. destruct Hin as [->|Hin].
  - exists y. split; [assumption|left; reflexivity].
  - destruct (IH r x eq_refl Hin) as [y' [H1 H2]]. exists y'. split; [assumption|right; assumption].
Qed.

Lemma stored_entry d e i m : Coherent d -> stored d e -> In (i, m) (index_matches e) ->
  exists kk ct idb, to_key i m = KKey kk /\ be4 (w_created e) = Some ct /\ id_bytes e = Some idb /\
                    length idb = 32%nat /\ In (entry_key kk ct idb) (keys d).
Proof.
  intros Hc Hst Him. destruct Hst as [pk [Hp Hin]].
  destruct Hc as [Hs [Ht [Hk Hall]]].
  destruct (Hk _ _ Hin) as [Hb|[[e' [He' [Hp' Hw]]]|[Hb _]]]; [|injection He' as <-|discriminate].
  - subst pk. destruct (Hk _ _ Hin) as [_|[[e' [He' [Hp' Hw]]]|[Hb _]]]; try discriminate.
    (* the tombstone's value is unconstrained: a record stored under the tombstone key would not be under a primary key *)
    unfold primary_key in Hp. destruct (id_bytes e); discriminate.
    injection He' as <-. unfold primary_key in Hp'. destruct (id_bytes e); discriminate.
  - destruct Hw as [Hh [_ [_ [_ Hne]]]].
    destruct (index_entries e) as [es|] eqn:Ees; [|congruence].
    pose proof (Hall e pk es Hp Hin Ees) as Hkeys.
    unfold index_entries in Ees. destruct (id_bytes e) as [idb|] eqn:Ei; [|discriminate].
    destruct (be4 (w_created e)) as [ct|] eqn:Ec; [|discriminate].
    destruct (all_some_map_in _ _ _ _ Ees Him) as [y [Hy Hyin]]. simpl in Hy.
    destruct (to_key i m) as [kk| |] eqn:Ek; try discriminate. injection Hy as <-.
    exists kk, ct, idb. repeat split; auto. unfold id_bytes in Ei. eapply hex64_bytes; eauto.
Qed.

(* ---- window ---- *)
Definition window_ok (since until : option Z) (t : Z) : Prop :=
  (forall z, since = Some z -> 0 <= z < 4294967296 /\ z <= t) /\
  (forall z, until = Some z -> 0 <= z < 4294967296 /\ t <= z).

Lemma window_conv since until t ct : window_ok since until t -> be4 t = Some ct ->
  exists s u, conv_time since = Some s /\ conv_time until = Some u /\ in_window_b s u ct = true.
Proof.
  intros [Hs Hu] Hct. unfold conv_time, in_window_b.
  destruct since as [zs|]; destruct until as [zu|].
  - destruct (Hs zs eq_refl) as [R1 L1]. destruct (Hu zu eq_refl) as [R2 L2].
    destruct (be4_some zs R1) as [bs Ebs]. destruct (be4_some zu R2) as [bu Ebu]. rewrite Ebs, Ebu.
    exists (Some bs), (Some bu). split; [reflexivity|]. split; [reflexivity|].
    rewrite (be4_leb _ _ _ _ Ebs Hct), (be4_leb _ _ _ _ Hct Ebu). lia.
  - destruct (Hs zs eq_refl) as [R1 L1]. destruct (be4_some zs R1) as [bs Ebs]. rewrite Ebs.
    exists (Some bs), None. split; [reflexivity|]. split; [reflexivity|].
    rewrite (be4_leb _ _ _ _ Ebs Hct). lia.
  - destruct (Hu zu eq_refl) as [R2 L2]. destruct (be4_some zu R2) as [bu Ebu]. rewrite Ebu.
    exists None, (Some bu). split; [reflexivity|]. split; [reflexivity|].
    rewrite (be4_leb _ _ _ _ Hct Ebu). lia.
  - exists None, None. repeat split.
Qed.

(* ---- one block of the specification contains the entry ---- *)
Lemma spec_block_hit ks kk ct idb s u ev : In (entry_key kk ct idb) ks -> length ct = 4%nat -> length idb = 32%nat ->
  in_window_b s u ct = true -> ev idb = true -> In idb (spec_block ks false s u ev kk).
Proof.
  intros Hin Hct Hid Hw He. unfold spec_block. apply in_flat_map. exists (entry_key kk ct idb).
  split; [apply in_rev; rewrite rev_involutive; exact Hin|].
  unfold entry_key. change (kk ++ [0%N] ++ ct ++ [0%N] ++ idb) with (kk ++ 0%N :: ct ++ 0%N :: idb).
  pose proof (entry_of_entry kk ct idb Hct Hid) as E. unfold bytes, byte in *. rewrite E, Hw, He. left. reflexivity.
Qed.

(* a timed index stage finds the event *)
Lemma timed_stage_hit d e i ms m since until ev idb :
  Coherent d -> stored d e -> id_bytes e = Some idb -> i <> IxIds -> In m ms -> In (i, m) (index_matches e) ->
  window_ok since until (w_created e) -> ev idb = true ->
  exists ids, index_scanner (keys d) i ms since until ev = SOk ids /\ In idb ids.
Proof.
  intros Hc Hst Hid Hi Hm Him Hw Hev.
  destruct (stored_entry d e i m Hc Hst Him) as [kk [ct [idb' [Hk [Hct [Hid' [Hl Hin]]]]]]].
  rewrite Hid in Hid'. injection Hid' as <-.
  destruct (window_conv _ _ _ _ Hw Hct) as [s [u [Es [Eu Hwin]]]].
  destruct (compile_total (map (to_key i) ms)) as [cms Ec].
  assert (Hkk : In kk cms).
  { eapply compile_In; eauto. apply in_map_iff. exists m. auto. }
  rewrite (coherent_scanner_correct d i ms since until ev Hc).
  - unfold scan_spec. rewrite Ec, Es, Eu.
    assert (Hne : cms <> []) by (intros E; rewrite E in Hkk; destruct Hkk).
    replace (match cms, i with [], IxCreated => SOk (spec_range (keys d) (idx_prefix i) s u) | _, _ =>
               SOk (flat_map (spec_block (keys d) match i with IxIds => true | _ => false end s u ev) cms) end)
      with (SOk (flat_map (spec_block (keys d) false s u ev) cms))
      by (destruct cms; [congruence|destruct i; try reflexivity; congruence]).
    eexists. split; [reflexivity|]. apply in_flat_map. exists kk. split; [assumption|].
    eapply spec_block_hit; eauto. eapply be4_length; eauto.
  - intros cms' Ec'. rewrite Ec in Ec'. injection Ec' as <-. split; [|intros; congruence].
    left. intros E. rewrite E in Hkk. destruct Hkk.
Qed.

Definition conv_ok (o : option Z) : Prop := forall z, o = Some z -> 0 <= z < 4294967296.
Lemma conv_time_some o : conv_ok o -> exists r, conv_time o = Some r.
Proof.
  unfold conv_ok, conv_time. destruct o as [z|]; [|eauto]. intros H.
  destruct (be4_some z (H z eq_refl)) as [x ->]. eauto.
Qed.

(* the id index finds the event under its own id *)
Lemma ids_stage_hit d e l since until ev idb :
  Coherent d -> stored d e -> id_bytes e = Some idb -> In (w_id e) l -> conv_ok since -> conv_ok until ->
  (forall cms, compile (map (to_key IxIds) (map MStr l)) = Some cms -> Desc cms) -> ev idb = true ->
  exists ids, index_scanner (keys d) IxIds (map MStr l) since until ev = SOk ids /\ In idb ids.
Proof.
  intros Hc Hst Hid Hin Hcs Hcu Hdesc Hev.
  assert (Hst' := Hst). destruct Hst' as [pk [Hp Hpin]].
  unfold primary_key in Hp. rewrite Hid in Hp. simpl in Hp. injection Hp as <-.
  assert (Hwf : stored_wf e).
  { destruct (stored_get d e Hc Hst) as [i [Hi Hg]]. apply (coherent_primary d i e Hc Hg). }
  assert (Hl : length idb = 32%nat) by (destruct Hwf as [Hh _]; unfold id_bytes in Hid; eapply hex64_bytes; eauto).
  assert (Hk : to_key IxIds (MStr (w_id e)) = KKey (primary_key_of idb)).
  { simpl. unfold bytes_from_hex. unfold id_bytes in Hid. rewrite Hid. reflexivity. }
  destruct (compile_total (map (to_key IxIds) (map MStr l))) as [cms Ec].
  assert (Hkk : In (primary_key_of idb) cms).
  { eapply compile_In; eauto. apply in_map_iff. exists (MStr (w_id e)). split; [assumption|]. apply in_map. assumption. }
  destruct (conv_time_some _ Hcs) as [s Es]. destruct (conv_time_some _ Hcu) as [u Eu].
  rewrite (coherent_scanner_correct d IxIds (map MStr l) since until ev Hc).
  - unfold scan_spec. rewrite Ec, Es, Eu.
    replace (match cms, IxIds with [], IxCreated => SOk (spec_range (keys d) (idx_prefix IxIds) s u) | _, _ =>
               SOk (flat_map (spec_block (keys d) true s u ev) cms) end)
      with (SOk (flat_map (spec_block (keys d) true s u ev) cms)) by (destruct cms; reflexivity).
    eexists. split; [reflexivity|]. apply in_flat_map. exists (primary_key_of idb). split; [assumption|].
    unfold spec_block. apply in_flat_map. exists (primary_key_of idb). split.
    + apply in_rev. rewrite rev_involutive. unfold keys. apply in_map_iff. exists (primary_key_of idb, REvent e). auto.
    + assert (Hlast : last_n (primary_key_of idb) 32 = idb) by (apply (last_n_app [0%N] idb Hl)).
      assert (Heq : bytes_eqb (primary_key_of idb) (primary_key_of idb) = true) by (apply bytes_eqb_eq; reflexivity).
      rewrite Heq, Hlast, Hev. left. reflexivity.
  - intros cms' Ec'. rewrite Ec in Ec'. injection Ec' as <-. split; [|intros _; apply Hdesc, Ec].
    left. intros E. rewrite E in Hkk. destruct Hkk.
Qed.

(* the created_at range scan (no index condition) finds the event *)
Lemma range_hit d e since until ev idb :
  Coherent d -> stored d e -> id_bytes e = Some idb -> window_ok since until (w_created e) ->
  exists ids, index_scanner (keys d) IxCreated [] since until ev = SOk ids /\ In idb ids.
Proof.
  intros Hc Hst Hid Hw.
  assert (Him : In (IxCreated, MInt (w_created e)) (index_matches e)) by (left; reflexivity).
  destruct (stored_entry d e _ _ Hc Hst Him) as [kk [ct [idb' [Hk [Hct [Hid' [Hl Hin]]]]]]].
  rewrite Hid in Hid'. injection Hid' as <-.
  simpl in Hk. rewrite Hct in Hk. injection Hk as <-.
  destruct (window_conv _ _ _ _ Hw Hct) as [s [u [Es [Eu Hwin]]]].
  rewrite (coherent_scanner_correct d IxCreated [] since until ev Hc).
  - unfold scan_spec. cbn [map compile]. rewrite Es, Eu. eexists. split; [reflexivity|].
    unfold spec_range. apply in_flat_map. exists (entry_key (idx_prefix IxCreated :: ct) ct idb).
    split; [apply in_rev; rewrite rev_involutive; exact Hin|].
    pose proof (be4_length _ _ Hct) as Hlc. destruct (length4 ct Hlc) as [a [b [c [x ->]]]].
    unfold entry_key. cbn [app idx_prefix length nth firstn skipn]. unfold bytes, byte in *. rewrite Hl.
    cbn [Nat.eqb N.eqb Pos.eqb andb]. rewrite Hwin. left. reflexivity.
  - intros cms Ec. injection Ec as <-. split; [right; reflexivity|discriminate].
Qed.

(* ---- the stages of a filter's plan are hit by every stored event its residual accepts ---- *)
Definition hit_by (e : wevent) (s : idx * list mval) : Prop :=
  exists m, In m (snd s) /\ ((fst s = IxIds /\ m = MStr (w_id e)) \/ (fst s <> IxIds /\ In (fst s, m) (index_matches e))).

Lemma pair_cmp_eq a b : pair_cmp a b = Eq <-> a = b.
Proof.
  destruct a as [a1 a2], b as [b1 b2]. unfold pair_cmp. simpl. split.
  - destruct (lex_cmp a1 b1) eqn:E1; try discriminate. intros E2.
    apply lex_cmp_eq in E1. apply lex_cmp_eq in E2. congruence.
  - intros H. injection H as -> ->. rewrite !lex_cmp_refl. reflexivity.
Qed.
Lemma insert_desc_In x l y : In y (insert_desc x l) <-> y = x \/ In y l.
Proof.
  induction l as [|z r IH]; simpl; [intuition|].
  destruct (pair_cmp x z) eqn:E.
  - apply pair_cmp_eq in E. subst. simpl. intuition.
  - simpl. rewrite IH. intuition.
  - simpl. intuition.
Qed.
Lemma sort_desc_pairs_In l y : In y (sort_desc_pairs l) <-> In y l.
Proof.
  unfold sort_desc_pairs. assert (H : forall acc, In y (fold_left (fun a x => insert_desc x a) l acc) <-> In y l \/ In y acc).
  { induction l as [|x r IH]; intros acc; simpl; [intuition|]. rewrite IH, insert_desc_In. intuition. }
  rewrite H. simpl. intuition.
Qed.

Lemma tag_clause_witness tags n vs : tag_clause tags n vs = true ->
  exists v rest, In (n :: v :: rest) tags /\ In v vs.
Proof.
  unfold tag_clause. destruct (existsb _ tags); [discriminate|]. intros H.
  apply existsb_exists in H. destruct H as [t [Hin Ht]]. destruct t as [|n' [|v rest]]; try discriminate.
  apply andb_true_iff in Ht. destruct Ht as [Hn Hv]. apply str_eqb_eq in Hn. subst n'.
  apply mem_str_In in Hv. eauto.
Qed.

Lemma stages_hit f e : wf_filter f -> hex64 (w_id e) = true -> hex64 (w_pubkey e) = true ->
  residual (plan_items f) e = true -> Forall (hit_by e) (plan_stages f).
Proof.
  intros [Hids [Hau [Htn _]]] Hid Hpk H. rewrite residual_items in H.
  repeat (apply andb_true_iff in H; destruct H as [? H]).
  unfold plan_stages. apply Forall_app. split; [|apply Forall_app; split].
  - unfold stage_ids. destruct (f_ids f) as [l|]; [|constructor]. constructor; [|constructor].
    exists (MStr (w_id e)). split; [|left; split; reflexivity]. simpl. apply in_map.
    apply mem_str_In. rewrite <- (hex_clause_mem _ l (hex64_length _ Hid) (Hids l eq_refl)). assumption.
  - unfold stage_ak.
    assert (Hk : forall l, f_kinds f = Some l -> In (w_kind e) l).
    { intros l E. rewrite E in *. apply mem_Z_In. assumption. }
    assert (Ha : forall l, f_authors f = Some l -> In (w_pubkey e) l).
    { intros l E. rewrite E in *. apply mem_str_In. rewrite <- (hex_clause_mem _ l (hex64_length _ Hpk) (Hau l eq_refl)). assumption. }
    destruct (f_kinds f) as [ks|]; destruct (f_authors f) as [au|]; try constructor; try constructor.
    + exists (MStrInt (w_pubkey e) (w_kind e)). split.
      * simpl. apply in_flat_map. exists (w_pubkey e). split; [apply Ha; reflexivity|]. apply in_map. apply Hk. reflexivity.
      * right. split; [discriminate|]. simpl. right. right. right. left. reflexivity.
    + exists (MInt (w_kind e)). split; [simpl; apply in_map, Hk; reflexivity|].
      right. split; [discriminate|]. simpl. right. left. reflexivity.
    + exists (MStr (w_pubkey e)). split; [simpl; apply in_map, Ha; reflexivity|].
      right. split; [discriminate|]. simpl. right. right. left. reflexivity.
  - unfold stage_tags. destruct (f_tags f) as [|[n vs] rest] eqn:Et; [constructor|]. constructor; [|constructor].
    rewrite forallb_forall in H. pose proof (H (n, vs) (or_introl eq_refl)) as Hc. simpl in Hc.
    destruct (tag_clause_witness _ _ _ Hc) as [v [r [Hin Hv]]].
    exists (MStrStr n v). split.
    + simpl. apply in_map_iff. exists (n, v). split; [reflexivity|]. apply sort_desc_pairs_In.
      unfold tag_pairs. rewrite Et. apply in_flat_map. exists (n, vs). split; [left; reflexivity|].
      simpl. apply in_map. assumption.
    + right. split; [discriminate|]. unfold index_matches. apply in_or_app. right.
      apply in_flat_map. exists (n :: v :: r). split; [assumption|].
      assert (Hix : tag_indexable (n :: v :: r) = true).
      { inversion Htn as [|? ? Hn _]; subst. simpl in Hn. simpl. rewrite Hn. reflexivity. }
      rewrite Hix. left. reflexivity.
Qed.

(* ---- one stage, under a membership filter that contains the event ---- *)
Definition ids_desc (f : filter) : Prop :=
  forall l cms, f_ids f = Some l -> compile (map (to_key IxIds) (map MStr l)) = Some cms -> Desc cms.

Lemma stage_scan d e s since until ev idb :
  Coherent d -> stored d e -> id_bytes e = Some idb -> hit_by e s -> window_ok since until (w_created e) ->
  conv_ok since -> conv_ok until ->
  (fst s = IxIds -> forall cms, compile (map (to_key IxIds) (snd s)) = Some cms -> Desc cms) ->
  ev idb = true ->
  exists ids, index_scanner (keys d) (fst s) (snd s) since until ev = SOk ids /\ In idb ids.
Proof.
  intros Hc Hst Hid [m [Hm [[Hi ->]|[Hi Him]]]] Hw Hcs Hcu Hdesc Hev; destruct s as [i ms]; simpl in *.
  - subst i.
    assert (Hms : exists l, ms = map MStr l /\ In (w_id e) l -> True) by (exists []; auto).
    (* the matches of an id stage are MStr values; use the generic id-index argument on the key list *)
    clear Hms.
    assert (Hst' := Hst). destruct Hst' as [pk [Hp Hpin]].
    unfold primary_key in Hp. rewrite Hid in Hp. simpl in Hp. injection Hp as <-.
    assert (Hwf : stored_wf e).
    { destruct (stored_get d e Hc Hst) as [i [Hi Hg]]. apply (coherent_primary d i e Hc Hg). }
    assert (Hl : length idb = 32%nat) by (destruct Hwf as [Hh _]; unfold id_bytes in Hid; eapply hex64_bytes; eauto).
    assert (Hk : to_key IxIds (MStr (w_id e)) = KKey (primary_key_of idb)).
    { simpl. unfold bytes_from_hex. unfold id_bytes in Hid. rewrite Hid. reflexivity. }
    destruct (compile_total (map (to_key IxIds) ms)) as [cms Ec].
    assert (Hkk : In (primary_key_of idb) cms).
    { eapply compile_In; eauto. apply in_map_iff. exists (MStr (w_id e)). split; assumption. }
    destruct (conv_time_some _ Hcs) as [sb Es]. destruct (conv_time_some _ Hcu) as [ub Eu].
    rewrite (coherent_scanner_correct d IxIds ms since until ev Hc).
    + unfold scan_spec. rewrite Ec, Es, Eu.
      replace (match cms, IxIds with [], IxCreated => SOk (spec_range (keys d) (idx_prefix IxIds) sb ub) | _, _ =>
                 SOk (flat_map (spec_block (keys d) true sb ub ev) cms) end)
        with (SOk (flat_map (spec_block (keys d) true sb ub ev) cms)) by (destruct cms; reflexivity).
      eexists. split; [reflexivity|]. apply in_flat_map. exists (primary_key_of idb). split; [assumption|].
      unfold spec_block. apply in_flat_map. exists (primary_key_of idb). split.
      * apply in_rev. rewrite rev_involutive. unfold keys. apply in_map_iff. exists (primary_key_of idb, REvent e). auto.
      * assert (Hlast : last_n (primary_key_of idb) 32 = idb) by (apply (last_n_app [0%N] idb Hl)).
        assert (Heq : bytes_eqb (primary_key_of idb) (primary_key_of idb) = true) by (apply bytes_eqb_eq; reflexivity).
        rewrite Heq, Hlast, Hev. left. reflexivity.
    + intros cms' Ec'. rewrite Ec in Ec'. injection Ec' as <-. split; [|intros _; apply (Hdesc eq_refl), Ec].
      left. intros E. rewrite E in Hkk. destruct Hkk.
  - eapply timed_stage_hit; eauto.
Qed.

(* ---- the chained multi-index scan ---- *)
Lemma dedup_bytes_In x l : In x (dedup_bytes l) <-> In x l.
Proof.
  induction l as [|y r IH]; simpl; [tauto|].
  destruct (mem_bytes y r) eqn:E.
  - apply mem_bytes_In in E. rewrite IH. split; [tauto|]. intros [->|H]; auto.
  - simpl. rewrite IH. tauto.
Qed.

Lemma multi_hit d e since until idb : Coherent d -> stored d e -> id_bytes e = Some idb ->
  window_ok since until (w_created e) -> conv_ok since -> conv_ok until ->
  forall stages events,
    Forall (fun s => hit_by e s /\ fst s <> IxIds) stages ->
    (events = None -> stages <> []) -> (forall l, events = Some l -> In idb l) ->
    exists ids, multi_scanner (keys d) stages since until events = SOk ids /\ In idb ids.
Proof.
  intros Hc Hst Hid Hw Hcs Hcu. induction stages as [|[i ms] rest IH]; intros events Hf Hne Hev.
  - destruct events as [l|]; [|exfalso; apply (Hne eq_refl); reflexivity]. simpl. eauto.
  - inversion Hf as [|? ? [Hh Hi] Hf']; subst. simpl in Hi. cbn [multi_scanner].
    set (member := match events with Some l => fun x => mem_bytes x l | None => fun _ => true end).
    assert (Hm : member idb = true).
    { unfold member. destruct events as [l|]; [apply mem_bytes_In, Hev; reflexivity|reflexivity]. }
    destruct (stage_scan d e (i, ms) since until member idb Hc Hst Hid Hh Hw Hcs Hcu) as [ids [Hs Hin]].
    + simpl. intros E. congruence.
    + exact Hm.
    + simpl in Hs. rewrite Hs.
      assert (Hd : In idb (dedup_bytes ids)) by (apply dedup_bytes_In; exact Hin).
      destruct (dedup_bytes ids) as [|x r] eqn:Ed; [destruct Hd|].
      apply IH; [exact Hf'|discriminate|]. intros l El. injection El as <-. exact Hd.
Qed.

(* ---- finalize ---- *)
Lemma has_stage_ids_some l ms : has_stage IxIds l = Some ms -> In (IxIds, ms) l.
Proof.
  unfold has_stage. induction l as [|[i m] r IH]; simpl; [discriminate|].
  destruct i; simpl; try (intros H; right; apply IH; exact H).
  intros H. injection H as <-. left. reflexivity.
Qed.
Lemma has_stage_ids_none l : has_stage IxIds l = None -> Forall (fun s => fst s <> IxIds) l.
Proof.
  unfold has_stage. induction l as [|[i m] r IH]; simpl; [constructor|].
  destruct i; simpl; try discriminate; intros H; constructor; try (simpl; discriminate); apply IH; exact H.
Qed.
Lemma insert_stage_In x l y : In y (insert_stage x l) <-> y = x \/ In y l.
Proof.
  induction l as [|z r IH]; simpl; [intuition|].
  destruct (stage_key z <=? stage_key x); simpl; [intuition|]. rewrite IH. intuition.
Qed.
Lemma sort_stages_In l y : In y (sort_stages l) <-> In y l.
Proof.
  unfold sort_stages. induction l as [|x r IH]; simpl; [tauto|]. rewrite insert_stage_In, IH. intuition.
Qed.
Lemma sort_stages_nonempty l : l <> [] -> sort_stages l <> [].
Proof.
  destruct l as [|x r]; [congruence|]. intros _ E.
  assert (H : In x (sort_stages (x :: r))) by (apply sort_stages_In; left; reflexivity).
  rewrite E in H. destruct H.
Qed.

Lemma ids_stage_shape f ms : In (IxIds, ms) (plan_stages f) -> exists l, f_ids f = Some l /\ ms = map MStr l.
Proof.
  unfold plan_stages, stage_ids, stage_ak, stage_tags. intros H.
  apply in_app_or in H. destruct H as [H|H]; [|apply in_app_or in H; destruct H as [H|H]].
  - destruct (f_ids f) as [l|]; [|destruct H]. destruct H as [H|[]]. injection H as <-. eauto.
  - destruct (f_kinds f); destruct (f_authors f); simpl in H; try tauto; destruct H as [H|[]]; discriminate.
  - destruct (f_tags f); [destruct H|]. destruct H as [H|[]]. discriminate.
Qed.

(* ---- the plan of a filter finds every stored event its residual accepts ---- *)
Theorem plan_hit dl mx d f p e idb :
  Coherent d -> wf_filter f -> ids_desc f -> plan_one dl mx f = Some p ->
  stored d e -> id_bytes e = Some idb -> residual (plan_items f) e = true ->
  exists ids, scan_plan (keys d) p = SOk ids /\ In idb ids.
Proof.
  intros Hc Hwf Hdesc Hp Hst Hid Hr.
  assert (Hsw : stored_wf e).
  { destruct (stored_get d e Hc Hst) as [i [Hi Hg]]. apply (coherent_primary d i e Hc Hg). }
  destruct Hsw as [Hh [Hpk _]].
  pose proof (stages_hit f e Hwf Hh Hpk Hr) as Hhit.
  assert (Hw : window_ok (f_since f) (f_until f) (w_created e)).
  { rewrite residual_items in Hr. apply andb_true_iff in Hr. destruct Hr as [H1 Hr].
    apply andb_true_iff in Hr. destruct Hr as [H2 _]. destruct Hwf as [_ [_ [_ [Rs Ru]]]].
    split; intros z E; rewrite E in *; [split; [apply Rs; reflexivity|lia]|split; [apply Ru; reflexivity|lia]]. }
  assert (Hcs : conv_ok (f_since f)) by (destruct Hwf as [_ [_ [_ [Rs _]]]]; exact Rs).
  assert (Hcu : conv_ok (f_until f)) by (destruct Hwf as [_ [_ [_ [_ Ru]]]]; exact Ru).
  assert (Hq : p = mk_plan dl mx f).
  { unfold plan_one in Hp. destruct (skipped f); [discriminate|].
    destruct (plan_stages f); [destruct (_ || _); [|discriminate]|]; injection Hp as <-; reflexivity. }
  subst p. unfold scan_plan, mk_plan. cbn [p_index p_since p_until].
  assert (Hdesc' : forall s, In s (plan_stages f) -> fst s = IxIds ->
                             forall cms, compile (map (to_key IxIds) (snd s)) = Some cms -> Desc cms).
  { intros [i ms] Hin Hi cms Ec. simpl in *. subst i. destruct (ids_stage_shape f ms Hin) as [l [El ->]]. eapply Hdesc; eauto. }
  unfold finalize. destruct (plan_stages f) as [|s1 [|s2 rest]] eqn:Est.
  - apply (range_hit d e); auto.
  - inversion Hhit; subst. apply (stage_scan d e s1); auto. apply Hdesc'. left. reflexivity.
  - destruct (has_stage IxIds (s1 :: s2 :: rest)) as [ms|] eqn:Eh.
    + apply has_stage_ids_some in Eh.
      rewrite Forall_forall in Hhit. pose proof (Hhit _ Eh) as Hs.
      apply (stage_scan d e (IxIds, ms)); auto. apply (Hdesc' _ Eh).
    + apply has_stage_ids_none in Eh.
      apply (multi_hit d e); auto.
      * apply Forall_forall. intros s Hs. apply (proj1 (sort_stages_In _ _)) in Hs. rewrite Forall_forall in Hhit. rewrite Forall_forall in Eh. split; [apply Hhit, Hs|apply Eh, Hs].
      * intros _. apply sort_stages_nonempty. discriminate.
      * intros l El. discriminate.
Qed.
