(* C11 on the LMDB backend: when no limit truncates, the answer of a filter's plan is exactly the set of
   stored events accepted by a store-independent predicate P_kv (the residual of the filter; false when the
   planner skips or refuses the filter), with must_match -> P_kv -> may_match.  Corollaries: (1) adding or
   removing events that cannot match leaves the answer unchanged, whatever their position in key order;
   (2) adding a condition / shrinking the window / removing a value never adds results; (3) the answer
   to a multi-valued condition is the union of the answers to its single values. *)
From NR Require Import Lib.Base Lib.BaseFacts Lib.Nip01 KVM.Engine KVM.Keys KVM.Scan KVM.Order
  KVM.Coherent KVM.Plan KVM.Match KVM.Exec KVM.Spec KVM.Proofs_Match KVM.Proofs_Exec KVM.Proofs_Hit KVM.Thm_C01 KVM.Thm_C02.
From Coq Require Import ZifyBool.
Open Scope list_scope. Open Scope Z_scope.

Definition P_kv (f : filter) (e : wevent) : bool :=
  negb (skipped f) && negb (range_scan_refused f) && residual (plan_items f) e.

Lemma plan_one_some dl mx f p : plan_one dl mx f = Some p -> skipped f = false /\ range_scan_refused f = false.
Proof.
  unfold plan_one, range_scan_refused, no_index_filter, plan_stages, stage_ids, stage_ak, stage_tags.
  destruct (skipped f); [discriminate|]. intros H. split; [reflexivity|].
  destruct (f_ids f); [reflexivity|]. destruct (f_kinds f); destruct (f_authors f); try reflexivity.
  destruct (f_tags f); [|reflexivity]. simpl in *.
  change (truthy (f_since f)) with (nonzero (f_since f)) in H. change (truthy (f_until f)) with (nonzero (f_until f)) in H.
  destruct (nonzero (f_since f) || nonzero (f_until f)); [reflexivity|discriminate].
Qed.

Theorem P_kv_may_match f e : wf_filter f -> hex64 (w_id e) = true -> hex64 (w_pubkey e) = true ->
  P_kv f e = true -> may_match f e = true.
Proof.
  intros Hwf Hh Hpk H. unfold P_kv in H. apply andb_true_iff in H. destruct H as [_ H]. apply residual_may_match; auto.
Qed.
Theorem must_match_P_kv f e : wf_filter f -> hex64 (w_id e) = true -> hex64 (w_pubkey e) = true -> tags_ok e ->
  must_match f e = true -> delegator_only_match f e = false -> range_scan_refused f = false -> P_kv f e = true.
Proof.
  intros Hwf Hh Hpk Ht Hm Hd Hr. unfold P_kv. rewrite (must_match_not_skipped f e Hm), Hr. simpl.
  apply must_match_residual; auto.
Qed.

(* the answer is exactly the stored events that P_kv accepts *)
Theorem answer_exact_kv dl mx d f p :
  Coherent d -> wf_filter f -> ids_desc f -> plan_one dl mx f = Some p ->
  (forall n, p_limit p = Some n -> at_most d (may_match f) n) ->
  forall e, In e (execute_one_plan d p) <-> (stored d e /\ P_kv f e = true).
Proof.
  intros Hc Hwf Hdesc Hp Hlim e. destruct (plan_one_some _ _ _ _ Hp) as [Hsk Href].
  unfold P_kv. rewrite Hsk, Href. simpl. split.
  - intros H. destruct (exec_sound _ _ _ H) as [i [Hg Hr]].
    destruct (coherent_primary d i e Hc Hg) as [_ [Hst _]]. split; [exact Hst|].
    rewrite (plan_one_query _ _ _ _ Hp) in Hr. exact Hr.
  - intros [Hst Hr]. apply (kv_plan_complete dl mx d f p e Hc Hwf Hdesc Hp Hlim Hst Hr).
Qed.
Theorem answer_nodup_kv d p : Coherent d -> NoDup (map w_id (execute_one_plan d p)).
Proof. exact (exec_nodup d p). Qed.
(* a filter the planner skips or refuses is answered with nothing *)
Theorem answer_none_kv dl mx d f : plan_one dl mx f = None -> answer_kv dl mx d [f] = [].
Proof. intros H. unfold answer_kv, executor, planner. simpl. rewrite H. reflexivity. Qed.

(* (1) frame: stores that agree on the events that may match give the same answer *)
Theorem C11_kv_frame dl mx d1 d2 f p :
  Coherent d1 -> Coherent d2 -> wf_filter f -> ids_desc f -> plan_one dl mx f = Some p ->
  (forall n, p_limit p = Some n -> at_most d1 (may_match f) n) ->
  (forall n, p_limit p = Some n -> at_most d2 (may_match f) n) ->
  (forall e, may_match f e = true -> (stored d1 e <-> stored d2 e)) ->
  forall e, In e (execute_one_plan d1 p) <-> In e (execute_one_plan d2 p).
Proof.
  intros Hc1 Hc2 Hwf Hdesc Hp Hl1 Hl2 Hsame e.
  rewrite (answer_exact_kv dl mx d1 f p Hc1 Hwf Hdesc Hp Hl1 e), (answer_exact_kv dl mx d2 f p Hc2 Hwf Hdesc Hp Hl2 e).
  assert (Hwfe : forall d, Coherent d -> stored d e -> hex64 (w_id e) = true /\ hex64 (w_pubkey e) = true).
  { intros d Hc Hst. destruct (stored_get d e Hc Hst) as [i [Hi Hg]]. destruct (coherent_primary d i e Hc Hg) as [_ [_ [Hh [Hpk _]]]]. auto. }
  split; intros [Hst HP]; (split; [|exact HP]).
  - destruct (Hwfe d1 Hc1 Hst) as [Hh Hpk]. apply (Hsame e (P_kv_may_match f e Hwf Hh Hpk HP)). exact Hst.
  - destruct (Hwfe d2 Hc2 Hst) as [Hh Hpk]. apply (Hsame e (P_kv_may_match f e Hwf Hh Hpk HP)). exact Hst.
Qed.

(* (2) monotone in the filter *)
Definition opt_sub {A} (o' o : option (list A)) : Prop :=
  match o with None => True | Some l => exists l', o' = Some l' /\ incl l' l end.
Definition refines (f' f : filter) : Prop :=
  opt_sub (f_ids f') (f_ids f) /\ opt_sub (f_authors f') (f_authors f) /\ opt_sub (f_kinds f') (f_kinds f) /\
  (forall s, f_since f = Some s -> exists s', f_since f' = Some s' /\ s <= s') /\
  (forall u, f_until f = Some u -> exists u', f_until f' = Some u' /\ u' <= u) /\
  (forall n vs, In (n, vs) (f_tags f) -> exists vs', In (n, vs') (f_tags f') /\ incl vs' vs).

Lemma mem_str_incl x l' l : incl l' l -> mem_str x l' = true -> mem_str x l = true.
Proof. intros Hi H. apply mem_str_In. apply Hi. apply mem_str_In. exact H. Qed.
Lemma tag_clause_incl tags n vs' vs : incl vs' vs -> tag_clause tags n vs' = true -> tag_clause tags n vs = true.
Proof.
  unfold tag_clause. destruct (existsb _ tags); [auto|]. intros Hi H.
  apply existsb_exists in H. destruct H as [t [Hin Ht]]. apply existsb_exists. exists t. split; [assumption|].
  destruct t as [|a [|b c]]; try discriminate. apply andb_true_iff in Ht. destruct Ht as [H1 H2].
  rewrite H1. simpl. eapply mem_str_incl; eauto.
Qed.

Lemma refines_residual f' f e : refines f' f -> wf_filter f' -> wf_filter f ->
  hex64 (w_id e) = true -> hex64 (w_pubkey e) = true ->
  residual (plan_items f') e = true -> residual (plan_items f) e = true.
Proof.
  intros [Ri [Ra [Rk [Rs [Ru Rt]]]]] [Wi' [Wa' _]] [Wi [Wa _]] Hh Hpk H. rewrite residual_items in *.
  repeat (apply andb_true_iff in H; destruct H as [? H]).
  repeat (apply andb_true_iff; split).
  - destruct (f_since f) as [s|]; [|reflexivity]. destruct (Rs s eq_refl) as [s' [E Hle]]. rewrite E in *. lia.
  - destruct (f_until f) as [u|]; [|reflexivity]. destruct (Ru u eq_refl) as [u' [E Hle]]. rewrite E in *. lia.
  - unfold opt_sub in Ri. destruct (f_ids f) as [l|]; [|reflexivity]. destruct Ri as [l' [E Hi]]. rewrite E in *.
    rewrite (hex_clause_mem _ l (hex64_length _ Hh) (Wi l eq_refl)).
    rewrite (hex_clause_mem _ l' (hex64_length _ Hh) (Wi' l' eq_refl)) in *. eapply mem_str_incl; eauto.
  - unfold opt_sub in Rk. destruct (f_kinds f) as [l|]; [|reflexivity]. destruct Rk as [l' [E Hi]]. rewrite E in *.
    apply mem_Z_In. apply Hi. apply mem_Z_In. assumption.
  - unfold opt_sub in Ra. destruct (f_authors f) as [l|]; [|reflexivity]. destruct Ra as [l' [E Hi]]. rewrite E in *.
    rewrite (hex_clause_mem _ l (hex64_length _ Hpk) (Wa l eq_refl)).
    rewrite (hex_clause_mem _ l' (hex64_length _ Hpk) (Wa' l' eq_refl)) in *. eapply mem_str_incl; eauto.
  - apply forallb_forall. intros [n vs] Hin. destruct (Rt n vs Hin) as [vs' [Hin' Hi]].
    rewrite forallb_forall in H. specialize (H (n, vs') Hin'). simpl in *. eapply tag_clause_incl; eauto.
Qed.

Lemma refines_skipped f' f : refines f' f -> skipped f = true -> skipped f' = true.
Proof.
  intros [Ri [Ra [Rk [_ [_ Rt]]]]]. unfold skipped, is_empty_list, opt_sub in *. intros H.
  apply orb_true_iff in H. destruct H as [H|H]; [apply orb_true_iff in H; destruct H as [H|H]; [apply orb_true_iff in H; destruct H as [H|H]|]|].
  - destruct (f_ids f) as [[|? ?]|]; try discriminate. destruct Ri as [l' [-> Hi]].
    destruct l' as [|x l']; [reflexivity|]. exfalso. apply (Hi x). left. reflexivity.
  - destruct (f_kinds f) as [[|? ?]|]; try discriminate. destruct Rk as [l' [-> Hi]].
    destruct l' as [|x l']; [rewrite !orb_true_r; reflexivity|]. exfalso. apply (Hi x). left. reflexivity.
  - destruct (f_authors f) as [[|? ?]|]; try discriminate. destruct Ra as [l' [-> Hi]].
    destruct l' as [|x l']; [rewrite !orb_true_r; reflexivity|]. exfalso. apply (Hi x). left. reflexivity.
  - apply existsb_exists in H. destruct H as [[n vs] [Hin Hv]]. simpl in Hv. destruct vs; [|discriminate].
    destruct (Rt n [] Hin) as [vs' [Hin' Hi]]. apply orb_true_iff. right. apply existsb_exists. exists (n, vs'). split; [assumption|].
    simpl. destruct vs' as [|x vs']; [reflexivity|]. exfalso. apply (Hi x). left. reflexivity.
Qed.

Theorem C11_kv_monotone_partial dl mx d f' f p' :
  Coherent d -> wf_filter f' -> wf_filter f -> ids_desc f -> refines f' f ->
  range_scan_refused f = false ->
  plan_one dl mx f' = Some p' ->
  exists p, plan_one dl mx f = Some p /\
    ((forall n, p_limit p = Some n -> at_most d (may_match f) n) ->
     forall e, In e (execute_one_plan d p') -> In e (execute_one_plan d p)).
Proof.
  intros Hc Hwf' Hwf Hdesc Href Hrange Hp'.
  destruct (plan_one_some _ _ _ _ Hp') as [Hsk' _].
  assert (Hsk : skipped f = false).
  { destruct (skipped f) eqn:E; [|reflexivity]. rewrite (refines_skipped f' f Href E) in Hsk'. discriminate. }
  destruct (plan_exists dl mx f Hsk Hrange) as [p Hp]. exists p. split; [exact Hp|].
  intros Hlim e He. destruct (exec_sound _ _ _ He) as [i [Hg Hr]].
  destruct (coherent_primary d i e Hc Hg) as [_ [Hst [Hh [Hpk _]]]].
  rewrite (plan_one_query _ _ _ _ Hp') in Hr.
  apply (kv_plan_complete dl mx d f p e Hc Hwf Hdesc Hp Hlim Hst).
  eapply refines_residual; eauto.
Qed.

(* (3) a multi-valued condition is the union of its single values (at the level of P_kv, hence of answers) *)
Definition set_kinds (f : filter) (l : list Z) : filter :=
  {| f_ids := f_ids f; f_authors := f_authors f; f_kinds := Some l; f_since := f_since f; f_until := f_until f;
     f_limit := f_limit f; f_tags := f_tags f |}.
Definition set_ids (f : filter) (l : list pystr) : filter :=
  {| f_ids := Some l; f_authors := f_authors f; f_kinds := f_kinds f; f_since := f_since f; f_until := f_until f;
     f_limit := f_limit f; f_tags := f_tags f |}.
Definition set_authors (f : filter) (l : list pystr) : filter :=
  {| f_ids := f_ids f; f_authors := Some l; f_kinds := f_kinds f; f_since := f_since f; f_until := f_until f;
     f_limit := f_limit f; f_tags := f_tags f |}.
Definition set_tags (f : filter) (t : list (pystr * list pystr)) : filter :=
  {| f_ids := f_ids f; f_authors := f_authors f; f_kinds := f_kinds f; f_since := f_since f; f_until := f_until f;
     f_limit := f_limit f; f_tags := t |}.

Lemma existsb_ext' {A} (g h : A -> bool) l : (forall x, g x = h x) -> existsb g l = existsb h l.
Proof. intros H. induction l as [|x r IH]; simpl; [reflexivity|]. rewrite H, IH. reflexivity. Qed.
Lemma union_shape {A} (p q : bool) (t : A -> bool) l :
  p && (existsb t l && q) = existsb (fun k => p && (t k && q)) l.
Proof.
  induction l as [|k r IH]; simpl; [destruct p; reflexivity|]. rewrite <- IH.
  destruct p, (t k), q; simpl; rewrite ?andb_false_r; reflexivity.
Qed.

(* kinds *)
Theorem residual_union_kinds f l e : f_kinds f = Some l ->
  residual (plan_items f) e = existsb (fun k => residual (plan_items (set_kinds f [k])) e) l.
Proof.
  intros E. rewrite residual_items, E.
  rewrite (existsb_ext' _ (fun k =>
    (match f_since f with Some z => z <=? w_created e | None => true end &&
     (match f_until f with Some z => w_created e <=? z | None => true end &&
      match f_ids f with Some l => hex_clause (w_id e) l | None => true end)) &&
    ((w_kind e =? k) &&
     (match f_authors f with Some l => hex_clause (w_pubkey e) l | None => true end &&
      forallb (fun nv => tag_clause (w_tags e) (fst nv) (snd nv)) (f_tags f))))).
  - rewrite <- union_shape. unfold mem_Z. rewrite <- !andb_assoc. reflexivity.
  - intros k. rewrite residual_items. simpl. rewrite orb_false_r, <- !andb_assoc. reflexivity.
Qed.

(* the values of one tag condition *)
Lemma tag_clause_true_iff tags n vs : tag_clause tags n vs = true <->
  (existsb (fun t : list pystr => match t with [] => true | _ => false end) tags = false /\
   exists a b c, In (a :: b :: c) tags /\ a = n /\ In b vs).
Proof.
  unfold tag_clause. destruct (existsb (fun t => match t with [] => true | _ => false end) tags).
  - split; [discriminate|intros [H _]; discriminate].
  - rewrite existsb_exists. split.
    + intros [t [Hin Ht]]. split; [reflexivity|]. destruct t as [|a [|b c]]; try discriminate.
      apply andb_true_iff in Ht. destruct Ht as [H1 H2]. apply str_eqb_eq in H1. apply mem_str_In in H2. eauto 8.
    + intros [_ [a [b [c [Hin [-> Hb]]]]]]. exists (n :: b :: c). split; [assumption|].
      rewrite str_eqb_refl. simpl. apply mem_str_In. assumption.
Qed.
Theorem tag_clause_union tags n vs : tag_clause tags n vs = existsb (fun v => tag_clause tags n [v]) vs.
Proof.
  apply Bool.eq_iff_eq_true. rewrite tag_clause_true_iff, existsb_exists. split.
  - intros [He [a [b [c [Hin [Ha Hb]]]]]]. exists b. split; [assumption|]. apply tag_clause_true_iff.
    split; [assumption|]. exists a, b, c. repeat split; auto. left. reflexivity.
  - intros [v [Hv H]]. apply tag_clause_true_iff in H. destruct H as [He [a [b [c [Hin [Ha [Hb|[]]]]]]]]. subst v.
    split; [assumption|]. eauto 8.
Qed.

(* ids / authors: for a stored event (64-digit fields) and validated values the clause is membership *)
Theorem hex_clause_union field vals : length field = 64%nat -> Forall (fun v => (64 <= length v)%nat) vals ->
  hex_clause field vals = existsb (fun v => hex_clause field [v]) vals.
Proof.
  intros Hf Hv. rewrite (hex_clause_mem field vals Hf Hv).
  induction vals as [|v r IH]; [reflexivity|]. inversion Hv; subst.
  cbn [existsb]. rewrite <- IH by assumption.
  assert (E : hex_clause field [v] = mem_str field [v]) by (apply hex_clause_mem; [assumption|constructor; [assumption|constructor]]).
  unfold pystr, cp in *. rewrite E.
  unfold mem_str. simpl. rewrite orb_false_r. reflexivity.
Qed.

(* (3) at the level of answers, for the kinds condition (ids / authors / one tag's values: same argument
   from hex_clause_union / tag_clause_union) *)
Lemma skipped_set_kinds f l k : f_kinds f = Some l -> skipped f = false -> skipped (set_kinds f [k]) = false.
Proof.
  unfold skipped, is_empty_list. simpl. intros E H. rewrite E in H.
  destruct (f_ids f) as [[|? ?]|]; destruct l; destruct (f_authors f) as [[|? ?]|]; simpl in *; try discriminate; auto.
Qed.
Lemma refused_set_kinds f k : range_scan_refused (set_kinds f [k]) = false.
Proof. unfold range_scan_refused, no_index_filter. simpl. destruct (f_ids f); reflexivity. Qed.
Lemma may_match_set_kinds f l k e : f_kinds f = Some l -> In k l -> may_match (set_kinds f [k]) e = true -> may_match f e = true.
Proof.
  intros E Hk. unfold may_match, core_match. simpl. rewrite E. unfold in_opt_Z, mem_Z. simpl. rewrite orb_false_r.
  intros H. repeat (apply andb_true_iff in H; destruct H as [H ?]).
  repeat (apply andb_true_iff; split); auto.
  apply existsb_exists. exists k. split; assumption.
Qed.

Lemma plan_one_mk dl mx f p : plan_one dl mx f = Some p -> p = mk_plan dl mx f.
Proof.
  unfold plan_one. destruct (skipped f); [discriminate|].
  destruct (plan_stages f); [destruct (_ || _); [|discriminate]|]; intros H; injection H as <-; reflexivity.
Qed.

Theorem C11_kv_union_kinds dl mx d f l p :
  Coherent d -> wf_filter f -> ids_desc f -> f_kinds f = Some l -> plan_one dl mx f = Some p ->
  (forall n, p_limit p = Some n -> at_most d (may_match f) n) ->
  forall e, In e (execute_one_plan d p) <->
            exists k pk, In k l /\ plan_one dl mx (set_kinds f [k]) = Some pk /\ In e (execute_one_plan d pk).
Proof.
  intros Hc Hwf Hdesc El Hp Hlim e. destruct (plan_one_some _ _ _ _ Hp) as [Hsk Href].
  assert (Hplans : forall k, exists pk, plan_one dl mx (set_kinds f [k]) = Some pk /\ p_limit pk = p_limit p).
  { intros k. destruct (plan_exists dl mx _ (skipped_set_kinds f l k El Hsk) (refused_set_kinds f k)) as [pk Hpk].
    exists pk. split; [exact Hpk|].
    rewrite (plan_one_mk _ _ _ _ Hpk), (plan_one_mk _ _ _ _ Hp). reflexivity. }
  assert (Hwfk : forall k, wf_filter (set_kinds f [k])) by (intros k; exact Hwf).
  assert (Hdk : forall k, ids_desc (set_kinds f [k])) by (intros k; exact Hdesc).
  assert (Hlk : forall k pk, In k l -> p_limit pk = p_limit p -> forall n, p_limit pk = Some n -> at_most d (may_match (set_kinds f [k])) n).
  { intros k pk Hk Elim n En. rewrite Elim in En. intros l' Hn Hall. apply (Hlim n En l' Hn).
    intros x Hx. destruct (Hall x Hx) as [Hst Hm]. split; [exact Hst|]. eapply may_match_set_kinds; eauto. }
  rewrite (answer_exact_kv dl mx d f p Hc Hwf Hdesc Hp Hlim e).
  unfold P_kv at 1. rewrite Hsk, Href. simpl. rewrite (residual_union_kinds f l e El), existsb_exists. split.
  - intros [Hst [k [Hk Hr]]]. destruct (Hplans k) as [pk [Hpk Elim]]. exists k, pk. repeat split; auto.
    apply (answer_exact_kv dl mx d _ pk Hc (Hwfk k) (Hdk k) Hpk (Hlk k pk Hk Elim) e). split; [exact Hst|].
    unfold P_kv. rewrite (skipped_set_kinds f l k El Hsk), (refused_set_kinds f k). exact Hr.
  - intros [k [pk [Hk [Hpk He]]]]. destruct (Hplans k) as [pk' [Hpk' Elim]]. rewrite Hpk in Hpk'. injection Hpk' as <-.
    apply (answer_exact_kv dl mx d _ pk Hc (Hwfk k) (Hdk k) Hpk (Hlk k pk Hk Elim) e) in He. destruct He as [Hst HP].
    split; [exact Hst|]. exists k. split; [exact Hk|].
    unfold P_kv in HP. rewrite (skipped_set_kinds f l k El Hsk), (refused_set_kinds f k) in HP. exact HP.
Qed.
