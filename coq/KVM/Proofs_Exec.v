(* matcher / limit / execute_one_plan: what comes out is a stored record accepted by the residual,
   once per id; what the scanner found and the residual accepts comes out unless the limit cuts. *)
From NR Require Import Lib.Base Lib.BaseFacts Lib.Nip01 KVM.Engine KVM.Keys KVM.Scan KVM.ScanSpec KVM.Order
  KVM.Coherent KVM.Plan KVM.Match KVM.Exec KVM.Proofs_Cursor KVM.Proofs_Scan KVM.Proofs_Blocks KVM.Proofs_ScanCorrect
  KVM.Proofs_ScanTop KVM.Proofs_Coherent.
From Coq Require Import ZifyBool Sorting.Sorted.
Open Scope list_scope. Open Scope Z_scope.

Definition stored (d : kvdb) (e : wevent) : Prop := exists pk, primary_key e = Some pk /\ In (pk, REvent e) d.

(* ---- engine get ---- *)
Lemma get_In {V} (d : @db V) k v : get k d = Some v -> In (k, v) d.
Proof.
  induction d as [|[k' v'] r IH]; simpl; [discriminate|].
  destruct (lex_cmp k k') eqn:E; try discriminate.
  - apply lex_cmp_eq in E. subst. intros H. injection H as <-. left. reflexivity.
  - intros H. right. auto.
Qed.
Lemma get_of_In {V} (d : @db V) k v : StrictSorted (keys d) -> In (k, v) d -> get k d = Some v.
Proof.
  induction d as [|[k' v'] r IH]; simpl; intros Hs Hin; [destruct Hin|].
  apply sorted_inv in Hs. destruct Hs as [Hs Hf].
  destruct Hin as [E|Hin].
  - injection E as -> ->. rewrite lex_cmp_refl. reflexivity.
  - assert (Hlt : lex_cmp k' k = Lt).
    { rewrite Forall_forall in Hf. apply Hf. unfold keys. apply in_map_iff. exists (k, v). auto. }
    apply lex_lt_gt in Hlt. rewrite Hlt. auto.
Qed.

Lemma mem_bytes_In x l : mem_bytes x l = true <-> In x l.
Proof.
  unfold mem_bytes. rewrite existsb_exists. split.
  - intros [y [Hy E]]. apply bytes_eqb_eq in E. subst. assumption.
  - intros H. exists x. split; [assumption|apply bytes_eqb_eq; reflexivity].
Qed.
Lemma mem_bytes_not_In x l : mem_bytes x l = false <-> ~ In x l.
Proof. rewrite <- mem_bytes_In. destruct (mem_bytes x l); split; congruence. Qed.

(* ---- limit ---- *)
Lemma take_z_prefix {A} (l : list A) : forall n, exists r, l = take_z n l ++ r.
Proof.
  induction l as [|x l IH]; intros n; simpl; [exists []; reflexivity|].
  destruct (n <=? 0); [exists (x :: l); reflexivity|]. destruct (IH (n - 1)) as [r Hr]. exists r. simpl. f_equal. exact Hr.
Qed.
Lemma take_z_incl {A} n (l : list A) x : In x (take_z n l) -> In x l.
Proof. destruct (take_z_prefix l n) as [r Hr]. intros H. rewrite Hr. apply in_or_app. left. exact H. Qed.
Lemma take_z_all {A} (l : list A) : forall n, Z.of_nat (length l) <= n -> take_z n l = l.
Proof.
  induction l as [|x l IH]; intros n H; simpl; [reflexivity|].
  simpl length in H. destruct (n <=? 0) eqn:E; [lia|]. f_equal. apply IH. lia.
Qed.
Lemma take_z_length {A} (l : list A) : forall n, 0 <= n -> Z.of_nat (length (take_z n l)) <= n.
Proof.
  induction l as [|x l IH]; intros n H; simpl; [lia|].
  destruct (n <=? 0) eqn:E; simpl; [lia|]. specialize (IH (n - 1)). lia.
Qed.
Lemma take_limit_incl {A} lim (l : list A) x : In x (take_limit lim l) -> In x l.
Proof. destruct lim; simpl; [apply take_z_incl|auto]. Qed.
Lemma take_limit_prefix {A} lim (l : list A) : exists r, l = take_limit lim l ++ r.
Proof. destruct lim; simpl; [apply take_z_prefix|exists []; symmetry; apply app_nil_r]. Qed.
Definition not_truncated {A} (lim : option Z) (l : list A) : Prop :=
  match lim with None => True | Some n => Z.of_nat (length l) <= n end.
Lemma take_limit_all {A} lim (l : list A) : not_truncated lim l -> take_limit lim l = l.
Proof. destruct lim; simpl; [apply take_z_all|reflexivity]. Qed.

Lemma NoDup_app_l {A} (a b : list A) : NoDup (a ++ b) -> NoDup a.
Proof.
  induction a as [|x a IH]; intros H; [constructor|]. simpl in H. inversion H; subst.
  constructor; [|auto]. intros Hin. apply H2. apply in_or_app. left. assumption.
Qed.

(* ---- matcher ---- *)
Lemma matcher_sound d q : forall ids seen e, In e (matcher d q ids seen) ->
  exists i, In i ids /\ get (primary_key_of i) d = Some (REvent e) /\ residual q e = true.
Proof.
  induction ids as [|j r IH]; intros seen e H; simpl in H; [destruct H|].
  destruct (mem_bytes j seen).
  - destruct (IH _ _ H) as [i [Hi Hr]]. exists i. split; [right; assumption|assumption].
  - destruct (get (primary_key_of j) d) as [[|e']|] eqn:Eg.
    + destruct H.
    + destruct (residual q e') eqn:Er.
      * destruct H as [<-|H]; [exists j; repeat split; auto; left; reflexivity|].
        destruct (IH _ _ H) as [i [Hi Hr]]. exists i. split; [right; assumption|assumption].
      * destruct (IH _ _ H) as [i [Hi Hr]]. exists i. split; [right; assumption|assumption].
    + destruct (IH _ _ H) as [i [Hi Hr]]. exists i. split; [right; assumption|assumption].
Qed.

Lemma matcher_complete d q : forall ids seen i e,
  (forall j, In j ids -> get (primary_key_of j) d <> Some RIndex) ->
  In i ids -> ~ In i seen -> get (primary_key_of i) d = Some (REvent e) -> residual q e = true ->
  In e (matcher d q ids seen).
Proof.
  induction ids as [|j r IH]; intros seen i e Hno Hin Hseen Hg Hr; [destruct Hin|]. simpl.
  assert (Hno' : forall j0, In j0 r -> get (primary_key_of j0) d <> Some RIndex) by (intros; apply Hno; right; assumption).
  destruct (mem_bytes j seen) eqn:Em.
  - apply mem_bytes_In in Em. destruct Hin as [->|Hin]; [contradiction|]. eapply IH; eauto.
  - destruct Hin as [->|Hin].
    + rewrite Hg, Hr. left. reflexivity.
    + destruct (list_eq_dec N.eq_dec i j) as [->|Hne].
      * rewrite Hg, Hr. left. reflexivity.
      * assert (Hs' : ~ In i (j :: seen)) by (intros [E|E]; [congruence|contradiction]).
        destruct (get (primary_key_of j) d) as [[|e']|] eqn:Eg.
        -- exfalso. apply (Hno j); [left; reflexivity|assumption].
        -- destruct (residual q e'); [right|]; eapply IH; eauto.
        -- eapply IH; eauto.
Qed.

Lemma matcher_nodup d q :
  (forall i e, get (primary_key_of i) d = Some (REvent e) -> id_bytes e = Some i) ->
  forall ids seen,
    NoDup (map w_id (matcher d q ids seen)) /\
    (forall e, In e (matcher d q ids seen) -> exists i, id_bytes e = Some i /\ ~ In i seen).
Proof.
  intros Hid. induction ids as [|j r IH]; intros seen; simpl; [split; [constructor|intros e []]|].
  destruct (mem_bytes j seen) eqn:Em; [apply IH|]. apply mem_bytes_not_In in Em.
  assert (Hweak : forall e, In e (matcher d q r (j :: seen)) -> exists i, id_bytes e = Some i /\ ~ In i seen).
  { intros e He. destruct (proj2 (IH (j :: seen)) e He) as [i [Hi Hn]]. exists i. split; [assumption|].
    intros Hin. apply Hn. right. assumption. }
  destruct (get (primary_key_of j) d) as [[|e']|] eqn:Eg.
  - split; [constructor|intros e []].
  - destruct (residual q e').
    + split.
      * simpl. constructor; [|apply IH]. intros Hin. apply in_map_iff in Hin. destruct Hin as [e2 [Hw He2]].
        destruct (proj2 (IH (j :: seen)) e2 He2) as [i [Hi Hn]].
        pose proof (Hid _ _ Eg) as Hj. unfold id_bytes in *. rewrite Hw, Hj in Hi. injection Hi as <-.
        apply Hn. left. reflexivity.
      * intros e [<-|He]; [exists j; split; [apply (Hid _ _ Eg)|assumption]|apply Hweak, He].
    + split; [apply IH|exact Hweak].
  - split; [apply IH|exact Hweak].
Qed.

(* ---- what coherence gives about primary records ---- *)
Lemma coherent_primary d i e : Coherent d -> get (primary_key_of i) d = Some (REvent e) ->
  id_bytes e = Some i /\ stored d e /\ stored_wf e.
Proof.
  intros [_ [_ [Hk _]]] Hg. apply get_In in Hg.
  destruct (Hk _ _ Hg) as [Hb|[[e' [He' [Hp Hw]]]|[Hb _]]]; [discriminate| |discriminate].
  injection He' as <-. split; [|split; [|exact Hw]].
  - unfold primary_key in Hp. destruct (id_bytes e); [|discriminate]. simpl in Hp. injection Hp as ->. reflexivity.
  - exists (primary_key_of i). auto.
Qed.
Lemma coherent_primary_not_index d i : Coherent d -> get (primary_key_of i) d <> Some RIndex.
Proof.
  intros Hc Hg. apply get_In in Hg.
  assert (Hin : In (primary_key_of i) (keys d)) by (unfold keys; apply in_map_iff; exists (primary_key_of i, RIndex); auto).
  destruct Hc as [_ [_ [Hk _]]].
  destruct (Hk _ _ Hg) as [Hb|[[e' [He' _]]|[_ [e [pk [es [_ [_ [Hes Hin']]]]]]]]]; [discriminate|discriminate|].
  destruct (index_entries_is_entry _ _ _ Hes Hin') as [i' [m [kk [ct [idb [Him [Hkk [_ [_ E]]]]]]]]].
  destruct (entry_first_byte i' m kk ct idb Hkk) as [r Hr]. rewrite Hr in E. unfold primary_key_of in E.
  injection E as E _. destruct i'; try discriminate. eapply in_index_matches_not_ids; eauto.
Qed.
Lemma stored_get d e : Coherent d -> stored d e -> exists i, id_bytes e = Some i /\ get (primary_key_of i) d = Some (REvent e).
Proof.
  intros Hc [pk [Hp Hin]]. unfold primary_key in Hp. destruct (id_bytes e) as [i|]; [|discriminate].
  simpl in Hp. injection Hp as <-. exists i. split; [reflexivity|]. apply get_of_In; [apply Hc|assumption].
Qed.

(* ---- execute_one_plan ---- *)
Theorem exec_sound d p e : In e (execute_one_plan d p) ->
  exists i, get (primary_key_of i) d = Some (REvent e) /\ residual (p_query p) e = true.
Proof.
  unfold execute_one_plan. destruct (scan_plan (keys d) p) as [ids| |]; try (intros []).
  intros H. apply take_limit_incl in H. destruct (matcher_sound _ _ _ _ _ H) as [i [_ Hr]]. eauto.
Qed.

Theorem exec_nodup d p : Coherent d -> NoDup (map w_id (execute_one_plan d p)).
Proof.
  intros Hc. unfold execute_one_plan. destruct (scan_plan (keys d) p) as [ids| |]; try constructor.
  destruct (take_limit_prefix (p_limit p) (matcher d (p_query p) ids [])) as [r Hr].
  pose proof (proj1 (matcher_nodup d (p_query p) (fun i e H => proj1 (coherent_primary d i e Hc H)) ids [])) as Hn.
  rewrite Hr, map_app in Hn. apply NoDup_app_l in Hn. exact Hn.
Qed.

Theorem exec_complete d p ids i e : Coherent d ->
  scan_plan (keys d) p = SOk ids -> In i ids -> get (primary_key_of i) d = Some (REvent e) ->
  residual (p_query p) e = true -> not_truncated (p_limit p) (matcher d (p_query p) ids []) ->
  In e (execute_one_plan d p).
Proof.
  intros Hc Hs Hin Hg Hr Hnt. unfold execute_one_plan. rewrite Hs, (take_limit_all _ _ Hnt).
  eapply matcher_complete; eauto. intros j _. apply coherent_primary_not_index, Hc.
Qed.
