(* The residual predicate kv.compile_match_from_query builds (and exec-compiles) from
   plan.query, as a function of the decoded primary record.  A clause that raises makes
   check() return None, i.e. no match; the clauses are and-ed in set order, so the result is
   "every clause evaluates to True without raising", independent of that order. *)
From NR Require Import Lib.Base Lib.Nip01 KVM.Plan.
Open Scope list_scope. Open Scope Z_scope.

(* `et[col].hex() in values` when every value has 64 digits, else any(startswith) *)
Definition hex_clause (field : pystr) (vals : list pystr) : bool :=
  if forallb (fun v => Nat.eqb (length v) 64) vals then mem_str field vals
  else existsb (fun v => is_prefix v field) vals.

(* bool([t for t in et[6] if t[0] == name and len(t) > 1 and t[1] in vals]);
   t[0] raises IndexError on an empty tag *)
Definition tag_clause (tags : list (list pystr)) (name : pystr) (vals : list pystr) : bool :=
  if existsb (fun t => match t with [] => true | _ => false end) tags then false
  else existsb (fun t => match t with
                         | n :: v :: _ => str_eqb n name && mem_str v vals
                         | _ => false end) tags.

Definition clause (q : qitem) (e : wevent) : bool :=
  match q with
  | QIds l => hex_clause (w_id e) l
  | QAuthors l => hex_clause (w_pubkey e) l
  | QKinds l => mem_Z (w_kind e) l
  | QSince z => z <=? w_created e
  | QUntil z => w_created e <=? z
  | QTag n vs => tag_clause (w_tags e) n vs
  end.

Definition residual (q : list qitem) (e : wevent) : bool := forallb (fun c => clause c e) q.
