(* The constants and small decision fragments of the LMDB model equal what tools/pyfrag.d/kvconst.py
   regenerates from nostr_relay/storage/kv.py on every run: an edit of a prefix, a cardinality, the
   key format, the tombstone, maximum_plans, the column numbers or TagIndex.convert's test breaks a proof here. *)
From NR Require Import Lib.Base Lib.BaseFacts Lib.Nip01 KVM.Engine KVM.Keys KVM.Scan KVM.Coherent KVM.Plan KVM.Match.
From NR Require Gen.KVConst.
From Coq Require Import ZifyBool.
Open Scope list_scope.

Lemma prefixes_agree :
  idx_prefix IxIds = KVConst.prefix_ids /\ idx_prefix IxCreated = KVConst.prefix_created_at /\
  idx_prefix IxKinds = KVConst.prefix_kinds /\ idx_prefix IxAuthors = KVConst.prefix_authors /\
  idx_prefix IxAuthorKinds = KVConst.prefix_authorkinds /\ idx_prefix IxTags = KVConst.prefix_tags.
Proof. repeat split; reflexivity. Qed.

Lemma cardinalities_agree :
  idx_cardinality IxIds = KVConst.cardinality_ids /\ idx_cardinality IxCreated = KVConst.cardinality_created_at /\
  idx_cardinality IxKinds = KVConst.cardinality_kinds /\ idx_cardinality IxAuthors = KVConst.cardinality_authors /\
  idx_cardinality IxAuthorKinds = KVConst.cardinality_authorkinds /\ idx_cardinality IxTags = KVConst.cardinality_tags.
Proof. repeat split; reflexivity. Qed.

Lemma has_time_agree :
  idx_has_time IxIds = KVConst.has_time_ids /\ idx_has_time IxCreated = KVConst.has_time_created_at /\
  idx_has_time IxKinds = KVConst.has_time_kinds /\ idx_has_time IxAuthors = KVConst.has_time_authors /\
  idx_has_time IxAuthorKinds = KVConst.has_time_authorkinds /\ idx_has_time IxTags = KVConst.has_time_tags.
Proof. repeat split; reflexivity. Qed.

Lemma tombstone_agrees : tombstone = KVConst.tombstone_key.
Proof. reflexivity. Qed.

Lemma maximum_plans_agrees : Plan.maximum_plans = KVConst.maximum_plans.
Proof. reflexivity. Qed.

(* b"%s\x00%s\x00%s" % (key, ctime, event_id) *)
Fixpoint fill (fmt : list (option N)) (args : list bytes) : bytes :=
  match fmt with
  | [] => []
  | Some b :: r => b :: fill r args
  | None :: r => match args with a :: args' => a ++ fill r args' | [] => [] end
  end.
Lemma entry_key_format k c i : entry_key k c i = fill KVConst.entry_format [k; c; i].
Proof. unfold entry_key. simpl. rewrite app_nil_r. reflexivity. Qed.

Lemma tag_indexable_agrees t : Coherent.tag_indexable t = KVConst.tag_indexable t.
Proof.
  unfold Coherent.tag_indexable, KVConst.tag_indexable.
  destruct t as [|n [|v r]]; try reflexivity.
  assert ((Z.of_nat (length (n :: v :: r)) >=? 2)%Z = true) as -> by (simpl length; lia).
  cbn [nth andb]. unfold mem_str. cbn [existsb]. rewrite orb_false_r, orb_assoc.
  f_equal. f_equal. destruct (Nat.eqb (length n) 1) eqn:E; lia.
Qed.

(* the residual reads column FIELDS_TO_COLUMNS[f] of the stored row for field f, and encode_event puts f there *)
Lemma columns_agree :
  forallb (fun fc => str_eqb (nth (Z.to_nat (snd fc)) KVConst.encode_row []) (fst fc)) KVConst.fields_to_columns = true.
Proof. vm_compute. reflexivity. Qed.

(* which stored field each kind of query item is compared with (Match.clause: ids -> w_id, authors -> w_pubkey,
   kinds -> w_kind, since/until -> w_created, everything else -> w_tags) *)
Lemma clause_columns_agree :
  KVConst.clause_columns = [(pys "ids", pys "id"); (pys "authors", pys "pubkey"); (pys "kinds", pys "kind");
                            (pys "since", pys "created_at"); (pys "until", pys "created_at"); (pys "#", pys "tags")].
Proof. reflexivity. Qed.

Lemma exec_lint_holds : KVConst.exec_interpolations_ok = true.
Proof. reflexivity. Qed.
