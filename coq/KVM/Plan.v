(* kv.planner / MultiIndex.add / MultiIndex.finalize of nostr_relay/storage/kv.py as a total
   function of the validated filters (fields of NostrQuery after model_validate). *)
From NR Require Import Lib.Base Lib.Nip01 KVM.Engine KVM.Keys.
Open Scope list_scope. Open Scope Z_scope.

(* plan.query: the tuple of (key, value) items handed to compile_match_from_query *)
Inductive qitem :=
| QSince (z : Z) | QUntil (z : Z)
| QIds (l : list pystr) | QKinds (l : list Z) | QAuthors (l : list pystr)
| QTag (name : pystr) (vals : list pystr).

(* plan.index + plan.matches: one index, or the chained MultiIndex with its stages *)
Inductive pindex :=
| PSingle (i : idx) (ms : list mval)
| PMulti (stages : list (idx * list mval)).

Record plan := { p_query : list qitem; p_index : pindex; p_limit : option Z;
                 p_since : option Z; p_until : option Z }.

Definition maximum_plans : nat := 5.

(* ---- sorted(set(...), reverse=True) on (tag, value) pairs: code point order of tuples ---- *)
Definition pair_cmp (a b : pystr * pystr) : comparison :=
  match lex_cmp (fst a) (fst b) with Eq => lex_cmp (snd a) (snd b) | c => c end.
Fixpoint insert_desc (x : pystr * pystr) (l : list (pystr * pystr)) : list (pystr * pystr) :=
  match l with
  | [] => [x]
  | y :: r => match pair_cmp x y with
              | Gt => x :: l
              | Eq => l                       (* set: duplicates collapse *)
              | Lt => y :: insert_desc x r
              end
  end.
Definition sort_desc_pairs (l : list (pystr * pystr)) : list (pystr * pystr) :=
  fold_left (fun acc x => insert_desc x acc) l [].

(* Python truthiness of an optional int *)
Definition truthy (o : option Z) : bool := match o with Some z => negb (z =? 0) | None => false end.

(* list.sort(key=cardinality*len(matches), reverse=True): stable, larger key first *)
Definition stage_key (s : idx * list mval) : Z := idx_cardinality (fst s) * Z.of_nat (length (snd s)).
Fixpoint insert_stage (x : idx * list mval) (l : list (idx * list mval)) : list (idx * list mval) :=
  match l with
  | [] => [x]
  | y :: r => if stage_key y <=? stage_key x then x :: l else y :: insert_stage x r
  end.
(* elements are inserted from the right, each before the first one whose key is not larger:
   the original order of equal keys is kept *)
Definition sort_stages (l : list (idx * list mval)) : list (idx * list mval) :=
  fold_right insert_stage [] l.

Definition has_stage (i : idx) (l : list (idx * list mval)) : option (list mval) :=
  find_map (fun s => match fst s, i with
                     | IxIds, IxIds => Some (snd s)
                     | _, _ => None end) l.

(* MultiIndex.finalize; None = "No range scans allowed" is decided by the caller *)
Definition finalize (stages : list (idx * list mval)) : pindex :=
  match stages with
  | [] => PSingle IxCreated []
  | [s] => PSingle (fst s) (snd s)
  | _ => match has_stage IxIds stages with
         | Some ms => PSingle IxIds ms
         | None => PMulti (sort_stages stages)
         end
  end.

(* limit = default_limit or query.limit, then capped by max_limit when one is given
   (Subscription.prepare passes Config.max_limit; run_single_query / reindex pass none) *)
Definition plan_limit (default_limit max_limit : option Z) (f : filter) : option Z :=
  let l := if truthy default_limit then default_limit else f_limit f in
  match max_limit with
  | None => l
  | Some mx => match l with None => Some mx | Some n => Some (Z.min n mx) end
  end.

Definition is_empty_list {A} (o : option (list A)) : bool := match o with Some [] => true | _ => false end.
Definition opt_items {A} (o : option A) (mk : A -> qitem) : list qitem :=
  match o with Some x => [mk x] | None => [] end.

(* plan.query *)
Definition plan_items (f : filter) : list qitem :=
  opt_items (f_since f) QSince ++ opt_items (f_until f) QUntil ++
  opt_items (f_ids f) QIds ++ opt_items (f_kinds f) QKinds ++ opt_items (f_authors f) QAuthors ++
  map (fun nv => QTag (fst nv) (snd nv)) (f_tags f).

(* the MultiIndex.add calls, in order: ids, then authorkinds | kinds | authors, then tags *)
Definition stage_ids (f : filter) : list (idx * list mval) :=
  match f_ids f with Some l => [(IxIds, map MStr l)] | None => [] end.
Definition stage_ak (f : filter) : list (idx * list mval) :=
  match f_kinds f, f_authors f with
  | Some ks, Some au => [(IxAuthorKinds, flat_map (fun a => map (fun k => MStrInt a k) ks) au)]
  | Some ks, None => [(IxKinds, map MInt ks)]
  | None, Some au => [(IxAuthors, map MStr au)]
  | None, None => []
  end.
Definition tag_pairs (f : filter) : list (pystr * pystr) :=
  flat_map (fun nv => map (fun v => (fst nv, v)) (snd nv)) (f_tags f).
Definition stage_tags (f : filter) : list (idx * list mval) :=
  match f_tags f with
  | [] => []
  | _ => [(IxTags, map (fun p => MStrStr (fst p) (snd p)) (sort_desc_pairs (tag_pairs f)))]
  end.
Definition plan_stages (f : filter) : list (idx * list mval) := stage_ids f ++ stage_ak f ++ stage_tags f.

(* the `continue`s: an empty ids / kinds / authors list or an empty tag value set *)
Definition skipped (f : filter) : bool :=
  is_empty_list (f_ids f) || is_empty_list (f_kinds f) || is_empty_list (f_authors f) ||
  existsb (fun nv => match snd nv with [] => true | _ => false end) (f_tags f).

Definition mk_plan (default_limit max_limit : option Z) (f : filter) : plan :=
  {| p_query := plan_items f; p_index := finalize (plan_stages f);
     p_limit := plan_limit default_limit max_limit f; p_since := f_since f; p_until := f_until f |}.

(* one filter -> one plan, or None when the planner skips it (`continue`);
   without any index the created_at range scan is refused unless since or until is non-zero *)
Definition plan_one (default_limit max_limit : option Z) (f : filter) : option plan :=
  if skipped f then None
  else match plan_stages f with
       | [] => if truthy (f_since f) || truthy (f_until f) then Some (mk_plan default_limit max_limit f) else None
       | _ => Some (mk_plan default_limit max_limit f)
       end.

Definition planner (default_limit max_limit : option Z) (fs : list filter) : list plan :=
  flat_map (fun f => match plan_one default_limit max_limit f with Some p => [p] | None => [] end)
           (firstn maximum_plans fs).
