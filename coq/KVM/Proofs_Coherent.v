(* A coherent store satisfies the hypotheses of scanner_correct: its keys are byte strings,
   shaped like index entries, and no index starts at the very first key. *)
From NR Require Import Lib.Base Lib.BaseFacts Lib.Nip01 KVM.Engine KVM.Keys KVM.Scan KVM.ScanSpec KVM.Order
  KVM.Coherent KVM.Proofs_Cursor KVM.Proofs_Scan KVM.Proofs_Blocks KVM.Proofs_ScanCorrect KVM.Proofs_ScanTop.
From Coq Require Import ZifyBool Sorting.Sorted.
Open Scope list_scope.

Ltac Zify.zify_post_hook ::= Z.to_euclidean_division_equations.
Local Arguments N.add : simpl never.
Local Arguments N.mul : simpl never.
Local Arguments N.div : simpl never.
Local Arguments N.modulo : simpl never.

(* ---- every key component is a byte string ---- *)
Lemma hexval_lt c v : hexval c = Some v -> (v < 16)%N.
Proof.
  unfold hexval. repeat match goal with |- context [if ?b then _ else _] => destruct b eqn:? end;
    intros H; try discriminate; injection H as <-; lia.
Qed.

Lemma py_fromhex_wf : forall n s b, (length s <= n)%nat -> py_fromhex s = Some b -> wf_bytes b.
Proof.
  induction n as [|n IH]; intros s b Hl H.
  - destruct s; [|simpl in Hl; lia]. simpl in H. injection H as <-. constructor.
  - destruct s as [|a r]; [simpl in H; injection H as <-; constructor|].
    simpl in H. destruct (is_ascii_ws a).
    + apply (IH r b); [simpl in Hl; lia|exact H].
    + destruct r as [|c r']; [discriminate|].
      destruct (hexval a) as [x|] eqn:Ea; [|discriminate].
      destruct (hexval c) as [y|] eqn:Ec; [|discriminate].
      destruct (py_fromhex r') as [t|] eqn:Et; [|discriminate]. injection H as <-.
      constructor.
      * apply hexval_lt in Ea. apply hexval_lt in Ec. lia.
      * apply (IH r' t); [simpl in Hl; lia|exact Et].
Qed.
Lemma py_fromhex_wf' s b : py_fromhex s = Some b -> wf_bytes b.
Proof. apply (py_fromhex_wf (length s)). lia. Qed.

Lemma bytes_from_hex_wf s b : bytes_from_hex s = Some b -> wf_bytes b.
Proof.
  unfold bytes_from_hex. destruct (py_fromhex s) as [x|] eqn:E.
  - intros H. injection H as <-. eapply py_fromhex_wf'; eauto.
  - destruct (_ && _); [|discriminate]. apply py_fromhex_wf'.
Qed.

Lemma utf8_cp_wf c b : utf8_cp c = Some b -> wf_bytes b.
Proof.
  unfold utf8_cp.
  repeat match goal with |- context [if ?b then _ else _] => destruct b eqn:? end;
    intros H; try discriminate; apply (f_equal (fun o => match o with Some x => x | None => [] end)) in H; subst b;
    repeat (apply Forall_cons; [lia|]); apply Forall_nil.
Qed.
Lemma utf8_wf s : forall b, utf8 s = Some b -> wf_bytes b.
Proof.
  induction s as [|c r IH]; intros b H; simpl in H.
  - injection H as <-. constructor.
  - destruct (utf8_cp c) as [a|] eqn:Ea; [|discriminate]. destruct (utf8 r) as [t|] eqn:Et; [|discriminate].
    injection H as <-. apply wf_bytes_app. split; [eapply utf8_cp_wf; eauto|auto].
Qed.

Lemma to_key_wf i m k : to_key i m = KKey k -> wf_bytes k.
Proof.
  assert (Hp : (idx_prefix i < 256)%N) by (destruct i; reflexivity).
  destruct i, m; simpl; try discriminate.
  all: repeat match goal with
       | |- context [match bytes_from_hex ?s with _ => _ end] =>
           let E := fresh "E" in destruct (bytes_from_hex s) eqn:E; [apply bytes_from_hex_wf in E|]
       | |- context [match be4 ?z with _ => _ end] =>
           let E := fresh "E" in destruct (be4 z) eqn:E; [apply be4_wf in E|]
       | |- context [match utf8 ?s with _ => _ end] =>
           let E := fresh "E" in destruct (utf8 s) eqn:E; [apply utf8_wf in E|]
       end; try discriminate; intros H; injection H as <-.
  all: apply Forall_cons; [reflexivity|]; try assumption.
  all: apply Forall_app; split; [assumption|]; apply Forall_cons; [reflexivity|assumption].
Qed.

(* ---- 64 lower-case hex digits decode to 32 bytes ---- *)
Lemma lower_hex_not_ws c : is_lower_hex_char c = true -> is_ascii_ws c = false.
Proof. unfold is_lower_hex_char, is_ascii_ws. lia. Qed.

Lemma py_fromhex_length : forall n s b, (length s <= n)%nat -> is_lower_hex s = true ->
  py_fromhex s = Some b -> length s = (2 * length b)%nat.
Proof.
  induction n as [|n IH]; intros s b Hl Hh H.
  - destruct s; [|simpl in Hl; lia]. simpl in H. injection H as <-. reflexivity.
  - destruct s as [|a r]; [simpl in H; injection H as <-; reflexivity|].
    simpl in Hh. apply andb_true_iff in Hh. destruct Hh as [Ha Hr].
    simpl in H. rewrite (lower_hex_not_ws a Ha) in H.
    destruct r as [|c r']; [discriminate|].
    simpl in Hr. apply andb_true_iff in Hr. destruct Hr as [_ Hr'].
    destruct (hexval a); [|discriminate]. destruct (hexval c); [|discriminate].
    destruct (py_fromhex r') as [t|] eqn:Et; [|discriminate]. injection H as <-.
    simpl. rewrite (IH r' t); [lia|simpl in Hl; lia|exact Hr'|exact Et].
Qed.
Lemma hex64_bytes s b : hex64 s = true -> py_fromhex s = Some b -> length b = 32%nat.
Proof.
  unfold hex64. intros H E. apply andb_true_iff in H. destruct H as [Hl Hh]. apply Nat.eqb_eq in Hl.
  pose proof (py_fromhex_length (length s) s b (le_n _) Hh E). lia.
Qed.

(* ---- what the keys of a coherent store look like ---- *)
Lemma all_some_in {A} (l : list (option A)) : forall es x, all_some l = Some es -> In x es -> In (Some x) l.
Proof.
  induction l as [|o l IH]; intros es x H Hin; simpl in H.
  - injection H as <-. destruct Hin.
  - destruct o as [y|]; [|discriminate]. destruct (all_some l) as [r|]; [|discriminate].
    simpl in H. injection H as <-. destruct Hin as [->|Hin]; [left; reflexivity|right; eapply IH; eauto].
Qed.

(* an index entry of a stored event *)
Definition is_entry (e : wevent) (k : bytes) : Prop :=
  exists i m kk ct idb, In (i, m) (index_matches e) /\ to_key i m = KKey kk /\ be4 (w_created e) = Some ct /\
                        id_bytes e = Some idb /\ k = entry_key kk ct idb.
Lemma index_entries_is_entry e es k : index_entries e = Some es -> In k es -> is_entry e k.
Proof.
  unfold index_entries. destruct (id_bytes e) as [idb|] eqn:Ei; [|discriminate].
  destruct (be4 (w_created e)) as [ct|] eqn:Ec; [|discriminate]. intros H Hin.
  pose proof (all_some_in _ _ _ H Hin) as Hs. apply in_map_iff in Hs. destruct Hs as [[i m] [Hk Him]].
  simpl in Hk. destruct (to_key i m) as [kk| |] eqn:Ek; try discriminate. injection Hk as <-.
  exists i, m, kk, ct, idb. auto.
Qed.

Inductive key_kind (d : kvdb) (k : bytes) : Prop :=
| KTomb : k = tombstone -> key_kind d k
| KPrim e idb : id_bytes e = Some idb -> k = primary_key_of idb -> stored_wf e -> key_kind d k
| KEntry e idb : id_bytes e = Some idb -> In (primary_key_of idb, REvent e) d -> hex64 (w_id e) = true ->
                 is_entry e k -> key_kind d k.

Lemma coherent_key_kind d : Coherent d -> forall k, In k (keys d) -> key_kind d k.
Proof.
  intros [Hs [Ht [Hk Hall]]] k Hin. unfold keys in Hin. apply in_map_iff in Hin.
  destruct Hin as [[k' v] [E Hin]]. simpl in E. subst k'.
  destruct (Hk k v Hin) as [->|[[e [-> [Hp Hw]]]|[-> [e [pk [es [Hp [Hpin [Hes Hkes]]]]]]]]].
  - apply KTomb. reflexivity.
  - unfold primary_key in Hp. destruct (id_bytes e) as [idb|] eqn:Ei; [|discriminate]. injection Hp as <-.
    eapply KPrim; eauto.
  - unfold primary_key in Hp. destruct (id_bytes e) as [idb|] eqn:Ei; [|discriminate]. injection Hp as <-.
    destruct (Hk _ _ Hpin) as [Hbad|[[e' [He' [Hp' Hw']]]|[Hbad _]]]; [discriminate| |discriminate].
    injection He' as <-.
    eapply KEntry; eauto.
    + apply Hw'.
    + eapply index_entries_is_entry; eauto.
Qed.

Lemma coherent_wf_keys d : Coherent d -> wf_keys (keys d).
Proof.
  intros Hc. apply Forall_forall. intros k Hin.
  destruct (coherent_key_kind d Hc k Hin) as [->|e idb Hi -> Hw|e idb Hi _ _ [i [m [kk [ct [idb' [_ [Hk [Hct [Hi' ->]]]]]]]]]].
  - repeat constructor.
  - constructor; [reflexivity|]. unfold id_bytes in Hi. eapply py_fromhex_wf'; eauto.
  - unfold entry_key. unfold id_bytes in Hi'.
    repeat (apply wf_bytes_app; split); try (repeat constructor; fail).
    + eapply to_key_wf; eauto.
    + eapply be4_wf; eauto.
    + eapply py_fromhex_wf'; eauto.
Qed.

Lemma entry_first_byte i m kk ct idb : to_key i m = KKey kk -> exists r, entry_key kk ct idb = idx_prefix i :: r.
Proof. intros H. destruct (to_key_prefix i m kk H) as [r ->]. eexists. reflexivity. Qed.

Lemma in_index_matches_created e m : In (IxCreated, m) (index_matches e) -> m = MInt (w_created e).
Proof.
  unfold index_matches. intros H. apply in_app_or in H. destruct H as [H|H].
  - simpl in H. repeat (destruct H as [H|H]; [inversion H; reflexivity|]). destruct H.
  - apply in_flat_map in H. destruct H as [t [_ Ht]]. destruct (tag_indexable t); [|destruct Ht].
    destruct Ht as [Ht|[]]. discriminate.
Qed.

Lemma in_index_matches_not_ids e m : ~ In (IxIds, m) (index_matches e).
Proof.
  unfold index_matches. intros H. apply in_app_or in H. destruct H as [H|H].
  - simpl in H. repeat (destruct H as [H|H]; [discriminate|]). destruct H.
  - apply in_flat_map in H. destruct H as [t [_ Ht]]. destruct (tag_indexable t); [|destruct Ht].
    destruct Ht as [Ht|[]]. discriminate.
Qed.

Lemma coherent_shaped d : Coherent d -> Shaped (keys d).
Proof.
  intros Hc. apply Forall_forall. intros k Hin.
  destruct (coherent_key_kind d Hc k Hin) as [->|e idb Hi -> Hw|e idb Hi _ Hh [i [m [kk [ct [idb' [Him [Hk [Hct [Hi' ->]]]]]]]]]].
  - split; [intros H; simpl in H; lia|]. intros [r Hr]. discriminate.
  - destruct Hw as [Hh _]. unfold id_bytes in Hi. pose proof (hex64_bytes _ _ Hh Hi) as Hl. split.
    + intros H. simpl in H. unfold bytes, byte in *. lia.
    + intros [r Hr]. discriminate.
  - rewrite Hi in Hi'. injection Hi' as <-. unfold id_bytes in Hi. pose proof (hex64_bytes _ _ Hh Hi) as Hl.
    split.
    + intros _. exists (kk ++ [0%N] ++ ct), idb. split; [|exact Hl].
      unfold entry_key. rewrite <- !app_assoc. reflexivity.
    + intros [r Hr]. destruct (entry_first_byte i m kk ct idb Hk) as [r' Hr']. rewrite Hr' in Hr.
      injection Hr as Hp _. assert (i = IxCreated) by (destruct i; simpl in Hp; try discriminate; reflexivity). subst i.
      apply in_index_matches_created in Him. subst m. simpl in Hk.
      rewrite Hct in Hk. injection Hk as <-.
      pose proof (be4_length _ _ Hct) as Hlc. destruct (length4 ct Hlc) as [a [b [c [x ->]]]].
      unfold entry_key. simpl. unfold bytes, byte in *. rewrite Hl. split; reflexivity.
Qed.

Lemma coherent_floor d : Coherent d -> forall i, floor_ok (keys d) i.
Proof.
  intros Hc i. assert (Hs : StrictSorted (keys d)) by apply Hc.
  assert (H : i <> IxIds -> keys d <> [] -> nth 0 (hd [] (keys d)) 0%N <> idx_prefix i).
  { intros Hi Hne Hp.
    assert (Hin : In (hd [] (keys d)) (keys d)) by (destruct (keys d); [congruence|left; reflexivity]).
    destruct (coherent_key_kind d Hc _ Hin) as [E|e idb _ E _|e idb _ Hpin _ [i' [m [kk [ct [idb' [Him [Hk [_ [_ E]]]]]]]]]].
    - rewrite E in Hp. destruct i; simpl in Hp; discriminate.
    - rewrite E in Hp. destruct i; simpl in Hp; try discriminate. congruence.
    - (* an index entry cannot be the first key: its event's primary record is smaller *)
      assert (Hpin' : In (primary_key_of idb) (keys d)) by (unfold keys; apply in_map_iff; exists (primary_key_of idb, REvent e); auto).
      pose proof (sorted_hd_le (keys d) (primary_key_of idb) Hs Hpin') as Hle.
      destruct (entry_first_byte i' m kk ct idb' Hk) as [r Hr]. rewrite E, Hr in Hle.
      apply Hle. unfold primary_key_of. simpl.
      destruct i'; try reflexivity. exfalso. eapply in_index_matches_not_ids; eauto. }
  destruct i; simpl; try exact I; apply H; discriminate.
Qed.

Theorem coherent_scanner_correct d i ms since until ev :
  Coherent d ->
  (forall cms, compile (map (to_key i) ms) = Some cms ->
     (cms <> [] \/ i = IxCreated) /\ (i = IxIds -> Desc cms)) ->
  index_scanner (keys d) i ms since until ev = scan_spec (keys d) i ms since until ev.
Proof.
  intros Hc Hm. apply scanner_correct_proof; auto.
  - apply Hc.
  - apply Hc.
  - apply coherent_wf_keys, Hc.
  - apply coherent_shaped, Hc.
  - apply coherent_floor, Hc.
Qed.
