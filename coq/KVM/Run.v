(* KVM wire entry points: scanner / multi-index scanner on an explicit key list. *)
From NR Require Import Lib.Base Lib.Wire KVM.Engine KVM.Keys KVM.Scan KVM.ScanSpec.
Open Scope string_scope. Open Scope list_scope. Open Scope Z_scope.

Definition idx_of_name (s : pystr) : idx :=
  if str_eqb s (pys "ids") then IxIds else if str_eqb s (pys "created_at") then IxCreated
  else if str_eqb s (pys "kinds") then IxKinds else if str_eqb s (pys "authors") then IxAuthors
  else if str_eqb s (pys "authorkinds") then IxAuthorKinds else IxTags.
Definition mval_of_jv (v : jv) : mval :=
  match v with
  | JStr s => MStr s
  | JInt z => MInt z
  | JArr [JStr a; JInt z] => MStrInt a z
  | JArr [JStr a; JStr b] => MStrStr a b
  | _ => MStr []
  end.
Definition jv_of_sres (r : sres) : jv :=
  match r with
  | SOk ids => jobj [("res", jstr "ok"); ("ids", JArr (map JBytes ids))]
  | SRaise => jobj [("res", jstr "raise"); ("ids", JArr [])]
  | SFuel => jobj [("res", jstr "fuel"); ("ids", JArr [])]
  end.
Definition run_scan (v : jv) : jv :=
  let ks := map as_str (as_arr (jfield "keys" v)) in
  let member := match jfield "events" v with
                | JArr l => (fun x => mem_bytes x (map as_str l))
                | _ => (fun _ => true) end in
  jv_of_sres (index_scanner ks (idx_of_name (as_str (jfield "index" v)))
                (map mval_of_jv (as_arr (jfield "matches" v)))
                (as_opt_int (jfield "since" v)) (as_opt_int (jfield "until" v)) member).
Definition run_scanspec (v : jv) : jv :=
  let ks := map as_str (as_arr (jfield "keys" v)) in
  let member := match jfield "events" v with
                | JArr l => (fun x => mem_bytes x (map as_str l))
                | _ => (fun _ => true) end in
  jv_of_sres (scan_spec ks (idx_of_name (as_str (jfield "index" v)))
                (map mval_of_jv (as_arr (jfield "matches" v)))
                (as_opt_int (jfield "since" v)) (as_opt_int (jfield "until" v)) member).
Definition run_multi (v : jv) : jv :=
  let ks := map as_str (as_arr (jfield "keys" v)) in
  let stages := map (fun s => (idx_of_name (as_str (jfield "index" s)), map mval_of_jv (as_arr (jfield "matches" s))))
                    (as_arr (jfield "stages" v)) in
  jv_of_sres (multi_scanner ks stages (as_opt_int (jfield "since" v)) (as_opt_int (jfield "until" v)) None).

Definition suites : list (string * (jv -> jv)) :=
  [("kvm.scan", run_scan); ("kvm.scanspec", run_scanspec); ("kvm.multi", run_multi)].
Definition dispatch := dispatch_in suites.
