(* KVM wire entry points: scanner / multi-index scanner on an explicit key list. *)
From NR Require Import Lib.Base Lib.Wire Lib.Nip01 KVM.Engine KVM.Keys KVM.Scan KVM.ScanSpec
  KVM.Coherent KVM.Plan KVM.Match KVM.Exec KVM.Spec.
Open Scope string_scope. Open Scope list_scope. Open Scope Z_scope.

Definition idx_of_name (s : pystr) : idx :=
  if str_eqb s (pys "ids") then IxIds else if str_eqb s (pys "created_at") then IxCreated
  else if str_eqb s (pys "kinds") then IxKinds else if str_eqb s (pys "authors") then IxAuthors
  else if str_eqb s (pys "authorkinds") then IxAuthorKinds else IxTags.
Definition mval_of_jv (v : jv) : mval :=
  match v with
  | JStr s => MStr s
  | JInt z => MInt z
  | JArr [JStr a; JInt z] => MStrInt a z
  | JArr [JStr a; JStr b] => MStrStr a b
  | _ => MStr []
  end.
Definition jv_of_sres (r : sres) : jv :=
  match r with
  | SOk ids => jobj [("res", jstr "ok"); ("ids", JArr (map JBytes ids))]
  | SRaise => jobj [("res", jstr "raise"); ("ids", JArr [])]
  | SFuel => jobj [("res", jstr "fuel"); ("ids", JArr [])]
  end.
Definition run_scan (v : jv) : jv :=
  let ks := map as_str (as_arr (jfield "keys" v)) in
  let member := match jfield "events" v with
                | JArr l => (fun x => mem_bytes x (map as_str l))
                | _ => (fun _ => true) end in
  jv_of_sres (index_scanner ks (idx_of_name (as_str (jfield "index" v)))
                (map mval_of_jv (as_arr (jfield "matches" v)))
                (as_opt_int (jfield "since" v)) (as_opt_int (jfield "until" v)) member).
Definition run_scanspec (v : jv) : jv :=
  let ks := map as_str (as_arr (jfield "keys" v)) in
  let member := match jfield "events" v with
                | JArr l => (fun x => mem_bytes x (map as_str l))
                | _ => (fun _ => true) end in
  jv_of_sres (scan_spec ks (idx_of_name (as_str (jfield "index" v)))
                (map mval_of_jv (as_arr (jfield "matches" v)))
                (as_opt_int (jfield "since" v)) (as_opt_int (jfield "until" v)) member).
Definition run_multi (v : jv) : jv :=
  let ks := map as_str (as_arr (jfield "keys" v)) in
  let stages := map (fun s => (idx_of_name (as_str (jfield "index" s)), map mval_of_jv (as_arr (jfield "matches" s))))
                    (as_arr (jfield "stages" v)) in
  jv_of_sres (multi_scanner ks stages (as_opt_int (jfield "since" v)) (as_opt_int (jfield "until" v)) None).

(* ---- planner / answers / oracles ---- *)
Definition name_of_idx (i : idx) : jv :=
  match i with IxIds => jstr "ids" | IxCreated => jstr "created_at" | IxKinds => jstr "kinds"
             | IxAuthors => jstr "authors" | IxAuthorKinds => jstr "authorkinds" | IxTags => jstr "tags" end.
Definition jv_of_mval (m : mval) : jv :=
  match m with MStr s => JStr s | MInt z => JInt z | MStrInt a z => JArr [JStr a; JInt z]
             | MStrStr a b => JArr [JStr a; JStr b] end.
Definition jv_of_qitem (q : qitem) : jv :=
  match q with
  | QSince z => JArr [jstr "since"; JInt z] | QUntil z => JArr [jstr "until"; JInt z]
  | QIds l => JArr [jstr "ids"; jstrs l] | QKinds l => JArr [jstr "kinds"; jints l]
  | QAuthors l => JArr [jstr "authors"; jstrs l] | QTag n vs => JArr [jstr "#"; JStr n; jstrs vs]
  end.
Definition jopt_int (o : option Z) : jv := match o with Some z => JInt z | None => JNull end.
Definition jv_of_stage (s : idx * list mval) : jv :=
  jobj [("index", name_of_idx (fst s)); ("matches", JArr (map jv_of_mval (snd s)))].
(* hypothesis ids_desc of the C02/C11/C12-kv theorems, evaluated on the generated filters (reported in the evidence) *)
Fixpoint desc_from (x : bytes) (r : list bytes) : bool :=
  match r with [] => true | y :: r' => lex_ltb y x && desc_from y r' end.
Definition ids_desc_b (p : plan) : bool :=
  match p_index p with
  | PSingle IxIds ms => match compile (map (to_key IxIds) ms) with
                        | Some (x :: r) => desc_from x r
                        | _ => true end
  | _ => true
  end.
Definition jv_of_plan (p : plan) : jv :=
  jobj [("query", JArr (map jv_of_qitem (p_query p)));
        ("index", match p_index p with
                  | PSingle i ms => jv_of_stage (i, ms)
                  | PMulti st => jobj [("multi", JArr (map jv_of_stage st))] end);
        ("limit", jopt_int (p_limit p)); ("since", jopt_int (p_since p)); ("until", jopt_int (p_until p));
        ("ids_desc", JBool (ids_desc_b p))].
Definition filters_of (v : jv) : list filter := map filter_of_jv (as_arr (jfield "filters" v)).
Definition run_plan (v : jv) : jv :=
  JArr (map jv_of_plan (planner (as_opt_int (jfield "default_limit" v)) (as_opt_int (jfield "max_limit" v)) (filters_of v))).

(* db: [[key, null | event], ...] in key order *)
Definition kvdb_of_jv (v : jv) : kvdb :=
  map (fun kv => (as_str (nth 0 (as_arr kv) JNull),
                  match nth 1 (as_arr kv) JNull with JObj o => REvent (wevent_of_jv (JObj o)) | _ => RIndex end))
      (as_arr v).
Definition is_multi (p : plan) : bool := match p_index p with PMulti _ => true | _ => false end.
Definition run_answer (v : jv) : jv :=
  let d := kvdb_of_jv (jfield "db" v) in
  let plans := planner (as_opt_int (jfield "default_limit" v)) (as_opt_int (jfield "max_limit" v)) (filters_of v) in
  JArr (map (fun p => jobj [("ids", jstrs (map w_id (execute_one_plan d p))); ("multi", JBool (is_multi p));
                            ("scan", match scan_plan (keys d) p with SOk _ => jstr "ok" | SRaise => jstr "raise" | SFuel => jstr "fuel" end)])
            plans).

(* many REQs on one store: {db, reqs: [{filters}], default_limit, max_limit} *)
Definition run_answers (v : jv) : jv :=
  let d := kvdb_of_jv (jfield "db" v) in
  let dl := as_opt_int (jfield "default_limit" v) in
  let mx := as_opt_int (jfield "max_limit" v) in
  JArr (map (fun r =>
    JArr (map (fun p => jobj [("ids", jstrs (map w_id (execute_one_plan d p))); ("multi", JBool (is_multi p));
                              ("full", if is_multi p then jstrs (map w_id (execute_one_plan d
                                         {| p_query := p_query p; p_index := p_index p; p_limit := None;
                                            p_since := p_since p; p_until := p_until p |})) else JNull);
                              ("scan", match scan_plan (keys d) p with SOk _ => jstr "ok" | SRaise => jstr "raise" | SFuel => jstr "fuel" end)])
              (planner dl mx (filters_of r)))) (as_arr (jfield "reqs" v))).

(* oracles on the implementation's observations: {stored, filter, answer, max_limit} *)
Definition events_of (v : jv) : list wevent := map wevent_of_jv (as_arr v).
Definition run_oracle (v : jv) : jv :=
  let stored := events_of (jfield "stored" v) in
  let f := filter_of_jv (jfield "filter" v) in
  let ans := events_of (jfield "answer" v) in
  let mx := as_int (jfield "max_limit" v) in
  jobj [("c01", JBool (holds_C01 stored f ans)); ("c02", JBool (holds_C02 mx stored f ans));
        ("c12", JBool (holds_C12 mx stored f ans));
        ("under_limit", JBool (under_limit mx stored f));
        ("n_may", JInt (count_b (may_match f) stored)); ("n_must", JInt (count_b (must_match f) stored));
        ("range_scan_refused", JBool (range_scan_refused f)); ("multi_match", JBool (multi_match_filter f));
        ("delegator_only", JBool (existsb (fun e => delegator_only_match f e && must_match f e &&
                                                   Nat.eqb (count_id e ans) 0) stored))].
(* C11: relations between answers, as id lists: {a, b} *)
Definition run_rel (v : jv) : jv :=
  let a := map as_str (as_arr (jfield "a" v)) in
  let b := map as_str (as_arr (jfield "b" v)) in
  jobj [("same", JBool (same_ids a b)); ("subset", JBool (subset_ids a b))].
Definition run_match (v : jv) : jv :=
  let f := filter_of_jv (jfield "filter" v) in
  let e := wevent_of_jv (jfield "event" v) in
  jobj [("must", JBool (must_match f e)); ("may", JBool (may_match f e));
        ("residual", match plan_one None None f with Some p => JBool (residual (p_query p) e) | None => JNull end)].

Definition suites : list (string * (jv -> jv)) :=
  [("kvm.scan", run_scan); ("kvm.scanspec", run_scanspec); ("kvm.multi", run_multi);
   ("kvm.plan", run_plan); ("kvm.answer", run_answer); ("kvm.answers", run_answers); ("kvm.oracle", run_oracle);
   ("kvm.rel", run_rel); ("kvm.match", run_match)].
Definition dispatch := dispatch_in suites.
