(* kv.execute_one_plan / matcher / executor on a store d : kvdb. *)
From NR Require Import Lib.Base Lib.Nip01 KVM.Engine KVM.Keys KVM.Scan KVM.Coherent KVM.Plan KVM.Match.
Open Scope list_scope. Open Scope Z_scope.

Definition scan_plan (ks : list bytes) (p : plan) : sres :=
  match p_index p with
  | PSingle i ms => index_scanner ks i ms (p_since p) (p_until p) (fun _ => true)
  | PMulti st => multi_scanner ks st (p_since p) (p_until p) None
  end.

(* matcher: ids already seen are skipped; get_event_data on the primary key; the residual.
   A value that is not a record (unpackb raises) ends the plan with what was found so far. *)
Fixpoint matcher (d : kvdb) (q : list qitem) (ids seen : list bytes) : list wevent :=
  match ids with
  | [] => []
  | i :: r =>
      if mem_bytes i seen then matcher d q r seen
      else match get (primary_key_of i) d with
           | Some (REvent e) => if residual q e then e :: matcher d q r (i :: seen) else matcher d q r (i :: seen)
           | Some RIndex => []
           | None => matcher d q r (i :: seen)
           end
  end.

(* `if count == limit: break` *)
Fixpoint take_z {A} (n : Z) (l : list A) : list A :=
  match l with
  | [] => []
  | x :: r => if n <=? 0 then [] else x :: take_z (n - 1) r
  end.
Definition take_limit {A} (lim : option Z) (l : list A) : list A :=
  match lim with None => l | Some n => take_z n l end.

(* any exception -> the plan contributes nothing *)
Definition execute_one_plan (d : kvdb) (p : plan) : list wevent :=
  match scan_plan (keys d) p with
  | SOk ids => take_limit (p_limit p) (matcher d (p_query p) ids [])
  | _ => []
  end.

(* executor: the plans run (on a thread pool) and are awaited in order; one result list per plan *)
Definition executor (d : kvdb) (plans : list plan) : list (list wevent) := map (execute_one_plan d) plans.

(* what a REQ / run_single_query receives before EOSE *)
Definition answer_kv (default_limit max_limit : option Z) (d : kvdb) (fs : list filter) : list wevent :=
  concat (executor d (planner default_limit max_limit fs)).
