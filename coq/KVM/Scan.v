(* Index.scanner and MultiIndex.scanner of nostr_relay/storage/kv.py as a fuelled
   cursor machine over the sorted key list of a transaction. *)
From NR Require Import Lib.Base KVM.Engine KVM.Keys.
Open Scope list_scope. Open Scope Z_scope.

(* Python slices with negative bounds on bytes: key[-a:-b] and key[-a:] *)
Definition slice_from_end (key : bytes) (a b : nat) : bytes :=
  let n := length key in
  let s := (n - a)%nat in let e := (n - b)%nat in
  firstn (e - s) (skipn s key).
Definition last_n (key : bytes) (a : nat) : bytes := skipn (length key - a) key.

Inductive sres := SOk (ids : list bytes) | SRaise | SFuel.

Section Scanner.
Variable ks : list bytes.                 (* sorted keys visible to the transaction *)
Variable prefix : byte.
Variable has_time : bool.                 (* entries are key 00 time(4) 00 id(32); the id index has bare keys *)
Variable since0 until0 : option bytes.    (* already converted with to_bytes(4,"big") *)
Variable events : bytes -> bool.          (* `event_id in events` *)

Definition since := if has_time then since0 else None.
Definition until := if has_time then until0 else None.
Definition separator : bytes := if has_time then [0%N] else [].
Definition entry_tail : nat := if has_time then 37%nat else 0%nat.
Definition add_time : bytes :=
  if has_time then match until with Some u => u ++ [1%N] | None => [255; 255; 255; 255; 1]%N end
  else [1%N].

(* next_match(): (match, skipped, cursor, remaining) *)
Definition next_match (rem : list bytes) : option (bytes * bool * cursor * list bytes) :=
  match rem with
  | [] => None
  | m :: rem' =>
      let '(found, c) := set_range ks (m ++ add_time) in
      let c' := if found then snd (cur_prev ks c) else c in
      Some (m, found, c', rem')
  end.

Definition prefix_ok (key m : bytes) : bool := list_eqb N.eqb (firstn (length m) key) m.
Definition reject (key m : bytes) : bool :=
  let ts := firstn 4 (skipn (length m) key) in
  negb (prefix_ok key m)
  || match since with Some s => lex_ltb ts s | None => false end
  || match until with Some u => lex_ltb u ts | None => false end.

Fixpoint scan_match (fuel : nat) (m : bytes) (rem : list bytes) (c : cursor) (acc : list bytes) : sres :=
  match fuel with
  | O => SFuel
  | S f =>
      let key := cur_key ks c in
      if prefix_ok key m && negb (Nat.eqb (length key) (length m + entry_tail)) then
        (* entry of a longer value that contains the separator: step over it *)
        let '(ok, c') := cur_prev ks c in
        if ok then scan_match f m rem c' acc else SOk (rev acc)
      else if reject key m then
        match next_match rem with
        | None => SOk (rev acc)
        | Some (m', found, c', rem') => if found then scan_match f m' rem' c' acc else SOk (rev acc)
        end
      else
        let eid := last_n key 32 in
        let acc' := if events eid then eid :: acc else acc in
        let '(ok, c') := cur_prev ks c in
        if ok then scan_match f m rem c' acc' else SOk (rev acc')
  end.

Fixpoint scan_range (fuel : nat) (stop : bytes) (c : cursor) (acc : list bytes) : sres :=
  match fuel with
  | O => SFuel
  | S f =>
      let key := cur_key ks c in
      if lex_ltb stop key then
        let acc' := if list_eqb N.eqb (firstn 1 key) [prefix] then last_n key 32 :: acc else acc in
        let '(ok, c') := cur_prev ks c in
        if ok then scan_range f stop c' acc' else SOk (rev acc')
      else SOk (rev acc)
  end.

(* compiled: results of to_key for the matches, in order; a ValueError and (since the repair of the
   out-of-range kind defect) an OverflowError skip the value, so the result is always Some *)
Fixpoint compile (l : list kres) : option (list bytes) :=
  match l with
  | [] => Some []
  | KKey b :: r => option_map (cons b) (compile r)
  | KSkip :: r => compile r
  | KOverflow :: r => compile r
  end.

Definition scanner (matches : list kres) : sres :=
  match compile matches with
  | None => SRaise
  | Some cms0 =>
      let cms := map (fun m => m ++ separator) cms0 in
      let fuel := ((length cms + 2) * (length ks + 3))%nat in
      match cms with
      | _ :: _ =>
          match next_match cms with
          | Some (m, _, c, rem) => scan_match fuel m rem c []
          | None => SOk []
          end
      | [] =>
          let start := match until with Some u => [prefix] ++ u ++ [1%N] | None => [prefix; 255; 255; 255; 255; 1]%N end in
          let '(found, c0) := set_range ks start in
          let c := if found then snd (cur_prev ks c0) else c0 in
          let stop := match since with Some s => [prefix] ++ s | None => [prefix] end in
          scan_range fuel stop c []
      end
  end.
End Scanner.

(* since/until conversion: int.to_bytes(4,"big"); None result = OverflowError *)
Definition conv_time (o : option Z) : option (option bytes) :=
  match o with None => Some None | Some z => match be4 z with Some b => Some (Some b) | None => None end end.

Definition idx_has_time (i : idx) : bool := match i with IxIds => false | _ => true end.

Definition index_scanner (ks : list bytes) (i : idx) (matches : list mval) (since until : option Z)
           (events : bytes -> bool) : sres :=
  let compiled := map (to_key i) matches in
  (* the compile loop runs first (a ValueError or OverflowError of to_key skips the value), then since/until
     (their to_bytes OverflowError escapes) *)
  match compile compiled with
  | None => SRaise
  | Some _ =>
      match conv_time since, conv_time until with
      | Some s, Some u => scanner ks (idx_prefix i) (idx_has_time i) s u events compiled
      | _, _ => SRaise
      end
  end.

(* MultiIndex.scanner: chain; each stage's result set filters the next; the final order is
   a Python set's iteration order, i.e. unspecified: compare as sets *)
Definition mem_bytes (x : bytes) (l : list bytes) : bool := existsb (list_eqb N.eqb x) l.
Fixpoint dedup_bytes (l : list bytes) : list bytes :=
  match l with [] => [] | x :: r => if mem_bytes x r then dedup_bytes r else x :: dedup_bytes r end.

Fixpoint multi_scanner (ks : list bytes) (stages : list (idx * list mval)) (since until : option Z)
         (events : option (list bytes)) : sres :=
  match stages with
  | [] => match events with Some l => SOk l | None => SOk [] end   (* `yield from FakeContainer()` cannot happen: >= 2 stages *)
  | (i, ms) :: rest =>
      let member := match events with Some l => (fun x => mem_bytes x l) | None => (fun _ => true) end in
      match index_scanner ks i ms since until member with
      | SOk ids =>
          let s := dedup_bytes ids in
          match s with
          | [] => SOk []
          | _ => multi_scanner ks rest since until (Some s)
          end
      | r => r
      end
  end.
