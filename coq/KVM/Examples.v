(* A concrete coherent store and what the model computes on it: non-vacuity of the hypotheses of the
   C01/C02/C11/C12-kv theorems, and the witnesses of the open findings, all closed by vm_compute. *)
From NR Require Import Lib.Base Lib.BaseFacts Lib.Nip01 KVM.Engine KVM.Keys KVM.Scan KVM.ScanSpec KVM.Order KVM.Coherent
  KVM.Plan KVM.Match KVM.Exec KVM.Spec KVM.Proofs_Scan KVM.Proofs_Match KVM.Proofs_Exec KVM.Proofs_Hit
  KVM.Thm_C01 KVM.Thm_C02 KVM.Thm_C11 KVM.Thm_C12 KVM.Check.
Open Scope list_scope. Open Scope Z_scope.

Definition hx (c : N) : pystr := repeat c 64.
Definition pk_a := hx 97.   (* "aa..a" *)
Definition pk_b := hx 98.
Definition ev1 := {| w_id := hx 49; w_pubkey := pk_a; w_created := 1010; w_kind := 6; w_tags := [[pys "t"; pys "ab"]]; w_content := []; w_sig := [] |}.
Definition ev2 := {| w_id := hx 50; w_pubkey := pk_a; w_created := 1011; w_kind := 6; w_tags := []; w_content := []; w_sig := [] |}.
Definition ev3 := {| w_id := hx 51; w_pubkey := pk_b; w_created := 1000; w_kind := 7; w_tags := [[pys "t"; pys "abc"]]; w_content := []; w_sig := [] |}.
(* authored by b, delegated by a *)
Definition ev4 := {| w_id := hx 52; w_pubkey := pk_b; w_created := 1001; w_kind := 7;
                     w_tags := [[pys "delegation"; pk_a; pys "kind=7"; pys "sig"]]; w_content := []; w_sig := [] |}.
Definition ex_store : kvdb := mk_store [ev1; ev2; ev3; ev4].

Example ex_coherent : Coherent ex_store.
Proof. apply check_coherent_sound. vm_compute. reflexivity. Qed.
Example ex_stored : stored ex_store ev1 /\ stored ex_store ev2 /\ stored ex_store ev3 /\ stored ex_store ev4.
Proof. repeat split; eexists; (split; [vm_compute; reflexivity|vm_compute; tauto]). Qed.
Example ex_tags_ok : forall e, stored ex_store e -> tags_ok e.
Proof.
  intros e He. apply stored_in_events in He. vm_compute in He.
  repeat (destruct He as [<-|He]; [repeat constructor; discriminate|]). destruct He.
Qed.
Example ex_size : length (stored_events ex_store) = 4%nat.
Proof. vm_compute. reflexivity. Qed.
Example ex_size_keys : length ex_store = length ex_store.
Proof. reflexivity. Qed.

Definition flt (ids au : option (list pystr)) (ks : option (list Z)) (s u l : option Z) (tg : list (pystr * list pystr)) : filter :=
  {| f_ids := ids; f_authors := au; f_kinds := ks; f_since := s; f_until := u; f_limit := l; f_tags := tg |}.

(* kinds [7]: one block of the kinds index, newest first *)
Definition xf_k7 := flt None None (Some [7]) None None None [].
Example ex_k7 : exists p, plan_one None (Some 5) xf_k7 = Some p /\ execute_one_plan ex_store p = [ev4; ev3] /\ single_block_plan p.
Proof.
  exists (mk_plan None (Some 5) xf_k7). split; [vm_compute; reflexivity|]. split; [vm_compute; reflexivity|].
  right. exists IxKinds, (MInt 7), [2; 0; 0; 0; 7]%N. repeat split; [discriminate].
Qed.
Example ex_k7_hypotheses : wf_filter xf_k7 /\ ids_desc xf_k7 /\ range_scan_refused xf_k7 = false /\
  at_most ex_store (may_match xf_k7) 5 /\ must_match xf_k7 ev3 = true /\ delegator_only_match xf_k7 ev3 = false.
Proof.
  split; [repeat split; try (intros; discriminate); constructor|]. split; [intros l cms E; discriminate|].
  split; [reflexivity|]. split; [apply at_most_total; vm_compute; discriminate|]. split; reflexivity.
Qed.

(* ids + since/until: the id index *)
Definition xf_id := flt (Some [hx 51; hx 49]) None None (Some 1000) (Some 1010) None [].
Example ex_ids : exists p, plan_one None (Some 5) xf_id = Some p /\ map w_id (execute_one_plan ex_store p) = [hx 51; hx 49].
Proof. exists (mk_plan None (Some 5) xf_id). split; vm_compute; reflexivity. Qed.
Example ex_ids_desc : ids_desc xf_id.
Proof.
  intros l cms E Ec. injection E as <-. vm_compute in Ec. injection Ec as <-.
  repeat constructor.
Qed.

(* author + kind + tag: the chained multi-index *)
Definition xf_multi := flt None (Some [pk_b]) (Some [7]) None None None [(pys "t", [pys "abc"; pys "ab"])].
Example ex_multi : exists p st, plan_one None (Some 5) xf_multi = Some p /\ p_index p = PMulti st /\ length st = 2%nat /\
  execute_one_plan ex_store p = [ev3].
Proof.
  exists (mk_plan None (Some 5) xf_multi), (sort_stages (plan_stages xf_multi)). repeat split; vm_compute; reflexivity.
Qed.

(* since only: the created_at range scan *)
Definition xf_since := flt None None None (Some 1001) None (Some 2) [].
Example ex_range : exists p, plan_one None (Some 5) xf_since = Some p /\ p_index p = PSingle IxCreated [] /\
  map w_created (execute_one_plan ex_store p) = [1011; 1010].
Proof. exists (mk_plan None (Some 5) xf_since). repeat split; vm_compute; reflexivity. Qed.

(* ---- witnesses of the open findings ---- *)
(* F16: two kinds, limit 2: the two kind-7 events are kept although both kind-6 events are newer *)
Definition xf_k76 := flt None None (Some [7; 6]) None None (Some 2) [].
Theorem C12_kv_refuted_multi_value : exists d f p x y,
  Coherent d /\ wf_filter f /\ plan_one None (Some 5) f = Some p /\ multi_match_filter f = true /\
  stored d x /\ must_match f x = true /\ In y (execute_one_plan d p) /\ ~ In x (execute_one_plan d p) /\
  w_created y < w_created x.
Proof.
  exists ex_store, xf_k76, (mk_plan None (Some 5) xf_k76), ev2, ev3.
  split; [exact ex_coherent|]. split; [repeat split; try (intros; discriminate); constructor|].
  split; [vm_compute; reflexivity|]. split; [reflexivity|]. split; [apply ex_stored|]. split; [reflexivity|].
  assert (E : execute_one_plan ex_store (mk_plan None (Some 5) xf_k76) = [ev4; ev3]) by (vm_compute; reflexivity).
  rewrite E. split; [right; left; reflexivity|]. split; [|reflexivity].
  intros [H|[H|[]]]; discriminate.
Qed.

(* F07: authors [a]: the event delegated by a is stored and must match, and is not returned *)
Definition xf_au := flt None (Some [pk_a]) None None None None [].
Theorem C02_kv_refuted_delegator_store : exists d f p e,
  Coherent d /\ wf_filter f /\ plan_one None (Some 5) f = Some p /\ at_most d (may_match f) 5 /\
  stored d e /\ must_match f e = true /\ ~ In e (execute_one_plan d p).
Proof.
  exists ex_store, xf_au, (mk_plan None (Some 5) xf_au), ev4.
  split; [exact ex_coherent|]. split; [repeat split; try (intros; discriminate); try constructor|].
  - intros l E. injection E as <-. repeat constructor.
  - split; [vm_compute; reflexivity|]. split; [apply at_most_total; vm_compute; discriminate|].
    split; [apply ex_stored|]. split; [reflexivity|].
    assert (E : execute_one_plan ex_store (mk_plan None (Some 5) xf_au) = [ev2; ev1]) by (vm_compute; reflexivity).
    rewrite E. intros [H|[H|[]]]; discriminate.
Qed.

(* ---- the keyspace hypotheses of scanner_correct are needed ---- *)
Definition id32 (c : N) : bytes := repeat c 32.
(* no key below the index (floor_ok fails): the entry of "ab\0\1" is the first key of the store; prev() fails on it and
   the scan ends although the value "ab" is still to be scanned *)
Definition ks_nofloor : list bytes :=
  [ [9; 116; 0; 97; 98; 0; 1]%N ++ [0%N] ++ [0; 0; 0; 5]%N ++ [0%N] ++ id32 7;
    [9; 116; 0; 97; 98]%N ++ [0%N] ++ [2; 0; 0; 0]%N ++ [0%N] ++ id32 8;
    tombstone ].
Example scanner_needs_floor :
  sortedb ks_nofloor = true /\ In tombstone ks_nofloor /\
  index_scanner ks_nofloor IxTags [MStrStr (pys "t") [97; 98; 0; 1]%N; MStrStr (pys "t") (pys "ab")] None None (fun _ => true) = SOk [id32 7] /\
  scan_spec ks_nofloor IxTags [MStrStr (pys "t") [97; 98; 0; 1]%N; MStrStr (pys "t") (pys "ab")] None None (fun _ => true) = SOk [id32 7; id32 8].
Proof. vm_compute. repeat split; auto. Qed.
(* a long key that does not end with 00 ++ id (Shaped fails) is taken for an entry *)
Definition ks_unshaped : list bytes :=
  [ [0%N] ++ id32 1; [2; 0; 0; 0; 1]%N ++ [0%N] ++ [0; 0; 0; 9]%N ++ [1%N] ++ id32 7; tombstone ].
Example scanner_needs_shape :
  sortedb ks_unshaped = true /\
  index_scanner ks_unshaped IxKinds [MInt 1] None None (fun _ => true) = SOk [id32 7] /\
  scan_spec ks_unshaped IxKinds [MInt 1] None None (fun _ => true) = SOk [].
Proof. vm_compute. repeat split; auto. Qed.
