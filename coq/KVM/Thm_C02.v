(* C02 on the LMDB backend.
   (1) scanner_correct: Index.scanner = its specification on every sorted, shaped keyspace with the
       tombstone - the heart of C02 / C11 / C08 / C09.
   (2) C02_kv: on a coherent store every stored event that must match a filter is returned by the
       filter's plan, exactly once, when the limit does not cut - for every index the planner can
       choose, including the chained multi-index; per REQ an event arrives at most once per filter it may match.
   Guards (open findings): the event matches only through its NIP-26 delegation tag (F07); the planner
   refuses the filter (no index condition and no non-zero since/until). *)
From NR Require Import Lib.Base Lib.BaseFacts Lib.Nip01 KVM.Engine KVM.Keys KVM.Scan KVM.ScanSpec KVM.Order
  KVM.Coherent KVM.Plan KVM.Match KVM.Exec KVM.Spec KVM.Proofs_Scan KVM.Proofs_Blocks KVM.Proofs_ScanTop
  KVM.Proofs_Coherent KVM.Proofs_Match KVM.Proofs_Exec KVM.Proofs_Hit KVM.Thm_C01.
From Coq Require Import ZifyBool.
Open Scope list_scope. Open Scope Z_scope.

(* ------------------------------------------------------------------ (1) the scanner *)
Definition scanner_correct_statement : Prop :=
  forall (ks : list bytes) (i : idx) (matches : list mval) (since until : option Z) (events : bytes -> bool),
    StrictSorted ks -> In tombstone ks -> wf_keys ks -> Shaped ks -> floor_ok ks i ->
    (forall cms, compile (map (to_key i) matches) = Some cms ->
       (cms <> [] \/ i = IxCreated) /\ (i = IxIds -> Desc cms)) ->
    index_scanner ks i matches since until events = scan_spec ks i matches since until events.

Theorem scanner_correct : scanner_correct_statement.
Proof. exact scanner_correct_proof. Qed.

(* in particular the cursor machine terminates within its fuel *)
Corollary scanner_terminates ks i matches since until events :
  StrictSorted ks -> In tombstone ks -> wf_keys ks -> Shaped ks -> floor_ok ks i ->
  (forall cms, compile (map (to_key i) matches) = Some cms -> (cms <> [] \/ i = IxCreated) /\ (i = IxIds -> Desc cms)) ->
  index_scanner ks i matches since until events <> SFuel.
Proof.
  intros. rewrite scanner_correct by assumption. unfold scan_spec.
  destruct (compile _); [|discriminate]. destruct (conv_time since); [|discriminate]. destruct (conv_time until); [|discriminate].
  destruct l; destruct i; discriminate.
Qed.

(* the hypotheses on the keyspace hold of every coherent store *)
Theorem scanner_correct_coherent d i ms since until ev :
  Coherent d ->
  (forall cms, compile (map (to_key i) ms) = Some cms -> (cms <> [] \/ i = IxCreated) /\ (i = IxIds -> Desc cms)) ->
  index_scanner (keys d) i ms since until ev = scan_spec (keys d) i ms since until ev.
Proof. exact (coherent_scanner_correct d i ms since until ev). Qed.

(* ------------------------------------------------------------------ (2) answers *)
(* "no more than n stored events satisfy P" *)
Definition at_most (d : kvdb) (P : wevent -> bool) (n : Z) : Prop :=
  forall l, NoDup (map w_id l) -> (forall e, In e l -> stored d e /\ P e = true) -> Z.of_nat (length l) <= n.

Lemma count_id_once e l : NoDup (map w_id l) -> In e l -> count_id e l = 1%nat.
Proof.
  unfold count_id. induction l as [|x r IH]; intros Hn Hin; [destruct Hin|].
  simpl in Hn. inversion Hn as [|? ? Hx Hr]; subst. simpl.
  assert (Hzero : forall y, ~ In (w_id y) (map w_id r) -> count_occ_b (same_id y) r = 0%nat).
  { intros y Hy. clear -Hy. induction r as [|z r IH]; [reflexivity|]. simpl.
    assert (same_id y z = false) as ->.
    { unfold same_id. apply str_eqb_neq. intros E. apply Hy. left. symmetry. exact E. }
    apply IH. intros H. apply Hy. right. exact H. }
  destruct Hin as [->|Hin].
  - unfold same_id at 1. rewrite str_eqb_refl. rewrite (Hzero e Hx). reflexivity.
  - assert (same_id e x = false) as ->.
    { unfold same_id. apply str_eqb_neq. intros E. apply Hx. rewrite <- E. apply in_map. exact Hin. }
    simpl. apply IH; assumption.
Qed.
Lemma count_id_le_one e l : NoDup (map w_id l) -> (count_id e l <= 1)%nat.
Proof.
  unfold count_id. induction l as [|x r IH]; intros Hn; [simpl; lia|].
  simpl in Hn. inversion Hn as [|? ? Hx Hr]; subst. simpl. specialize (IH Hr).
  destruct (same_id e x) eqn:E; [|simpl; lia].
  unfold same_id in E. apply str_eqb_eq in E.
  assert (count_occ_b (same_id e) r = 0%nat); [|simpl; lia].
  clear IH Hn Hr. induction r as [|z r IH]; [reflexivity|]. simpl.
  assert (same_id e z = false) as ->.
  { unfold same_id. apply str_eqb_neq. intros E2. apply Hx. left. congruence. }
  apply IH. intros H. apply Hx. right. exact H.
Qed.
Lemma count_id_pos_In e l : (1 <= count_id e l)%nat -> exists x, In x l /\ w_id x = w_id e.
Proof.
  unfold count_id. induction l as [|x r IH]; simpl; [lia|].
  destruct (same_id e x) eqn:E.
  - intros _. exists x. split; [left; reflexivity|]. unfold same_id in E. apply str_eqb_eq in E. congruence.
  - simpl. intros H. destruct (IH H) as [y [Hy Ey]]. exists y. split; [right; assumption|assumption].
Qed.

(* the limit does not cut when no more stored events may match than it allows *)
Lemma under_limit_not_truncated dl mx d f p ids :
  Coherent d -> wf_filter f -> plan_one dl mx f = Some p ->
  (forall n, p_limit p = Some n -> at_most d (may_match f) n) ->
  not_truncated (p_limit p) (matcher d (p_query p) ids []).
Proof.
  intros Hc Hwf Hp Hlim. unfold not_truncated. destruct (p_limit p) as [n|] eqn:El; [|exact I].
  apply (Hlim n eq_refl).
  - apply (matcher_nodup d (p_query p) (fun i e H => proj1 (coherent_primary d i e Hc H)) ids []).
  - intros e He. destruct (matcher_sound _ _ _ _ _ He) as [i [_ [Hg Hr]]].
    destruct (coherent_primary d i e Hc Hg) as [_ [Hst [Hh [Hpk _]]]]. split; [exact Hst|].
    rewrite (plan_one_query _ _ _ _ Hp) in Hr. apply residual_may_match; auto.
Qed.

(* every stored event the residual accepts is returned, once *)
Theorem kv_plan_complete dl mx d f p e :
  Coherent d -> wf_filter f -> ids_desc f -> plan_one dl mx f = Some p ->
  (forall n, p_limit p = Some n -> at_most d (may_match f) n) ->
  stored d e -> residual (plan_items f) e = true ->
  In e (execute_one_plan d p) /\ count_id e (execute_one_plan d p) = 1%nat.
Proof.
  intros Hc Hwf Hdesc Hp Hlim Hst Hr.
  destruct (stored_get d e Hc Hst) as [idb [Hid Hg]].
  destruct (plan_hit dl mx d f p e idb Hc Hwf Hdesc Hp Hst Hid Hr) as [ids [Hs Hin]].
  assert (Hin' : In e (execute_one_plan d p)).
  { eapply exec_complete; eauto.
    - rewrite (plan_one_query _ _ _ _ Hp). exact Hr.
    - eapply under_limit_not_truncated; eauto. }
  split; [exact Hin'|]. apply count_id_once; [apply exec_nodup, Hc|exact Hin'].
Qed.

(* a plan exists unless the filter is skipped (it then matches nothing) or refused *)
Lemma has_tag_value_nil e n : has_tag_value e n [] = false.
Proof.
  unfold has_tag_value. induction (w_tags e) as [|t ts IH]; [reflexivity|]. simpl.
  destruct t as [|a [|b c]]; simpl; try exact IH. rewrite andb_false_r. exact IH.
Qed.
Lemma tags_nonempty_values e tags : forallb (fun nv => has_tag_value e (fst nv) (snd nv)) tags = true ->
  existsb (fun nv : pystr * list pystr => match snd nv with [] => true | _ => false end) tags = false.
Proof.
  induction tags as [|[n vs] r IH]; [reflexivity|]. simpl. intros H. apply andb_true_iff in H. destruct H as [H1 H2].
  rewrite (IH H2), orb_false_r. destruct vs; [rewrite has_tag_value_nil in H1; discriminate|reflexivity].
Qed.
Lemma must_match_not_skipped f e : must_match f e = true -> skipped f = false.
Proof.
  unfold must_match, core_match, skipped, in_opt_str, in_opt_Z, author_or_delegator, is_empty_list. intros H.
  repeat (apply andb_true_iff in H; destruct H as [H ?]).
  rewrite (tags_nonempty_values e (f_tags f)) by assumption.
  destruct (f_ids f) as [[|? ?]|]; try discriminate; destruct (f_kinds f) as [[|? ?]|]; try discriminate;
    destruct (f_authors f) as [[|? ?]|]; try discriminate; try reflexivity;
    match goal with Ha : _ || has_tag_value _ _ [] = true |- _ => rewrite has_tag_value_nil in Ha; discriminate end.
Qed.
Lemma plan_exists dl mx f : skipped f = false -> range_scan_refused f = false -> exists p, plan_one dl mx f = Some p.
Proof.
  unfold plan_one, range_scan_refused, no_index_filter, plan_stages, stage_ids, stage_ak, stage_tags. intros -> H.
  destruct (f_ids f); [simpl; eauto|]. destruct (f_kinds f); destruct (f_authors f); try (simpl; eauto; fail).
  destruct (f_tags f); [|simpl; eauto]. simpl in *.
  change (truthy (f_since f)) with (nonzero (f_since f)). change (truthy (f_until f)) with (nonzero (f_until f)).
  destruct (nonzero (f_since f) || nonzero (f_until f)); [eauto|discriminate].
Qed.

(* C02-kv, per filter: complete and exactly once when under the limit *)
Theorem C02_kv_partial dl mx d f e :
  Coherent d -> (forall x, stored d x -> tags_ok x) -> wf_filter f -> ids_desc f ->
  range_scan_refused f = false ->
  stored d e -> must_match f e = true -> delegator_only_match f e = false ->
  exists p, plan_one dl mx f = Some p /\
    ((forall n, p_limit p = Some n -> at_most d (may_match f) n) ->
     In e (execute_one_plan d p) /\ count_id e (execute_one_plan d p) = 1%nat).
Proof.
  intros Hc Htags Hwf Hdesc Href Hst Hm Hdel.
  destruct (plan_exists dl mx f (must_match_not_skipped f e Hm) Href) as [p Hp]. exists p. split; [exact Hp|].
  intros Hlim. eapply kv_plan_complete; eauto.
  destruct (stored_get d e Hc Hst) as [i [Hi Hg]]. destruct (coherent_primary d i e Hc Hg) as [_ [_ [Hh [Hpk _]]]].
  apply must_match_residual; auto.
Qed.

(* per REQ: an event arrives at most once per filter (of the first five) that it may match *)
Theorem C02_kv_at_most dl mx d fs e :
  Coherent d -> Forall wf_filter fs -> stored d e ->
  (count_id e (answer_kv dl mx d fs) <= count_occ_b (fun f => may_match f e) (firstn maximum_plans fs))%nat.
Proof.
  intros Hc Hwf Hst. unfold answer_kv, executor, planner.
  assert (Hwf' : Forall wf_filter (firstn maximum_plans fs)).
  { apply Forall_forall. intros f Hf. rewrite Forall_forall in Hwf. apply Hwf. eapply firstn_In; eauto. }
  clear Hwf. induction (firstn maximum_plans fs) as [|f r IH]; [unfold count_id; simpl; lia|].
  inversion Hwf' as [|? ? Hf Hr]; subst. specialize (IH Hr). simpl.
  destruct (plan_one dl mx f) as [p|] eqn:Ep; simpl.
  - unfold count_id in *.
    assert (Hcnt : forall a b, count_occ_b (same_id e) (a ++ b) = (count_occ_b (same_id e) a + count_occ_b (same_id e) b)%nat).
    { induction a as [|x a IHa]; intros b; simpl; [reflexivity|]. rewrite IHa. lia. }
    rewrite Hcnt.
    pose proof (count_id_le_one e (execute_one_plan d p) (exec_nodup d p Hc)) as H1. unfold count_id in H1.
    destruct (may_match f e) eqn:Em; [lia|].
    assert (count_occ_b (same_id e) (execute_one_plan d p) = 0%nat); [|lia].
    destruct (count_occ_b (same_id e) (execute_one_plan d p)) eqn:Ec; [reflexivity|exfalso].
    destruct (count_id_pos_In e (execute_one_plan d p)) as [x [Hx Ex]]; [unfold count_id; lia|].
    destruct (exec_sound _ _ _ Hx) as [i [Hg Hres]].
    destruct (coherent_primary d i x Hc Hg) as [_ [_ [Hh [Hpk _]]]].
    rewrite (plan_one_query _ _ _ _ Ep) in Hres.
    pose proof (residual_may_match f x Hf Hh Hpk Hres) as Hmx.
    (* x and e are both stored under the same id: the same record *)
    destruct (stored_get d e Hc Hst) as [j [Hj Hge]].
    destruct (coherent_primary d i x Hc Hg) as [Hix _].
    unfold id_bytes in Hix, Hj. rewrite Ex, Hj in Hix. injection Hix as ->.
    rewrite Hg in Hge. injection Hge as ->. congruence.
  - destruct (may_match f e); lia.
Qed.

(* per REQ: a stored event that must match one of the first five filters (under that filter's limit) arrives at least once *)
Theorem C02_kv_req_at_least_once dl mx d fs f e :
  Coherent d -> (forall x, stored d x -> tags_ok x) -> In f (firstn maximum_plans fs) -> wf_filter f -> ids_desc f ->
  range_scan_refused f = false ->
  (forall n, p_limit (mk_plan dl mx f) = Some n -> at_most d (may_match f) n) ->
  stored d e -> must_match f e = true -> delegator_only_match f e = false ->
  In e (answer_kv dl mx d fs).
Proof.
  intros Hc Htags Hf Hwf Hdesc Href Hlim Hst Hm Hdel.
  destruct (C02_kv_partial dl mx d f e Hc Htags Hwf Hdesc Href Hst Hm Hdel) as [p [Hp Hin]].
  assert (Ep : p = mk_plan dl mx f).
  { unfold plan_one in Hp. destruct (skipped f); [discriminate|].
    destruct (plan_stages f); [destruct (_ || _); [|discriminate]|]; injection Hp as <-; reflexivity. }
  subst p. destruct (Hin Hlim) as [He _].
  unfold answer_kv, executor. apply in_concat. exists (execute_one_plan d (mk_plan dl mx f)). split; [|exact He].
  apply in_map. unfold planner. apply in_flat_map. exists f. split; [exact Hf|]. rewrite Hp. left. reflexivity.
Qed.
