#!/bin/bash
# Runs the repository's pinned test suite (guard off) and compares with /root/.vp/BASELINE.json stable_pass.
out=$(mktemp -d)
cd /repo && env -u NOSTR_RELAY_VERIF timeout 1200 /venv/bin/python -m pytest -ra -q -p no:cacheprovider --timeout=900 --continue-on-collection-errors --junitxml=$out/junit.xml > $out/log 2>&1
python3 - "$out/junit.xml" <<'PY'
import json, sys, xml.etree.ElementTree as ET
b = json.load(open('/root/.vp/BASELINE.json'))
t = ET.parse(sys.argv[1]).getroot()
passed = {tc.get('classname') + '::' + tc.get('name') for tc in t.iter('testcase') if not list(tc)}
missing = [x for x in b['stable_pass'] if x not in passed]
print("baseline: %d/%d stable tests pass" % (len(b['stable_pass']) - len(missing), len(b['stable_pass'])))
for m in missing: print("  MISSING", m)
sys.exit(1 if missing else 0)
PY
rc=$?
rm -rf $out /repo/.coverage /repo/htmlcov 2>/dev/null
exit $rc
