#!/usr/bin/env python3
"""pyfrag: fail-closed translator from a tiny subset of Python (parsed with
`ast`, never imported) to Gallina.  Regenerates coq/Gen/*.v from the working
tree of the repository on every check run, so that the theorems about these
definitions are re-checked against what the code says *now*.

Subset (anything else => TRANSLATE-FAIL <target>: <reason>, and the target's
definition is not emitted, so every proof depending on it breaks):
  expressions : int/str constants, names bound by parameters or straight-line
                assignment, attribute access on typed records (event.*, config.*,
                self.*), len(), + - * unary -, comparisons (chained allowed),
                and/or/not with Python truthiness made explicit, `in`/`not in`
                over tuple literals and typed lists, x[i] on tag lists,
                time() (becomes the explicit parameter `now`),
                int.from_bytes(event.id_bytes,"big").bit_length(),
                len([t for t in xs if <cond>]), bool(e), a.intersection(b)
Plugins: tools/pyfrag.d/*.py each define generate(repo, outdir) and use the core below
(`from pyfrag import *`): expr/block/compare/listcomp, find_func, target, emit, HEADER, Ctx,
Unsupported, RECORDS, COQ_FIELD, coq_str.
  statements  : docstring, if/elif/else, raise E(...) (class kept, message
                dropped), return [expr], assignment to a fresh name, and
                `for x in xs: <if ...: raise/return>` loops over typed lists.
Types: Z, bool, str (pystr), list Z, list str, tag (list str), list tag, roleset.
"""
import argparse
import ast
import os
import sys

FAILS = []


class Unsupported(Exception):
    pass


# ---- typed records --------------------------------------------------------
RECORDS = {
    "event": {
        "content": "str", "created_at": "Z", "kind": "Z", "pubkey": "str", "id": "str",
        "tags": "list tag", "sig": "str",
    },
    "config": {
        "max_event_size": "Z", "oldest_event": "Z", "valid_kinds": "list Z",
        "pubkey_whitelist": "list str", "pubkey_blacklist": "list str", "require_pow": "Z",
        "hellthread_limit": "Z", "service_pubkey": "str", "subscription_limit": "Z", "max_limit": "Z",
    },
}
COQ_FIELD = {
    ("event", "content"): "ev_content", ("event", "created_at"): "ev_created_at", ("event", "kind"): "ev_kind",
    ("event", "pubkey"): "ev_pubkey", ("event", "id"): "ev_id", ("event", "tags"): "ev_tags", ("event", "sig"): "ev_sig",
}


def coq_str(s):
    if any(ord(c) > 126 or ord(c) < 32 or c == '"' for c in s):
        return "[" + "; ".join("%d%%N" % ord(c) for c in s) + "]"
    return '(pys "%s")' % s


class Ctx:
    def __init__(self, env, errors=None):
        self.env = dict(env)       # name -> (coq expr, type)
        self.uses_now = False


def truthy(e, t):
    if t == "bool":
        return e
    if t == "Z":
        return "(negb (Z.eqb %s 0))" % e
    if t in ("str", "list Z", "list str", "list tag", "tag", "roleset"):
        return "(negb (is_nil %s))" % e
    raise Unsupported("truthiness of type %s" % t)


def expr(n, c):
    """-> (coq, type)"""
    if isinstance(n, ast.Constant):
        if isinstance(n.value, bool):
            return ("true" if n.value else "false"), "bool"
        if isinstance(n.value, int):
            return ("(%d)" % n.value), "Z"
        if isinstance(n.value, str):
            return coq_str(n.value), "str"
        raise Unsupported("constant %r" % (n.value,))
    if isinstance(n, ast.Name):
        if n.id in c.env:
            return c.env[n.id]
        raise Unsupported("free name %s" % n.id)
    if isinstance(n, ast.Attribute):
        if isinstance(n.value, ast.Name) and n.value.id in c.env and c.env[n.value.id][1] in RECORDS:
            rec = c.env[n.value.id][1]
            if n.attr in RECORDS[rec]:
                f = COQ_FIELD.get((rec, n.attr), "cf_" + n.attr if rec == "config" else n.attr)
                return "(%s %s)" % (f, c.env[n.value.id][0]), RECORDS[rec][n.attr]
        # EventKind.DELETE style constants are resolved by the caller's env
        key = ast.unparse(n)
        if key in c.env:
            return c.env[key]
        raise Unsupported("attribute %s" % ast.unparse(n))
    if isinstance(n, ast.UnaryOp):
        if isinstance(n.op, ast.Not):
            e, t = expr(n.operand, c)
            return "(negb %s)" % truthy(e, t), "bool"
        if isinstance(n.op, ast.USub):
            e, t = expr(n.operand, c)
            if t != "Z":
                raise Unsupported("unary minus on %s" % t)
            return "(- %s)" % e, "Z"
        raise Unsupported("unary op")
    if isinstance(n, ast.BinOp):
        a, ta = expr(n.left, c)
        b, tb = expr(n.right, c)
        if ta == tb == "Z":
            op = {ast.Add: "+", ast.Sub: "-", ast.Mult: "*"}.get(type(n.op))
            if op:
                return "(%s %s %s)" % (a, op, b), "Z"
        raise Unsupported("binop %s on %s,%s" % (type(n.op).__name__, ta, tb))
    if isinstance(n, ast.BoolOp):
        parts = [expr(v, c) for v in n.values]
        # Python's and/or return operands; we only allow them where the result is used as a truth value
        bs = [truthy(e, t) for e, t in parts]
        op = " && " if isinstance(n.op, ast.And) else " || "
        return "(" + op.join(bs) + ")", "bool"
    if isinstance(n, ast.Compare):
        res = []
        left = n.left
        for op, right in zip(n.ops, n.comparators):
            res.append(compare(left, op, right, c))
            left = right
        return ("(" + " && ".join(res) + ")" if len(res) > 1 else res[0]), "bool"
    if isinstance(n, ast.Call):
        f = n.func
        if isinstance(f, ast.Name) and f.id == "len" and len(n.args) == 1:
            a = n.args[0]
            if isinstance(a, ast.ListComp):
                return "(Z.of_nat (length %s))" % listcomp(a, c)[0], "Z"
            e, t = expr(a, c)
            if t in ("str", "list Z", "list str", "list tag", "tag"):
                return "(Z.of_nat (length %s))" % e, "Z"
            raise Unsupported("len of %s" % t)
        if isinstance(f, ast.Name) and f.id == "time" and not n.args:
            c.uses_now = True
            return "now", "Z"
        if isinstance(f, ast.Name) and f.id == "bool" and len(n.args) == 1:
            e, t = expr(n.args[0], c)
            return truthy(e, t), "bool"
        if isinstance(f, ast.Name) and f.id == "isinstance" and len(n.args) == 2 and "jv" in [c.env.get(getattr(n.args[0], "id", None), (None, None))[1]]:
            e, _ = expr(n.args[0], c)
            ty = ast.unparse(n.args[1])
            m = {"list": "jv_is_list", "dict": "jv_is_dict", "str": "jv_is_str"}
            if ty in m:
                return "(%s %s)" % (m[ty], e), "bool"
            raise Unsupported("isinstance %s" % ty)
        src = ast.unparse(n)
        if src == "int.from_bytes(event.id_bytes, 'big').bit_length()" and "event" in c.env:
            return "(bit_length_of_hex (ev_id %s))" % c.env["event"][0], "Z"
        if isinstance(f, ast.Attribute) and f.attr == "intersection" and len(n.args) == 1:
            a, ta = expr(f.value, c)
            b, tb = expr(n.args[0], c)
            if ta == tb == "roleset":
                return "(role_inter %s %s)" % (a, b), "roleset"
        raise Unsupported("call %s" % src)
    if isinstance(n, ast.Subscript):
        e, t = expr(n.value, c)
        if isinstance(n.slice, ast.Constant) and isinstance(n.slice.value, int) and n.slice.value >= 0:
            i = n.slice.value
            if t == "tag":
                return "(nth %d %s [])" % (i, e), "str"       # guarded uses only; see tag_index_guard
            if t == "jvlist":
                return "(nth %d %s JNull)" % (i, e), "jv"
        raise Unsupported("subscript %s" % ast.unparse(n))
    if isinstance(n, ast.Tuple) or isinstance(n, ast.List):
        parts = [expr(x, c) for x in n.elts]
        ts = {t for _, t in parts}
        if ts == {"Z"}:
            return "[" + "; ".join(e for e, _ in parts) + "]", "list Z"
        if ts == {"str"}:
            return "[" + "; ".join(e for e, _ in parts) + "]", "list str"
        raise Unsupported("tuple of %s" % ts)
    raise Unsupported("expression %s" % type(n).__name__)


def listcomp(n, c):
    if len(n.generators) != 1 or n.generators[0].is_async:
        raise Unsupported("comprehension shape")
    g = n.generators[0]
    if not isinstance(g.target, ast.Name) or not isinstance(n.elt, ast.Name) or n.elt.id != g.target.id:
        raise Unsupported("comprehension must be [t for t in xs if c]")
    xs, tx = expr(g.iter, c)
    if tx != "list tag":
        raise Unsupported("comprehension over %s" % tx)
    c2 = Ctx(c.env)
    c2.env[g.target.id] = (g.target.id + "_", "tag")
    conds = [truthy(*expr(i, c2)) for i in g.ifs] or ["true"]
    c.uses_now |= c2.uses_now
    return "(filter (fun %s_ => %s) %s)" % (g.target.id, " && ".join(conds), xs), "list tag"


def compare(l, op, r, c):
    a, ta = expr(l, c)
    b, tb = expr(r, c)
    if isinstance(op, (ast.In, ast.NotIn)):
        if ta == "Z" and tb == "list Z":
            e = "(mem_Z %s %s)" % (a, b)
        elif ta == "str" and tb == "list str":
            e = "(mem_str %s %s)" % (a, b)
        else:
            raise Unsupported("membership %s in %s" % (ta, tb))
        return e if isinstance(op, ast.In) else "(negb %s)" % e
    if ta == tb == "Z":
        m = {ast.Lt: "<?", ast.LtE: "<=?", ast.Gt: ">?", ast.GtE: ">=?", ast.Eq: "=?"}
        if type(op) in m:
            return "(%s %s %s)" % (a, m[type(op)], b)
        if isinstance(op, ast.NotEq):
            return "(negb (%s =? %s))" % (a, b)
    if ta == tb == "str":
        if isinstance(op, ast.Eq):
            return "(str_eqb %s %s)" % (a, b)
        if isinstance(op, ast.NotEq):
            return "(negb (str_eqb %s %s))" % (a, b)
    raise Unsupported("comparison %s between %s and %s" % (type(op).__name__, ta, tb))


def err_name(n):
    """raise StorageError(...) -> constructor name"""
    if isinstance(n, ast.Call):
        n = n.func
    if isinstance(n, ast.Name):
        return n.id
    raise Unsupported("raise of %s" % ast.unparse(n))


def block(stmts, c, cont, mode):
    """Translate statement list to an expression.
    mode 'raises': value type option pystr (Some E = raised E, None = fell through / returned normally)
    mode 'bool'  : value type bool (return values), falling through is not allowed to be reached => cont"""
    if not stmts:
        return cont
    s, rest = stmts[0], stmts[1:]
    if isinstance(s, ast.Expr) and isinstance(s.value, ast.Constant) and isinstance(s.value.value, str):
        return block(rest, c, cont, mode)
    if isinstance(s, ast.Raise):
        if mode != "raises":
            raise Unsupported("raise in a bool function")
        return "(Some %s)" % coq_str(err_name(s.exc))
    if isinstance(s, ast.Return):
        if mode == "raises":
            if s.value is not None and not (isinstance(s.value, ast.Constant) and s.value.value is None):
                raise Unsupported("return with value in a validator")
            return "None"
        e, t = expr(s.value, c)
        return truthy(e, t) if t != "bool" else e
    if isinstance(s, ast.If):
        test = truthy(*expr(s.test, c))
        k = block(rest, c, cont, mode)
        return "(if %s then %s else %s)" % (test, block(s.body, c, k, mode), block(s.orelse, c, k, mode))
    if isinstance(s, ast.Assign) and len(s.targets) == 1 and isinstance(s.targets[0], ast.Name):
        name = s.targets[0].id
        e, t = expr(s.value, c)
        c2 = Ctx(c.env)
        c2.env[name] = ("v_" + name, t)
        r = block(rest, c2, cont, mode)
        c.uses_now |= c2.uses_now
        return "(let v_%s := %s in %s)" % (name, e, r)
    raise Unsupported("statement %s" % type(s).__name__)


def find_func(tree, name, cls=None):
    body = tree.body
    if cls:
        for n in body:
            if isinstance(n, ast.ClassDef) and n.name == cls:
                body = n.body
                break
        else:
            raise Unsupported("class %s not found" % cls)
    for n in body:
        if isinstance(n, (ast.FunctionDef, ast.AsyncFunctionDef)) and n.name == name:
            return n
    raise Unsupported("function %s not found" % name)


def translate_validator(tree, name):
    fn = find_func(tree, name)
    args = [a.arg for a in fn.args.args]
    if args != ["event", "config"]:
        raise Unsupported("signature %s" % args)
    c = Ctx({"event": ("event", "event"), "config": ("config", "config")})
    body = block(fn.body, c, "None", "raises")
    return "Definition v_%s (now : Z) (event : vevent) (config : vconfig) : option pystr :=\n  %s.\n" % (name, body)


CURRENT = ["core"]
EMITTED = {}


def emit(path, text):
    EMITTED.setdefault(CURRENT[0], set()).add(os.path.basename(path))
    if not os.path.exists(path) or open(path).read() != text:
        with open(path, "w") as f:
            f.write(text)


def target(out, label, fn):
    try:
        out.append(fn())
    except Unsupported as e:
        FAILS.append("%s: %s" % (label, e))
        print("TRANSLATE-FAIL [%s] %s: %s" % (CURRENT[0], label, e))
    except (SyntaxError, OSError) as e:
        FAILS.append("%s: %s" % (label, e))
        print("TRANSLATE-FAIL [%s] %s: %s" % (CURRENT[0], label, e))


HEADER = "(* Generated by tools/pyfrag.py from %s - do not edit. *)\nFrom NR Require Import Lib.Base Lib.PyRt.\nOpen Scope Z_scope.\n\n"


def main():
    import glob
    import importlib.util
    ap = argparse.ArgumentParser()
    ap.add_argument("--repo", default="/repo")
    ap.add_argument("--out", required=True)
    a = ap.parse_args()
    os.makedirs(a.out, exist_ok=True)
    here = os.path.dirname(os.path.abspath(__file__))
    sys.modules.setdefault("pyfrag", sys.modules[__name__])
    for plug in sorted(glob.glob(os.path.join(here, "pyfrag.d", "*.py"))):
        name = "pyfrag_plugin_" + os.path.basename(plug)[:-3]
        CURRENT[0] = os.path.basename(plug)[:-3]
        import re as _re
        for fn in _re.findall(r'"([A-Za-z0-9_]+\.v)"', open(plug).read()):
            EMITTED.setdefault(CURRENT[0], set()).add(fn)
        try:
            spec = importlib.util.spec_from_file_location(name, plug)
            mod = importlib.util.module_from_spec(spec)
            spec.loader.exec_module(mod)
            mod.generate(a.repo, a.out)
        except Unsupported as e:
            print("TRANSLATE-FAIL [%s] %s: %s" % (CURRENT[0], os.path.basename(plug), e))
            FAILS.append(plug)
        except Exception as e:  # fail closed: a crashing plugin is a broken translation
            print("TRANSLATE-FAIL [%s] %s: %s: %s" % (CURRENT[0], os.path.basename(plug), type(e).__name__, e))
            FAILS.append(plug)
    for plug, files in sorted(EMITTED.items()):
        print("PLUGIN-FILES %s %s" % (plug, " ".join(sorted(files))))
    sys.exit(1 if FAILS else 0)


if __name__ == "__main__":
    main()
