#!/usr/bin/env python3
"""pyfrag: fail-closed translator from a tiny subset of Python (parsed with
`ast`, never imported) to Gallina.  Regenerates coq/Gen/*.v from the working
tree of the repository on every check run, so that the theorems about these
definitions are re-checked against what the code says *now*.

Subset (anything else => TRANSLATE-FAIL <target>: <reason>, and the target's
definition is not emitted, so every proof depending on it breaks):
  expressions : int/str constants, names bound by parameters or straight-line
                assignment, attribute access on typed records (event.*, config.*,
                self.*), len(), + - * unary -, comparisons (chained allowed),
                and/or/not with Python truthiness made explicit, `in`/`not in`
                over tuple literals and typed lists, x[i] on tag lists,
                time() (becomes the explicit parameter `now`),
                int.from_bytes(event.id_bytes,"big").bit_length(),
                len([t for t in xs if <cond>]), bool(e), a.intersection(b)
  statements  : docstring, if/elif/else, raise E(...) (class kept, message
                dropped), return [expr], assignment to a fresh name, and
                `for x in xs: <if ...: raise/return>` loops over typed lists.
Types: Z, bool, str (pystr), list Z, list str, tag (list str), list tag, roleset.
"""
import argparse
import ast
import os
import sys

FAILS = []


class Unsupported(Exception):
    pass


# ---- typed records --------------------------------------------------------
RECORDS = {
    "event": {
        "content": "str", "created_at": "Z", "kind": "Z", "pubkey": "str", "id": "str",
        "tags": "list tag", "sig": "str",
    },
    "config": {
        "max_event_size": "Z", "oldest_event": "Z", "valid_kinds": "list Z",
        "pubkey_whitelist": "list str", "pubkey_blacklist": "list str", "require_pow": "Z",
        "hellthread_limit": "Z", "service_pubkey": "str", "subscription_limit": "Z", "max_limit": "Z",
    },
}
COQ_FIELD = {
    ("event", "content"): "ev_content", ("event", "created_at"): "ev_created_at", ("event", "kind"): "ev_kind",
    ("event", "pubkey"): "ev_pubkey", ("event", "id"): "ev_id", ("event", "tags"): "ev_tags", ("event", "sig"): "ev_sig",
}


def coq_str(s):
    if any(ord(c) > 126 or ord(c) < 32 or c == '"' for c in s):
        return "[" + "; ".join("%d%%N" % ord(c) for c in s) + "]"
    return '(pys "%s")' % s


class Ctx:
    def __init__(self, env, errors=None):
        self.env = dict(env)       # name -> (coq expr, type)
        self.uses_now = False


def truthy(e, t):
    if t == "bool":
        return e
    if t == "Z":
        return "(negb (Z.eqb %s 0))" % e
    if t in ("str", "list Z", "list str", "list tag", "tag", "roleset"):
        return "(negb (is_nil %s))" % e
    raise Unsupported("truthiness of type %s" % t)


def expr(n, c):
    """-> (coq, type)"""
    if isinstance(n, ast.Constant):
        if isinstance(n.value, bool):
            return ("true" if n.value else "false"), "bool"
        if isinstance(n.value, int):
            return ("(%d)" % n.value), "Z"
        if isinstance(n.value, str):
            return coq_str(n.value), "str"
        raise Unsupported("constant %r" % (n.value,))
    if isinstance(n, ast.Name):
        if n.id in c.env:
            return c.env[n.id]
        raise Unsupported("free name %s" % n.id)
    if isinstance(n, ast.Attribute):
        if isinstance(n.value, ast.Name) and n.value.id in c.env and c.env[n.value.id][1] in RECORDS:
            rec = c.env[n.value.id][1]
            if n.attr in RECORDS[rec]:
                f = COQ_FIELD.get((rec, n.attr), "cf_" + n.attr if rec == "config" else n.attr)
                return "(%s %s)" % (f, c.env[n.value.id][0]), RECORDS[rec][n.attr]
        # EventKind.DELETE style constants are resolved by the caller's env
        key = ast.unparse(n)
        if key in c.env:
            return c.env[key]
        raise Unsupported("attribute %s" % ast.unparse(n))
    if isinstance(n, ast.UnaryOp):
        if isinstance(n.op, ast.Not):
            e, t = expr(n.operand, c)
            return "(negb %s)" % truthy(e, t), "bool"
        if isinstance(n.op, ast.USub):
            e, t = expr(n.operand, c)
            if t != "Z":
                raise Unsupported("unary minus on %s" % t)
            return "(- %s)" % e, "Z"
        raise Unsupported("unary op")
    if isinstance(n, ast.BinOp):
        a, ta = expr(n.left, c)
        b, tb = expr(n.right, c)
        if ta == tb == "Z":
            op = {ast.Add: "+", ast.Sub: "-", ast.Mult: "*"}.get(type(n.op))
            if op:
                return "(%s %s %s)" % (a, op, b), "Z"
        raise Unsupported("binop %s on %s,%s" % (type(n.op).__name__, ta, tb))
    if isinstance(n, ast.BoolOp):
        parts = [expr(v, c) for v in n.values]
        # Python's and/or return operands; we only allow them where the result is used as a truth value
        bs = [truthy(e, t) for e, t in parts]
        op = " && " if isinstance(n.op, ast.And) else " || "
        return "(" + op.join(bs) + ")", "bool"
    if isinstance(n, ast.Compare):
        res = []
        left = n.left
        for op, right in zip(n.ops, n.comparators):
            res.append(compare(left, op, right, c))
            left = right
        return ("(" + " && ".join(res) + ")" if len(res) > 1 else res[0]), "bool"
    if isinstance(n, ast.Call):
        f = n.func
        if isinstance(f, ast.Name) and f.id == "len" and len(n.args) == 1:
            a = n.args[0]
            if isinstance(a, ast.ListComp):
                return "(Z.of_nat (length %s))" % listcomp(a, c)[0], "Z"
            e, t = expr(a, c)
            if t in ("str", "list Z", "list str", "list tag", "tag"):
                return "(Z.of_nat (length %s))" % e, "Z"
            raise Unsupported("len of %s" % t)
        if isinstance(f, ast.Name) and f.id == "time" and not n.args:
            c.uses_now = True
            return "now", "Z"
        if isinstance(f, ast.Name) and f.id == "bool" and len(n.args) == 1:
            e, t = expr(n.args[0], c)
            return truthy(e, t), "bool"
        if isinstance(f, ast.Name) and f.id == "isinstance" and len(n.args) == 2 and "jv" in [c.env.get(getattr(n.args[0], "id", None), (None, None))[1]]:
            e, _ = expr(n.args[0], c)
            ty = ast.unparse(n.args[1])
            m = {"list": "jv_is_list", "dict": "jv_is_dict", "str": "jv_is_str"}
            if ty in m:
                return "(%s %s)" % (m[ty], e), "bool"
            raise Unsupported("isinstance %s" % ty)
        src = ast.unparse(n)
        if src == "int.from_bytes(event.id_bytes, 'big').bit_length()" and "event" in c.env:
            return "(bit_length_of_hex (ev_id %s))" % c.env["event"][0], "Z"
        if isinstance(f, ast.Attribute) and f.attr == "intersection" and len(n.args) == 1:
            a, ta = expr(f.value, c)
            b, tb = expr(n.args[0], c)
            if ta == tb == "roleset":
                return "(role_inter %s %s)" % (a, b), "roleset"
        raise Unsupported("call %s" % src)
    if isinstance(n, ast.Subscript):
        e, t = expr(n.value, c)
        if isinstance(n.slice, ast.Constant) and isinstance(n.slice.value, int) and n.slice.value >= 0:
            i = n.slice.value
            if t == "tag":
                return "(nth %d %s [])" % (i, e), "str"       # guarded uses only; see tag_index_guard
            if t == "jvlist":
                return "(nth %d %s JNull)" % (i, e), "jv"
        raise Unsupported("subscript %s" % ast.unparse(n))
    if isinstance(n, ast.Tuple) or isinstance(n, ast.List):
        parts = [expr(x, c) for x in n.elts]
        ts = {t for _, t in parts}
        if ts == {"Z"}:
            return "[" + "; ".join(e for e, _ in parts) + "]", "list Z"
        if ts == {"str"}:
            return "[" + "; ".join(e for e, _ in parts) + "]", "list str"
        raise Unsupported("tuple of %s" % ts)
    raise Unsupported("expression %s" % type(n).__name__)


def listcomp(n, c):
    if len(n.generators) != 1 or n.generators[0].is_async:
        raise Unsupported("comprehension shape")
    g = n.generators[0]
    if not isinstance(g.target, ast.Name) or not isinstance(n.elt, ast.Name) or n.elt.id != g.target.id:
        raise Unsupported("comprehension must be [t for t in xs if c]")
    xs, tx = expr(g.iter, c)
    if tx != "list tag":
        raise Unsupported("comprehension over %s" % tx)
    c2 = Ctx(c.env)
    c2.env[g.target.id] = (g.target.id + "_", "tag")
    conds = [truthy(*expr(i, c2)) for i in g.ifs] or ["true"]
    c.uses_now |= c2.uses_now
    return "(filter (fun %s_ => %s) %s)" % (g.target.id, " && ".join(conds), xs), "list tag"


def compare(l, op, r, c):
    a, ta = expr(l, c)
    b, tb = expr(r, c)
    if isinstance(op, (ast.In, ast.NotIn)):
        if ta == "Z" and tb == "list Z":
            e = "(mem_Z %s %s)" % (a, b)
        elif ta == "str" and tb == "list str":
            e = "(mem_str %s %s)" % (a, b)
        else:
            raise Unsupported("membership %s in %s" % (ta, tb))
        return e if isinstance(op, ast.In) else "(negb %s)" % e
    if ta == tb == "Z":
        m = {ast.Lt: "<?", ast.LtE: "<=?", ast.Gt: ">?", ast.GtE: ">=?", ast.Eq: "=?"}
        if type(op) in m:
            return "(%s %s %s)" % (a, m[type(op)], b)
        if isinstance(op, ast.NotEq):
            return "(negb (%s =? %s))" % (a, b)
    if ta == tb == "str":
        if isinstance(op, ast.Eq):
            return "(str_eqb %s %s)" % (a, b)
        if isinstance(op, ast.NotEq):
            return "(negb (str_eqb %s %s))" % (a, b)
    raise Unsupported("comparison %s between %s and %s" % (type(op).__name__, ta, tb))


def err_name(n):
    """raise StorageError(...) -> constructor name"""
    if isinstance(n, ast.Call):
        n = n.func
    if isinstance(n, ast.Name):
        return n.id
    raise Unsupported("raise of %s" % ast.unparse(n))


def block(stmts, c, cont, mode):
    """Translate statement list to an expression.
    mode 'raises': value type option pystr (Some E = raised E, None = fell through / returned normally)
    mode 'bool'  : value type bool (return values), falling through is not allowed to be reached => cont"""
    if not stmts:
        return cont
    s, rest = stmts[0], stmts[1:]
    if isinstance(s, ast.Expr) and isinstance(s.value, ast.Constant) and isinstance(s.value.value, str):
        return block(rest, c, cont, mode)
    if isinstance(s, ast.Raise):
        if mode != "raises":
            raise Unsupported("raise in a bool function")
        return "(Some %s)" % coq_str(err_name(s.exc))
    if isinstance(s, ast.Return):
        if mode == "raises":
            if s.value is not None and not (isinstance(s.value, ast.Constant) and s.value.value is None):
                raise Unsupported("return with value in a validator")
            return "None"
        e, t = expr(s.value, c)
        return truthy(e, t) if t != "bool" else e
    if isinstance(s, ast.If):
        test = truthy(*expr(s.test, c))
        k = block(rest, c, cont, mode)
        return "(if %s then %s else %s)" % (test, block(s.body, c, k, mode), block(s.orelse, c, k, mode))
    if isinstance(s, ast.Assign) and len(s.targets) == 1 and isinstance(s.targets[0], ast.Name):
        name = s.targets[0].id
        e, t = expr(s.value, c)
        c2 = Ctx(c.env)
        c2.env[name] = ("v_" + name, t)
        r = block(rest, c2, cont, mode)
        c.uses_now |= c2.uses_now
        return "(let v_%s := %s in %s)" % (name, e, r)
    raise Unsupported("statement %s" % type(s).__name__)


def find_func(tree, name, cls=None):
    body = tree.body
    if cls:
        for n in body:
            if isinstance(n, ast.ClassDef) and n.name == cls:
                body = n.body
                break
        else:
            raise Unsupported("class %s not found" % cls)
    for n in body:
        if isinstance(n, (ast.FunctionDef, ast.AsyncFunctionDef)) and n.name == name:
            return n
    raise Unsupported("function %s not found" % name)


def translate_validator(tree, name):
    fn = find_func(tree, name)
    args = [a.arg for a in fn.args.args]
    if args != ["event", "config"]:
        raise Unsupported("signature %s" % args)
    c = Ctx({"event": ("event", "event"), "config": ("config", "config")})
    body = block(fn.body, c, "None", "raises")
    return "Definition v_%s (now : Z) (event : vevent) (config : vconfig) : option pystr :=\n  %s.\n" % (name, body)


def emit(path, text):
    if not os.path.exists(path) or open(path).read() != text:
        with open(path, "w") as f:
            f.write(text)


def target(out, label, fn):
    try:
        out.append(fn())
    except Unsupported as e:
        FAILS.append("%s: %s" % (label, e))
        print("TRANSLATE-FAIL %s: %s" % (label, e))
    except (SyntaxError, OSError) as e:
        FAILS.append("%s: %s" % (label, e))
        print("TRANSLATE-FAIL %s: %s" % (label, e))


HEADER = "(* Generated by tools/pyfrag.py from %s - do not edit. *)\nFrom NR Require Import Lib.Base Lib.PyRt.\nOpen Scope Z_scope.\n\n"


def gen_validators(repo, outdir):
    src = os.path.join(repo, "nostr_relay/validators.py")
    tree = ast.parse(open(src).read())
    out = [HEADER % "nostr_relay/validators.py"]
    for name in ["is_not_too_large", "is_recent", "is_certain_kind", "is_author_whitelisted",
                 "is_author_blacklisted", "is_pow", "is_not_hellthread", "is_service_event"]:
        target(out, "validators." + name, lambda name=name: translate_validator(tree, name))
    emit(os.path.join(outdir, "Validators.v"), "\n".join(out))


def gen_kinds(outdir):
    """aionostr.event kind classes (pinned third-party code under /venv)."""
    import glob
    cands = glob.glob("/venv/lib/python3*/site-packages/aionostr/event.py")
    out = [HEADER % "aionostr/event.py"]
    if not cands:
        FAILS.append("kinds: aionostr/event.py not found")
        print("TRANSLATE-FAIL kinds: aionostr/event.py not found")
    else:
        tree = ast.parse(open(cands[0]).read())
        for prop in ["is_ephemeral", "is_replaceable", "is_paramaterized_replaceable"]:
            def tr(prop=prop):
                fn = find_func(tree, prop, "Event")
                c = Ctx({"self": ("self_", "event")})
                RECORDS["event"]  # self.kind
                body = block(fn.body, c, "false", "bool")
                return "Definition k_%s (self_ : vevent) : bool :=\n  %s.\n" % (prop, body)
            target(out, "kinds." + prop, tr)

        def consts():
            vals = {}
            for n in tree.body:
                if isinstance(n, ast.ClassDef) and n.name == "EventKind":
                    for s in n.body:
                        if isinstance(s, ast.Assign) and isinstance(s.value, ast.Constant):
                            vals[s.targets[0].id] = s.value.value
            need = ["SET_METADATA", "CONTACTS", "DELETE"]
            for k in need:
                if k not in vals:
                    raise Unsupported("EventKind.%s missing" % k)
            return "".join("Definition kind_%s : Z := %d.\n" % (k, vals[k]) for k in need)
        target(out, "kinds.EventKind", consts)
    emit(os.path.join(outdir, "Kinds.v"), "\n".join(out))


def gen_web(repo, outdir):
    src = os.path.join(repo, "nostr_relay/web.py")
    tree = ast.parse(open(src).read())
    out = [HEADER % "nostr_relay/web.py"]

    def tr():
        fn = find_func(tree, "validate_message")
        if [a.arg for a in fn.args.args] != ["message"]:
            raise Unsupported("signature")
        # message : jv ; isinstance(message, list) ; len(message) ; message[0] in (...)
        stmts = [s for s in fn.body]
        pieces = []
        for s in stmts:
            if isinstance(s, ast.Return) and isinstance(s.value, ast.Constant) and s.value.value is True:
                pieces.append("true")
                break
            if not (isinstance(s, ast.If) and len(s.body) == 1 and isinstance(s.body[0], ast.Return)
                    and isinstance(s.body[0].value, ast.Constant) and s.body[0].value.value is False and not s.orelse):
                raise Unsupported("validate_message statement shape")
            t = ast.unparse(s.test)
            if t == "not isinstance(message, list)":
                pieces.append("negb (jv_is_list message)")
            elif isinstance(s.test, ast.Compare) and ast.unparse(s.test.left) == "len(message)" and len(s.test.ops) == 1 \
                    and isinstance(s.test.ops[0], ast.Lt) and isinstance(s.test.comparators[0], ast.Constant):
                pieces.append("(jv_len message <? %d)" % s.test.comparators[0].value)
            elif isinstance(s.test, ast.Compare) and ast.unparse(s.test.left) == "message[0]" and isinstance(s.test.ops[0], ast.NotIn) \
                    and isinstance(s.test.comparators[0], ast.Tuple) and all(isinstance(e, ast.Constant) and isinstance(e.value, str) for e in s.test.comparators[0].elts):
                cmds = "; ".join(coq_str(e.value) for e in s.test.comparators[0].elts)
                pieces.append("negb (jv_str_in (jv_nth 0 message) [%s])" % cmds)
            else:
                raise Unsupported("validate_message test %s" % t)
        if not pieces or pieces[-1] != "true":
            raise Unsupported("validate_message must end with return True")
        body = "true"
        for p in reversed(pieces[:-1]):
            body = "(if %s then false else %s)" % (p, body)
        return "Definition validate_message (message : jv) : bool :=\n  %s.\n" % body
    target(out, "web.validate_message", tr)
    emit(os.path.join(outdir, "Web.v"), "\n".join(out))


def const_of(tree, path):
    """Find a literal: path like ('Class','func') handled by callers."""
    raise Unsupported("unused")


def gen_auth(repo, outdir):
    src = os.path.join(repo, "nostr_relay/auth.py")
    tree = ast.parse(open(src).read())
    out = [HEADER % "nostr_relay/auth.py"]

    def consts():
        fn = find_func(tree, "check_auth_event", "Authenticator")
        kind = older = newer = None
        relay_tag = chal_tag = None
        for n in ast.walk(fn):
            if isinstance(n, ast.Compare) and len(n.ops) == 1 and isinstance(n.comparators[0], (ast.Constant, ast.UnaryOp)):
                l = ast.unparse(n.left)
                try:
                    v = ast.literal_eval(n.comparators[0])
                except Exception:
                    continue
                if l == "auth_event.kind" and isinstance(n.ops[0], ast.NotEq):
                    kind = v
                elif l == "since" and isinstance(n.ops[0], ast.GtE):
                    older = v
                elif l == "since" and isinstance(n.ops[0], ast.LtE):
                    newer = v
                elif l == "tag[0]" and isinstance(n.ops[0], ast.Eq) and v == "relay":
                    relay_tag = v
                elif l == "tag[0]" and isinstance(n.ops[0], ast.Eq) and v == "challenge":
                    chal_tag = v
        if None in (kind, older, newer, relay_tag, chal_tag):
            raise Unsupported("check_auth_event constants not in the expected shape (kind != K, since >= A, since <= B, tag[0] == 'relay'/'challenge')")
        since_src = None
        for s in fn.body:
            if isinstance(s, ast.Assign) and ast.unparse(s.targets[0]) == "since":
                since_src = ast.unparse(s.value)
        if since_src != "time() - auth_event.created_at":
            raise Unsupported("since = %s" % since_src)
        return ("Definition auth_kind : Z := %d.\nDefinition auth_too_old : Z := %d.\nDefinition auth_too_new : Z := %d.\n" % (kind, older, newer))
    target(out, "auth.check_auth_event.constants", consts)

    def challenge():
        fn = find_func(tree, "get_challenge", "Authenticator")
        rets = [s for s in fn.body if isinstance(s, ast.Return)]
        if len(rets) != 1 or not ast.unparse(rets[0].value).startswith("secrets.token_hex("):
            raise Unsupported("get_challenge must return secrets.token_hex(n)")
        n = ast.literal_eval(rets[0].value.args[0])
        return "Definition challenge_bytes : Z := %d.\n" % n
    target(out, "auth.get_challenge", challenge)

    def can_do():
        fn = find_func(tree, "can_do", "Authenticator")
        src = ast.unparse(fn)
        want = [
            "can_do = True",
            "if self.is_enabled:",
            "if action in self.actions:",
            "auth_token = auth_token or {}",
            "can_do = bool(self.actions[action].intersection(auth_token.get('roles', self.default_roles)))",
            "if can_do and target:",
            "can_do = await self.evaluate_target(auth_token, action, target)",
            "return can_do",
        ]
        lines = [l.strip() for l in src.splitlines() if l.strip() and not l.strip().startswith(('"""', "'''"))]
        body = [l for l in lines[1:]]
        # drop the docstring lines
        code = []
        indoc = False
        for s in fn.body:
            if isinstance(s, ast.Expr) and isinstance(s.value, ast.Constant):
                continue
            code.extend(l.strip() for l in ast.unparse(s).splitlines())
        if code != want:
            raise Unsupported("can_do body differs from the recognised shape: %r" % code)
        return ("(* can_do: enabled -> (action known -> nonempty (actions[action] & roles-or-default) [and evaluate_target]) *)\n"
                "Definition can_do_core (is_enabled : bool) (action_known : bool) (action_roles token_roles : roleset) (target_ok : bool) : bool :=\n"
                "  if is_enabled then (if action_known then (negb (is_nil (role_inter action_roles token_roles))) && target_ok else true) else true.\n")
    target(out, "auth.can_do", can_do)
    emit(os.path.join(outdir, "Auth.v"), "\n".join(out))


def gen_rate(repo, outdir):
    src = os.path.join(repo, "nostr_relay/rate_limiter.py")
    tree = ast.parse(open(src).read())
    out = [HEADER % "nostr_relay/rate_limiter.py"]

    def table():
        fn = find_func(tree, "parse_option", "RateLimiter")
        rows = []
        for n in ast.walk(fn):
            if isinstance(n, ast.If) and isinstance(n.test, ast.Compare) and ast.unparse(n.test.left) == "interval" \
                    and isinstance(n.test.ops[0], ast.In) and isinstance(n.test.comparators[0], ast.Tuple):
                names = [e.value for e in n.test.comparators[0].elts]
                a = n.body[0]
                if not (isinstance(a, ast.Assign) and ast.unparse(a.targets[0]) == "interval" and isinstance(a.value, ast.Constant)):
                    raise Unsupported("interval table row")
                rows.append((names, a.value.value))
        if not rows:
            raise Unsupported("no interval table")
        body = "; ".join("([%s], %d)" % ("; ".join(coq_str(x) for x in names), v) for names, v in rows)
        return "Definition interval_table : list (list pystr * Z) := [%s].\n" % body
    target(out, "rate_limiter.parse_option", table)
    emit(os.path.join(outdir, "Rate.v"), "\n".join(out))


def main():
    ap = argparse.ArgumentParser()
    ap.add_argument("--repo", default="/repo")
    ap.add_argument("--out", required=True)
    a = ap.parse_args()
    os.makedirs(a.out, exist_ok=True)
    for g in (gen_validators, gen_web, gen_auth, gen_rate):
        try:
            g(a.repo, a.out)
        except (SyntaxError, OSError) as e:
            print("TRANSLATE-FAIL %s: %s" % (g.__name__, e))
            FAILS.append(g.__name__)
    gen_kinds(a.out)
    sys.exit(1 if FAILS else 0)


if __name__ == "__main__":
    main()
