#!/usr/bin/env python3
"""development aid: tabulate the logs written by tools/try_seed.sh runs (one log per property) - usage: tools/eval_table.py <log dir>"""
import re, glob, sys
for f in sorted(glob.glob(sys.argv[1] + '/C*.log')):
    txt = open(f).read()
    parts = re.split(r'(?m)^(C\d\d_\d+): demo base=(\d+) mutated=(\d+) \| check: ', txt)
    for i in range(1, len(parts), 4):
        name, base, mut, body = parts[i], parts[i + 1], parts[i + 2], parts[i + 3]
        caught = "VIOLATION" in body
        nf = "no-failing-input-found" in body
        m = re.search(r'quick: (.*)', body)
        print(name, "demo %s/%s" % (base, mut), ("CAUGHT" + ("(nfi)" if nf else "")) if caught else "MISSED", (m.group(1)[:110] if m else body[:100].replace("\n", " ")))
