#!/usr/bin/env python3
"""Writes MANIFEST.json from the table below (kept in one place so the manifest stays valid)."""
import json, os
here = os.path.dirname(os.path.dirname(os.path.abspath(__file__)))
PARTIAL = " Partial: "
CHECKS = {
 "C18": dict(
   text="Coq theorems over an executable model of RateLimiter.evaluate_rules/is_limited: for every rule list, deque and arrival time the model refines a sliding-window-log specification (C18_refines), lifted to is_limited as a whole over every configuration and arrival sequence (C18_limiter_refines_spec), from which the window bound (C18_window), justified refusal (C18_refusal_justified), exemption (C18_exempt) and bounded state (C18_bounded) follow for all arrival sequences; the model is tied to the code on every run by differential execution (decisions and deque lengths step by step) and the translated interval table.",
   note="Trusted: Coq kernel, extraction (ExtrOcamlBasic), harness with injected integral clock; addresses are assumed not to be the literal strings 'global'/'ip'; rule lists non-empty with non-negative intervals.",
   technique="Coq refinement proof (deque vs sliding-window log) + differential correspondence",
   design="5/C18"),
}
NOT_APPLICABLE = []
def main():
    import glob
    for fn in sorted(glob.glob(os.path.join(here, "manifest.d", "C*.json"))):
        CHECKS[os.path.basename(fn)[:-5]] = json.load(open(fn))
    checks = []
    for pid in sorted(CHECKS):
        c = CHECKS[pid]
        checks.append({
            "property_id": pid,
            "quick_cmd": "./check %s --tier quick" % pid,
            "thorough_cmd": "./check %s --tier thorough" % pid,
            "evidence_file": "/verif/evidence/%s.json" % pid,
            "replay_cmd_template": "./check %s --replay {path}" % pid,
            "engine": "coq+modeld",
            "level_claimed": {"category": "proof", "text": c["text"], "design_ref": c["design"]},
            "level_note": c["note"],
            "technique": c["technique"],
        })
    props = [json.loads(l)["id"] for l in open(os.path.join(here, "properties.jsonl"))]
    na = list(NOT_APPLICABLE)
    listed = {x["property_id"] for x in na} | set(CHECKS)
    for p in props:
        if p not in listed:
            na.append({"property_id": p, "reason": "not yet claimed: machinery under construction (see DESIGN.md section 5); no technique switch"})
    m = {
        "version": 1,
        "setup_cmd": "./check --setup",
        "hooks": {"guard": "NOSTR_RELAY_VERIF", "enable": "no source hooks: all observation points are wrapped from outside by the harness (env NOSTR_RELAY_VERIF=1 is set by ./check but read by nothing in /repo)",
                  "baseline_off_cmd": "cd /repo && /venv/bin/python -m pytest -ra -q -p no:cacheprovider --timeout=900 --continue-on-collection-errors",
                  "source_commits": [], "add_only": True},
        "engines": [{"name": "coq+modeld", "path": "/verif/coq, /verif/tools/modeld, /verif/harness",
                     "serves_properties": sorted(CHECKS), "kind_free_text": "Coq 8.16 model+theorems; translator pyfrag; extracted OCaml model driven by a Python differential harness against /repo"}],
        "checks": checks,
        "not_applicable": na,
        "notes": "fix: commits in /repo are listed in KNOWN_FINDINGS.txt (fixed: lines).",
    }
    json.dump(m, open(os.path.join(here, "MANIFEST.json"), "w"), indent=1)
if __name__ == "__main__":
    main()
