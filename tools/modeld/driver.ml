(* Generic driver for the extracted model.
   stdin : one case per line:  <suite-name> <value tokens...>
   stdout: one value per line (same token format).
   Token format (prefix notation, space separated):
     n | t | f | i<decimal> | s<hex.hex...> | b<hex.hex...> | d<hex.hex...>
     a<count> v1 .. vcount | o<count> k1 v1 .. (keys are s-tokens)
   Numbers stay the extracted Coq datatypes (positive/N/Z): the conversions
   below build them bit by bit / digit by digit. *)
module M = Model

let rec pos_of_int (i : int) : M.positive =
  if i = 1 then M.XH else if i land 1 = 1 then M.XI (pos_of_int (i lsr 1)) else M.XO (pos_of_int (i lsr 1))
let n_of_int (i : int) : M.n = if i = 0 then M.N0 else M.Npos (pos_of_int i)
let rec int_of_pos (p : M.positive) : int =
  match p with M.XH -> 1 | M.XO q -> 2 * int_of_pos q | M.XI q -> 2 * int_of_pos q + 1
let int_of_n (x : M.n) : int = match x with M.N0 -> 0 | M.Npos p -> int_of_pos p

let str_of_ocaml (s : string) : M.n list =
  List.init (String.length s) (fun i -> n_of_int (Char.code s.[i]))
let ocaml_of_str (l : M.n list) : string =
  String.concat "" (List.map (fun c -> String.make 1 (Char.chr (int_of_n c))) l)

let cps_of_tok (s : string) : M.n list =
  if s = "" then [] else
  List.map (fun h -> n_of_int (int_of_string ("0x" ^ h))) (String.split_on_char '.' s)
let tok_of_cps (l : M.n list) : string =
  String.concat "." (List.map (fun c -> Printf.sprintf "%x" (int_of_n c)) l)

let z_of_decimal (s : string) : M.z =
  match M.z_of_dec (str_of_ocaml s) with
  | Some z -> z
  | None -> failwith ("bad integer " ^ s)
let decimal_of_z (x : M.z) : string = ocaml_of_str (M.dec_of_Z x)

let rec parse (toks : string list) : M.jv * string list =
  match toks with
  | [] -> failwith "unexpected end"
  | t :: rest ->
    let body = String.sub t 1 (String.length t - 1) in
    (match t.[0] with
     | 'n' -> (M.JNull, rest)
     | 't' -> (M.JBool true, rest)
     | 'f' -> (M.JBool false, rest)
     | 'i' -> (M.JInt (z_of_decimal body), rest)
     | 's' -> (M.JStr (cps_of_tok body), rest)
     | 'b' -> (M.JBytes (cps_of_tok body), rest)
     | 'd' -> (M.JFloat (cps_of_tok body), rest)
     | 'a' ->
       let n = int_of_string body in
       let rec go k acc r = if k = 0 then (List.rev acc, r) else
           let (v, r') = parse r in go (k - 1) (v :: acc) r' in
       let (l, r) = go n [] rest in (M.JArr l, r)
     | 'o' ->
       let n = int_of_string body in
       let rec go k acc r = if k = 0 then (List.rev acc, r) else
           (match parse r with
            | (M.JStr key, r1) -> let (v, r2) = parse r1 in go (k - 1) ((key, v) :: acc) r2
            | _ -> failwith "object key must be a string") in
       let (l, r) = go n [] rest in (M.JObj l, r)
     | _ -> failwith ("bad token " ^ t))

let rec print (b : Buffer.t) (v : M.jv) : unit =
  match v with
  | M.JNull -> Buffer.add_string b "n"
  | M.JBool true -> Buffer.add_string b "t"
  | M.JBool false -> Buffer.add_string b "f"
  | M.JInt x -> Buffer.add_string b ("i" ^ decimal_of_z x)
  | M.JStr s -> Buffer.add_string b ("s" ^ tok_of_cps s)
  | M.JBytes s -> Buffer.add_string b ("b" ^ tok_of_cps s)
  | M.JFloat s -> Buffer.add_string b ("d" ^ tok_of_cps s)
  | M.JArr l ->
    Buffer.add_string b (Printf.sprintf "a%d" (List.length l));
    List.iter (fun x -> Buffer.add_char b ' '; print b x) l
  | M.JObj l ->
    Buffer.add_string b (Printf.sprintf "o%d" (List.length l));
    List.iter (fun (k, x) -> Buffer.add_char b ' '; print b (M.JStr k); Buffer.add_char b ' '; print b x) l

let () =
  try
    while true do
      let line = input_line stdin in
      if line <> "" then begin
        let toks = List.filter (fun s -> s <> "") (String.split_on_char ' ' line) in
        match toks with
        | suite :: rest ->
          let (v, _) = parse rest in
          let out = M.dispatch (str_of_ocaml suite) v in
          let b = Buffer.create 256 in
          print b out; print_endline (Buffer.contents b)
        | [] -> ()
      end
    done
  with End_of_file -> ()
