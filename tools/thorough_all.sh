#!/bin/bash
# development aid: every registered thorough command, four at a time; logs in <out dir>
out=${1:-/tmp/thorough}
mkdir -p $out
cd /verif
n=0
for i in $(seq -w 1 20); do
  ( /usr/bin/time -f "%e s" ./check C$i --tier thorough > $out/C$i.log 2>&1 ) &
  n=$((n+1))
  if [ $n -ge 4 ]; then wait; n=0; fi
done
wait
echo finished > $out/DONE
