#!/bin/bash
# Independent re-check of the compiled development with coqchk (prints the axioms every property file relies on).
# Takes several minutes and a few GB; run after ./check --setup.  Output: audit/coqchk.txt
cd /verif/coq || exit 2
mkdir -p ../audit
mods=""
for i in 01 02 03 04 05 06 07 08 09 10 11 12 13 14 15 16 17 18 19 20; do mods="$mods NR.Props.C$i"; done
{ echo "coqchk -silent -o -Q . NR $mods"; date -u; timeout 7200 coqchk -silent -o -Q . NR $mods 2>&1 | tail -30; } > ../audit/coqchk.txt
tail -14 ../audit/coqchk.txt
