"""pyfrag plugin (owner: see HOWTO). `from pyfrag import *` gives the translator core."""
import ast, os
from pyfrag import *


def generate(repo, outdir):
    src = os.path.join(repo, "nostr_relay/web.py")
    tree = ast.parse(open(src).read())
    out = [HEADER % "nostr_relay/web.py"]

    def tr():
        fn = find_func(tree, "validate_message")
        if [a.arg for a in fn.args.args] != ["message"]:
            raise Unsupported("signature")
        # message : jv ; isinstance(message, list) ; len(message) ; message[0] in (...)
        stmts = [s for s in fn.body]
        pieces = []
        for s in stmts:
            if isinstance(s, ast.Return) and isinstance(s.value, ast.Constant) and s.value.value is True:
                pieces.append("true")
                break
            if not (isinstance(s, ast.If) and len(s.body) == 1 and isinstance(s.body[0], ast.Return)
                    and isinstance(s.body[0].value, ast.Constant) and s.body[0].value.value is False and not s.orelse):
                raise Unsupported("validate_message statement shape")
            t = ast.unparse(s.test)
            if t == "not isinstance(message, list)":
                pieces.append("negb (jv_is_list message)")
            elif isinstance(s.test, ast.Compare) and ast.unparse(s.test.left) == "len(message)" and len(s.test.ops) == 1 \
                    and isinstance(s.test.ops[0], ast.Lt) and isinstance(s.test.comparators[0], ast.Constant):
                pieces.append("(jv_len message <? %d)" % s.test.comparators[0].value)
            elif isinstance(s.test, ast.Compare) and ast.unparse(s.test.left) == "message[0]" and isinstance(s.test.ops[0], ast.NotIn) \
                    and isinstance(s.test.comparators[0], ast.Tuple) and all(isinstance(e, ast.Constant) and isinstance(e.value, str) for e in s.test.comparators[0].elts):
                cmds = "; ".join(coq_str(e.value) for e in s.test.comparators[0].elts)
                pieces.append("negb (jv_str_in (jv_nth 0 message) [%s])" % cmds)
            else:
                raise Unsupported("validate_message test %s" % t)
        if not pieces or pieces[-1] != "true":
            raise Unsupported("validate_message must end with return True")
        body = "true"
        for p in reversed(pieces[:-1]):
            body = "(if %s then false else %s)" % (p, body)
        return "Definition validate_message (message : jv) : bool :=\n  %s.\n" % body
    target(out, "web.validate_message", tr)

    def queue_lint():
        """RELAY.Model lets a query put answers on the connection's queue without ever waiting (the queue is a list that
        grows): true of `asyncio.Queue()` without a size, and only of that"""
        fn = find_func(tree, "start_client")
        made = [n for n in ast.walk(fn) if isinstance(n, ast.Assign) and any(isinstance(x, ast.Name) and x.id == "subscription_queue" for x in n.targets)]
        problems = []
        if len(made) != 1 or ast.unparse(made[0]) != "subscription_queue = asyncio.Queue()":
            problems.append("start_client does not create its answer queue as `subscription_queue = asyncio.Queue()` exactly once: %s"
                            % "; ".join(ast.unparse(m) for m in made))
        for n in ast.walk(fn):
            if isinstance(n, ast.Attribute) and isinstance(n.value, ast.Name) and n.value.id == "subscription_queue" and n.attr not in ("get", "put", "qsize", "empty"):
                problems.append("subscription_queue.%s used" % n.attr)
        for p_ in problems:
            print("WEB-LINT answer_queue_unbounded: %s" % p_)
        return "Definition answer_queue_unbounded : bool := %s.\n" % ("false" if problems else "true")
    target(out, "web.answer_queue", queue_lint)
    emit(os.path.join(outdir, "Web.v"), "\n".join(out))


