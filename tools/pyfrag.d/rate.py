"""pyfrag plugin (owner: see HOWTO). `from pyfrag import *` gives the translator core."""
import ast, os
from pyfrag import *


def generate(repo, outdir):
    src = os.path.join(repo, "nostr_relay/rate_limiter.py")
    tree = ast.parse(open(src).read())
    out = [HEADER % "nostr_relay/rate_limiter.py"]

    def table():
        fn = find_func(tree, "parse_option", "RateLimiter")
        rows = []
        for n in ast.walk(fn):
            if isinstance(n, ast.If) and isinstance(n.test, ast.Compare) and ast.unparse(n.test.left) == "interval" \
                    and isinstance(n.test.ops[0], ast.In) and isinstance(n.test.comparators[0], ast.Tuple):
                names = [e.value for e in n.test.comparators[0].elts]
                a = n.body[0]
                if not (isinstance(a, ast.Assign) and ast.unparse(a.targets[0]) == "interval" and isinstance(a.value, ast.Constant)):
                    raise Unsupported("interval table row")
                rows.append((names, a.value.value))
        if not rows:
            raise Unsupported("no interval table")
        body = "; ".join("([%s], %d)" % ("; ".join(coq_str(x) for x in names), v) for names, v in rows)
        return "Definition interval_table : list (list pystr * Z) := [%s].\n" % body
    target(out, "rate_limiter.parse_option", table)
    emit(os.path.join(outdir, "Rate.v"), "\n".join(out))


