"""pyfrag plugin (owner: see HOWTO). `from pyfrag import *` gives the translator core."""
import ast, os
from pyfrag import *


def generate(repo, outdir):
    """aionostr.event kind classes (pinned third-party code under /venv)."""
    import glob
    cands = glob.glob("/venv/lib/python3*/site-packages/aionostr/event.py")
    out = [HEADER % "aionostr/event.py"]
    if not cands:
        FAILS.append("kinds: aionostr/event.py not found")
        print("TRANSLATE-FAIL kinds: aionostr/event.py not found")
    else:
        tree = ast.parse(open(cands[0]).read())
        for prop in ["is_ephemeral", "is_replaceable", "is_paramaterized_replaceable"]:
            def tr(prop=prop):
                fn = find_func(tree, prop, "Event")
                c = Ctx({"self": ("self_", "event")})
                RECORDS["event"]  # self.kind
                body = block(fn.body, c, "false", "bool")
                return "Definition k_%s (self_ : vevent) : bool :=\n  %s.\n" % (prop, body)
            target(out, "kinds." + prop, tr)

        def consts():
            vals = {}
            for n in tree.body:
                if isinstance(n, ast.ClassDef) and n.name == "EventKind":
                    for s in n.body:
                        if isinstance(s, ast.Assign) and isinstance(s.value, ast.Constant):
                            vals[s.targets[0].id] = s.value.value
            need = ["SET_METADATA", "CONTACTS", "DELETE"]
            for k in need:
                if k not in vals:
                    raise Unsupported("EventKind.%s missing" % k)
            return "".join("Definition kind_%s : Z := %d.\n" % (k, vals[k]) for k in need)
        target(out, "kinds.EventKind", consts)
    emit(os.path.join(outdir, "Kinds.v"), "\n".join(out))


