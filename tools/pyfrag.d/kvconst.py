"""pyfrag plugin (owner: kvquery). Constants of nostr_relay/storage/kv.py the LMDB model depends on
(index prefixes, cardinalities, has_time, FIELDS_TO_COLUMNS, maximum_plans, entry key format, tombstone key,
TagIndex.convert's indexability test) and the interpolation lint of compile_match_from_query."""
import ast, os
from pyfrag import *

INDEX_CLASSES = [("ids", "IdIndex"), ("created_at", "CreatedIndex"), ("kinds", "KindIndex"), ("authors", "PubkeyIndex"),
                 ("authorkinds", "AuthorKindIndex"), ("tags", "TagIndex")]


def _class(tree, name):
    for n in tree.body:
        if isinstance(n, ast.ClassDef) and n.name == name:
            return n
    raise Unsupported("class %s not found" % name)


def _class_attr(cls, attr):
    for s in cls.body:
        if isinstance(s, ast.Assign) and len(s.targets) == 1 and isinstance(s.targets[0], ast.Name) and s.targets[0].id == attr:
            if not isinstance(s.value, ast.Constant):
                raise Unsupported("%s.%s is not a constant" % (cls.name, attr))
            return s.value.value
    return None


def _bytes_coq(b):
    return "[" + "; ".join("%d%%N" % x for x in b) + "]"


def generate(repo, outdir):
    src = os.path.join(repo, "nostr_relay/storage/kv.py")
    tree = ast.parse(open(src).read())
    out = [HEADER % "nostr_relay/storage/kv.py"]

    def indexes():
        base = _class(tree, "Index")
        dflt = {"cardinality": _class_attr(base, "cardinality"), "has_time": _class_attr(base, "has_time")}
        if dflt["cardinality"] is None or dflt["has_time"] is None:
            raise Unsupported("Index.cardinality / Index.has_time defaults missing")
        # INDEXES = {"ids": IdIndex(), ...}
        mapping = None
        for n in tree.body:
            if isinstance(n, ast.Assign) and ast.unparse(n.targets[0]) == "INDEXES" and isinstance(n.value, ast.Dict):
                mapping = {k.value: ast.unparse(v) for k, v in zip(n.value.keys, n.value.values)}
        if mapping is None:
            raise Unsupported("INDEXES dict not found")
        lines = []
        for name, cname in INDEX_CLASSES:
            if mapping.get(name) != cname + "()":
                raise Unsupported("INDEXES[%r] is %s, expected %s()" % (name, mapping.get(name), cname))
            cls = _class(tree, cname)
            if [ast.unparse(b) for b in cls.bases] != ["Index"]:
                raise Unsupported("%s does not derive from Index only" % cname)
            prefix = _class_attr(cls, "prefix")
            if not isinstance(prefix, bytes) or len(prefix) != 1:
                raise Unsupported("%s.prefix is not one byte" % cname)
            card = _class_attr(cls, "cardinality")
            ht = _class_attr(cls, "has_time")
            lines.append("Definition prefix_%s : N := %d%%N." % (name, prefix[0]))
            lines.append("Definition cardinality_%s : Z := %d." % (name, dflt["cardinality"] if card is None else card))
            lines.append("Definition has_time_%s : bool := %s." % (name, "true" if (dflt["has_time"] if ht is None else ht) else "false"))
        extra = sorted(set(mapping) - {n for n, _ in INDEX_CLASSES} - {"search"})
        if extra:
            raise Unsupported("unknown indexes %s" % extra)
        return "\n".join(lines) + "\n"
    target(out, "kvconst.indexes", indexes)

    def columns():
        for n in tree.body:
            if isinstance(n, ast.Assign) and ast.unparse(n.targets[0]) == "FIELDS_TO_COLUMNS":
                d = ast.literal_eval(n.value)
                items = "; ".join("(%s, %d)" % (coq_str(k), v) for k, v in d.items())
                return "Definition fields_to_columns : list (pystr * Z) := [%s].\n" % items
        raise Unsupported("FIELDS_TO_COLUMNS not found")
    target(out, "kvconst.FIELDS_TO_COLUMNS", columns)

    def maxplans():
        fn = find_func(tree, "planner")
        names = [a.arg for a in fn.args.args]
        defaults = dict(zip(names[len(names) - len(fn.args.defaults):], fn.args.defaults))
        if "maximum_plans" not in defaults or not isinstance(defaults["maximum_plans"], ast.Constant):
            raise Unsupported("planner(maximum_plans=<const>) not found")
        # and the slice filters[:maximum_plans]
        if "filters[:maximum_plans]" not in ast.unparse(fn):
            raise Unsupported("planner does not iterate filters[:maximum_plans]")
        return "Definition maximum_plans : nat := %d%%nat.\n" % defaults["maximum_plans"].value
    target(out, "kvconst.maximum_plans", maxplans)

    def keyformat():
        fn = find_func(tree, "write", "Index")
        fmt = None
        for n in ast.walk(fn):
            if isinstance(n, ast.BinOp) and isinstance(n.op, ast.Mod) and isinstance(n.left, ast.Constant) and isinstance(n.left.value, bytes):
                if ast.unparse(n.right) != "(key, ctime, event_id)":
                    raise Unsupported("entry key arguments are %s" % ast.unparse(n.right))
                fmt = n.left.value
        if fmt is None:
            raise Unsupported("entry key format not found in Index.write")
        if "ctime = event.created_at.to_bytes(4, 'big')" not in ast.unparse(fn) or "event_id = event.id_bytes" not in ast.unparse(fn):
            raise Unsupported("ctime / event_id are not computed as expected")
        pieces, i = [], 0
        while i < len(fmt):
            if fmt[i:i + 2] == b"%s":
                pieces.append("None")
                i += 2
            elif fmt[i:i + 1] == b"%":
                raise Unsupported("format directive %r" % fmt[i:i + 2])
            else:
                pieces.append("Some %d%%N" % fmt[i])
                i += 1
        return "(* b\"%%s\\x00%%s\\x00%%s\" %% (key, ctime, event_id): None = next argument, Some b = literal byte *)\n" \
               "Definition entry_format : list (option N) := [%s].\n" % "; ".join(pieces)
    target(out, "kvconst.entry_format", keyformat)

    def tombstone():
        fn = find_func(tree, "write_tombstone", "LMDBStorage")
        keys = [n.args[0].value for n in ast.walk(fn)
                if isinstance(n, ast.Call) and isinstance(n.func, ast.Attribute) and n.func.attr == "put"
                and n.args and isinstance(n.args[0], ast.Constant) and isinstance(n.args[0].value, bytes)]
        if len(keys) != 1:
            raise Unsupported("write_tombstone puts %d constant keys" % len(keys))
        return "Definition tombstone_key : bytes := %s.\n" % _bytes_coq(keys[0])
    target(out, "kvconst.tombstone", tombstone)

    def indexable():
        fn = find_func(tree, "convert", "TagIndex")
        if len(fn.body) != 1 or not isinstance(fn.body[0], ast.For) or ast.unparse(fn.body[0].iter) != "event.tags":
            raise Unsupported("TagIndex.convert is not a single loop over event.tags")
        loop = fn.body[0]
        if len(loop.body) != 1 or not isinstance(loop.body[0], ast.If) or loop.body[0].orelse:
            raise Unsupported("loop body is not a single if")
        cond = loop.body[0]
        if ast.unparse(cond.body[0]) != "yield self.to_key((tag[0], str(tag[1])))" or len(cond.body) != 1:
            raise Unsupported("indexed key is %s" % ast.unparse(cond.body[0]))
        c = Ctx({loop.target.id: ("t", "tag")})
        e, t = expr(cond.test, c)
        return "(* TagIndex.convert: which tags get an index entry (under (tag[0], str(tag[1]))) *)\n" \
               "Definition tag_indexable (t : list pystr) : bool :=\n  %s.\n" % truthy(e, t)
    target(out, "kvconst.TagIndex.convert", indexable)

    def row():
        fn = find_func(tree, "encode_event")
        for n in ast.walk(fn):
            if isinstance(n, ast.Assign) and ast.unparse(n.targets[0]) == "row" and isinstance(n.value, ast.Tuple):
                m = {"VERSION": "VERSION", "event.id_bytes": "id", "event.created_at": "created_at", "event.kind": "kind",
                     "bytes.fromhex(event.pubkey)": "pubkey", "event.content": "content", "event.tags": "tags",
                     "bytes.fromhex(event.sig)": "sig"}
                names = []
                for e in n.value.elts:
                    u = ast.unparse(e)
                    if u not in m:
                        raise Unsupported("encode_event row element %s" % u)
                    names.append(m[u])
                return "(* encode_event: the msgpack row; position = column number used by the residual *)\n" \
                       "Definition encode_row : list pystr := [%s].\n" % "; ".join(coq_str(x) for x in names)
        raise Unsupported("encode_event row not found")
    target(out, "kvconst.encode_event", row)

    def clause_columns():
        """which stored column each query item is matched against in compile_match_from_query"""
        fn = find_func(tree, "compile_match_from_query")
        loop = [n for n in fn.body if isinstance(n, ast.For)]
        if len(loop) != 1 or len(loop[0].body) != 1 or not isinstance(loop[0].body[0], ast.If):
            raise Unsupported("compile_match_from_query loop shape")
        res = []
        node = loop[0].body[0]
        while True:
            test = ast.unparse(node.test)
            cols = [ast.unparse(s.value.slice) for s in node.body if isinstance(s, ast.Assign) and ast.unparse(s.targets[0]) == "col"]
            m = {"key == 'ids'": "ids", "key == 'authors'": "authors", "key == 'kinds'": "kinds", "key == 'since'": "since",
                 "key == 'until'": "until"}
            if test in m:
                if len(cols) != 1:
                    raise Unsupported("branch %s assigns col %d times" % (test, len(cols)))
                res.append((m[test], ast.literal_eval(cols[0])))
            elif test == "key == 'search' and Config.fts_enabled":
                pass
            else:
                raise Unsupported("unknown branch %s" % test)
            if len(node.orelse) == 1 and isinstance(node.orelse[0], ast.If):
                node = node.orelse[0]
            else:
                cols = [ast.unparse(s.value.slice) for s in node.orelse if isinstance(s, ast.Assign) and ast.unparse(s.targets[0]) == "col"]
                if len(cols) != 1:
                    raise Unsupported("tag branch assigns col %d times" % len(cols))
                res.append(("#", ast.literal_eval(cols[0])))
                break
        return "Definition clause_columns : list (pystr * pystr) := [%s].\n" % "; ".join("(%s, %s)" % (coq_str(a), coq_str(b)) for a, b in res)
    target(out, "kvconst.clause_columns", clause_columns)

    def lint():
        """every {...} that reaches exec() in compile_match_from_query is `!r` of a query value / tag name or the integer
        column index looked up in FIELDS_TO_COLUMNS; the function text is the fixed template around their ' and ' join"""
        fn = find_func(tree, "compile_match_from_query")
        cols = set()
        ok = True
        why = []
        fstrings_seen = 0
        for n in ast.walk(fn):
            if isinstance(n, ast.Assign) and ast.unparse(n.targets[0]) == "col":
                if not (isinstance(n.value, ast.Subscript) and ast.unparse(n.value.value) == "FIELDS_TO_COLUMNS"
                        and isinstance(n.value.slice, ast.Constant)):
                    ok = False
                    why.append("col = %s" % ast.unparse(n.value))
        loop_vars = None
        for n in ast.walk(fn):
            if isinstance(n, ast.For) and ast.unparse(n.iter) == "query_items":
                loop_vars = ast.unparse(n.target)
        if loop_vars != "(key, value)":
            ok = False
            why.append("loop over query_items binds %s" % loop_vars)
        # clauses: filter_clauses.add(<f-string or constant>)
        for n in ast.walk(fn):
            if isinstance(n, ast.Call) and isinstance(n.func, ast.Attribute) and n.func.attr == "add" and ast.unparse(n.func.value) == "filter_clauses":
                a = n.args[0]
                if isinstance(a, ast.Constant) and isinstance(a.value, str):
                    continue
                if not isinstance(a, ast.JoinedStr):
                    ok = False
                    why.append("clause %s" % ast.unparse(a))
                    continue
                fstrings_seen += 1
                for v in a.values:
                    if isinstance(v, ast.FormattedValue):
                        name = ast.unparse(v.value)
                        if name == "col" and v.conversion == -1 and v.format_spec is None:
                            continue
                        if name in ("value", "key") and v.conversion == ord("r") and v.format_spec is None:
                            continue
                        ok = False
                        why.append("interpolation {%s} conversion %s" % (name, v.conversion))
        if fstrings_seen < 5:
            ok = False
            why.append("only %d clause templates found" % fstrings_seen)
        # filter_string = " and ".join(filter_clauses); function = f"""... {filter_string} ..."""; exec(compile(function, ...), loc)
        srcs = [ast.unparse(s) for s in fn.body]
        if not any(s == "filter_string = ' and '.join(filter_clauses)" for s in srcs):
            ok = False
            why.append("filter_string is not the ' and ' join of the clauses")
        for n in ast.walk(fn):
            if isinstance(n, ast.Assign) and ast.unparse(n.targets[0]) == "function":
                if not isinstance(n.value, ast.JoinedStr):
                    ok = False
                    why.append("function template is not an f-string")
                else:
                    for v in n.value.values:
                        if isinstance(v, ast.FormattedValue) and ast.unparse(v.value) != "filter_string":
                            ok = False
                            why.append("function template interpolates %s" % ast.unparse(v.value))
        execs = [n for n in ast.walk(fn) if isinstance(n, ast.Call) and isinstance(n.func, ast.Name) and n.func.id in ("exec", "eval")]
        if len(execs) != 1 or not ast.unparse(execs[0]).startswith("exec(compile(function, "):
            ok = False
            why.append("exec call shape")
        # nothing else is exec'd or eval'd in the query path
        for fname in ("matcher", "execute_one_plan", "planner"):
            f2 = find_func(tree, fname)
            if any(isinstance(n, ast.Call) and isinstance(n.func, ast.Name) and n.func.id in ("exec", "eval") for n in ast.walk(f2)):
                ok = False
                why.append("%s calls exec/eval" % fname)
        return "(* interpolation lint of compile_match_from_query%s *)\nDefinition exec_interpolations_ok : bool := %s.\n" % (
            "" if ok else ": " + "; ".join(why), "true" if ok else "false")
    target(out, "kvconst.exec_lint", lint)
    emit(os.path.join(outdir, "KVConst.v"), "\n".join(out))
