"""pyfrag plugin (owner: see HOWTO). `from pyfrag import *` gives the translator core."""
import ast, os
from pyfrag import *


def generate(repo, outdir):
    src = os.path.join(repo, "nostr_relay/auth.py")
    tree = ast.parse(open(src).read())
    out = [HEADER % "nostr_relay/auth.py"]

    def consts():
        fn = find_func(tree, "check_auth_event", "Authenticator")
        kind = older = newer = None
        relay_tag = chal_tag = None
        for n in ast.walk(fn):
            if isinstance(n, ast.Compare) and len(n.ops) == 1 and isinstance(n.comparators[0], (ast.Constant, ast.UnaryOp)):
                l = ast.unparse(n.left)
                try:
                    v = ast.literal_eval(n.comparators[0])
                except Exception:
                    continue
                if l == "auth_event.kind" and isinstance(n.ops[0], ast.NotEq):
                    kind = v
                elif l == "since" and isinstance(n.ops[0], ast.GtE):
                    older = v
                elif l == "since" and isinstance(n.ops[0], ast.LtE):
                    newer = v
                elif l == "tag[0]" and isinstance(n.ops[0], ast.Eq) and v == "relay":
                    relay_tag = v
                elif l == "tag[0]" and isinstance(n.ops[0], ast.Eq) and v == "challenge":
                    chal_tag = v
        if None in (kind, older, newer, relay_tag, chal_tag):
            raise Unsupported("check_auth_event constants not in the expected shape (kind != K, since >= A, since <= B, tag[0] == 'relay'/'challenge')")
        since_src = None
        for s in fn.body:
            if isinstance(s, ast.Assign) and ast.unparse(s.targets[0]) == "since":
                since_src = ast.unparse(s.value)
        if since_src != "time() - auth_event.created_at":
            raise Unsupported("since = %s" % since_src)
        return ("Definition auth_kind : Z := %d.\nDefinition auth_too_old : Z := %d.\nDefinition auth_too_new : Z := %d.\n" % (kind, older, newer))
    target(out, "auth.check_auth_event.constants", consts)

    def challenge():
        fn = find_func(tree, "get_challenge", "Authenticator")
        rets = [s for s in fn.body if isinstance(s, ast.Return)]
        if len(rets) != 1 or not ast.unparse(rets[0].value).startswith("secrets.token_hex("):
            raise Unsupported("get_challenge must return secrets.token_hex(n)")
        n = ast.literal_eval(rets[0].value.args[0])
        return "Definition challenge_bytes : Z := %d.\n" % n
    target(out, "auth.get_challenge", challenge)

    def can_do():
        fn = find_func(tree, "can_do", "Authenticator")
        src = ast.unparse(fn)
        want = [
            "can_do = True",
            "if self.is_enabled:",
            "if action in self.actions:",
            "auth_token = auth_token or {}",
            "can_do = bool(self.actions[action].intersection(auth_token.get('roles', self.default_roles)))",
            "if can_do and target:",
            "can_do = await self.evaluate_target(auth_token, action, target)",
            "return can_do",
        ]
        lines = [l.strip() for l in src.splitlines() if l.strip() and not l.strip().startswith(('"""', "'''"))]
        body = [l for l in lines[1:]]
        # drop the docstring lines
        code = []
        indoc = False
        for s in fn.body:
            if isinstance(s, ast.Expr) and isinstance(s.value, ast.Constant):
                continue
            code.extend(l.strip() for l in ast.unparse(s).splitlines())
        if code != want:
            raise Unsupported("can_do body differs from the recognised shape: %r" % code)
        return ("(* can_do: enabled -> (action known -> nonempty (actions[action] & roles-or-default) [and evaluate_target]) *)\n"
                "Definition can_do_core (is_enabled : bool) (action_known : bool) (action_roles token_roles : roleset) (target_ok : bool) : bool :=\n"
                "  if is_enabled then (if action_known then (negb (is_nil (role_inter action_roles token_roles))) && target_ok else true) else true.\n")
    target(out, "auth.can_do", can_do)
    emit(os.path.join(outdir, "Auth.v"), "\n".join(out))


