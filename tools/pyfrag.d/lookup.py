"""pyfrag plugin (owner: C20, the notifier model). `from pyfrag import *` gives the translator core.

Generates coq/Gen/Lookup.v: the shape of the code the C20 model abstracts as `client_actions known ids`
(look the id up; fan the event out when it is stored):
  client_loop_ok        NotifyClient.connect hands every id read to storage.get_event and every event found to
                        storage.notify_all_connected, and does nothing else with it
  db_lookup_stateless   DBStorage.get_event is one SELECT by id: it reads nothing but the table, keeps no state
  kv_lookup_stateless   LMDBStorage.get_event / get_event_data read the record under b"\\x00" + id, keep no state
so that `known` is "stored now" and not something a look-up remembers.  Fail-closed: any other shape gives false.
"""
import ast
import os
from pyfrag import *


def _body(fn):
    return [s for s in fn.body if not (isinstance(s, ast.Expr) and isinstance(s.value, ast.Constant) and isinstance(s.value.value, str))]


def _same(fn, want, label, problems):
    got = "\n".join(ast.unparse(s) for s in _body(fn))
    if got != want:
        problems.append("%s is not the expected look-up:\n%s" % (label, got))


DB_WANT = """async with self.query_slot:
    async with self.db.connect() as conn:
        result = await conn.execute(sa.select(self.EventTable).where(self.EventTable.c.id == bytes.fromhex(event_id)))
        row = result.first()
if row:
    return event_from_tuple(row)"""

KV_WANT = """with self.db.begin(buffers=True) as txn:
    return decode_event(get_event_data(txn, bytes.fromhex(event_id)))"""

KV_DATA_WANT = """try:
    return unpackb(txn.get(b'\\x00' + event_id), use_list=False)
except TypeError:
    return None"""

CLIENT_WANT = ["event = await self.storage.get_event(data.hex())",
               "if event:\n    self.log.debug('Got %s', data.hex())\n    await self.storage.notify_all_connected(event)"]


def _client_loop(tree, problems):
    fn = find_func(tree, "connect", "NotifyClient")
    hits = []
    for n in ast.walk(fn):
        if isinstance(n, ast.Try):
            texts = [ast.unparse(s) for s in n.body]
            for i in range(len(texts) - 1):
                if texts[i] == CLIENT_WANT[0] and texts[i + 1] == CLIENT_WANT[1]:
                    hits.append(n)
    if len(hits) != 1:
        problems.append("NotifyClient.connect: the step `look the id up, fan out when found` was not found exactly once")
    # nothing else in the function may touch the storage
    uses = [ast.unparse(n) for n in ast.walk(fn) if isinstance(n, ast.Attribute) and ast.unparse(n).startswith("self.storage.")]
    if sorted(uses) != ["self.storage.get_event", "self.storage.notify_all_connected"]:
        problems.append("NotifyClient.connect uses the storage otherwise: %s" % sorted(uses))


def generate(repo, outdir):
    out = [HEADER % "nostr_relay/notifier.py, storage/db.py, storage/kv.py"]

    def flag(name, fn):
        def tr():
            problems = []
            fn(problems)
            for p in problems:
                print("LOOKUP-LINT %s: %s" % (name, p.replace("\n", " | ")))
            return "Definition %s : bool := %s.\n" % (name, "false" if problems else "true")
        target(out, "lookup." + name, tr)
    ntree = ast.parse(open(os.path.join(repo, "nostr_relay/notifier.py")).read())
    dtree = ast.parse(open(os.path.join(repo, "nostr_relay/storage/db.py")).read())
    ktree = ast.parse(open(os.path.join(repo, "nostr_relay/storage/kv.py")).read())
    flag("client_loop_ok", lambda pr: _client_loop(ntree, pr))
    flag("db_lookup_stateless", lambda pr: _same(find_func(dtree, "get_event", "DBStorage"), DB_WANT, "DBStorage.get_event", pr))

    def kv(pr):
        _same(find_func(ktree, "get_event", "LMDBStorage"), KV_WANT, "LMDBStorage.get_event", pr)
        _same(find_func(ktree, "get_event_data"), KV_DATA_WANT, "get_event_data", pr)
    flag("kv_lookup_stateless", kv)
    emit(os.path.join(outdir, "Lookup.v"), "\n".join(out))
