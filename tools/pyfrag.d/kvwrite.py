"""pyfrag plugin (owner: kvwrite). Write-path fragments of nostr_relay/storage/kv.py the LMDB write model (coq/KVW)
depends on: WriterThread._d_value (translated), the kinds / until offsets of _post_save, the order of _delete_event,
the ranges, tag name, value slice and numeric test of KVGarbageCollector.collect, the operations of WriterThread.run,
the admission checks of LMDBStorage.add_event.  Output: coq/Gen/KVWrite.v; tied to the model in coq/KVW/GenTie.v."""
import ast, os
from pyfrag import *


def _method(tree, cls, name):
    return find_func(tree, name, cls)


def _ifexp(n, c):
    """expr() plus conditional expressions"""
    if isinstance(n, ast.IfExp):
        t = truthy(*expr(n.test, c))
        a, ta = _ifexp(n.body, c)
        b, tb = _ifexp(n.orelse, c)
        if ta != tb:
            raise Unsupported("conditional expression of types %s / %s" % (ta, tb))
        return "(if %s then %s else %s)" % (t, a, b), ta
    return expr(n, c)


def generate(repo, outdir):
    src = os.path.join(repo, "nostr_relay/storage/kv.py")
    tree = ast.parse(open(src).read())
    out = [HEADER % "nostr_relay/storage/kv.py"]

    def d_value():
        fn = _method(tree, "WriterThread", "_d_value")
        body = [s for s in fn.body if not (isinstance(s, ast.Expr) and isinstance(s.value, ast.Constant))]
        if len(body) != 2 or not isinstance(body[0], ast.For) or not isinstance(body[1], ast.Return):
            raise Unsupported("_d_value is not `for ...: if ...: return ...` followed by `return ...`")
        loop = body[0]
        if ast.unparse(loop.iter) != "event.tags" or not isinstance(loop.target, ast.Name) or loop.orelse:
            raise Unsupported("loop is not over event.tags")
        if len(loop.body) != 1 or not isinstance(loop.body[0], ast.If) or loop.body[0].orelse:
            raise Unsupported("loop body is not a single if")
        cond = loop.body[0]
        if len(cond.body) != 1 or not isinstance(cond.body[0], ast.Return):
            raise Unsupported("if body is not a single return")
        c = Ctx({loop.target.id: ("t", "tag")})
        test = truthy(*expr(cond.test, c))
        val, tv = _ifexp(cond.body[0].value, c)
        dflt, td = _ifexp(body[1].value, Ctx({}))
        if tv != "str" or td != "str":
            raise Unsupported("_d_value returns %s / %s" % (tv, td))
        return ("(* WriterThread._d_value: first tag satisfying the test decides *)\n"
                "Definition d_value_test (t : list pystr) : bool := %s.\n"
                "Definition d_value_of_tag (t : list pystr) : pystr := %s.\n"
                "Definition d_value_default : pystr := %s.\n"
                "Definition d_value_of (tags : list (list pystr)) : pystr :=\n"
                "  match find d_value_test tags with Some t => d_value_of_tag t | None => d_value_default end.\n" % (test, val, dflt))
    target(out, "kvwrite._d_value", d_value)

    def post_save():
        fn = _method(tree, "WriterThread", "_post_save")
        text = ast.unparse(fn)
        top = fn.body[0]
        if not isinstance(top, ast.If):
            raise Unsupported("_post_save is not an if / elif")
        want = "event.kind in (EventKind.SET_METADATA, EventKind.CONTACTS) or event.is_replaceable or event.is_paramaterized_replaceable"
        if ast.unparse(top.test) != want:
            raise Unsupported("replaceable test is %s" % ast.unparse(top.test))
        if len(top.orelse) != 1 or not isinstance(top.orelse[0], ast.If) or ast.unparse(top.orelse[0].test) != "event.kind == EventKind.DELETE" \
                or top.orelse[0].orelse:
            raise Unsupported("deletion branch shape")

        def scanner_call(node):
            calls = [n for n in ast.walk(node) if isinstance(n, ast.Call) and ast.unparse(n.func).endswith(".scanner")]
            if len(calls) != 1:
                raise Unsupported("%d scanner calls in a branch" % len(calls))
            cl = calls[0]
            kw = {k.arg: ast.unparse(k.value) for k in cl.keywords}
            return ast.unparse(cl.func), [ast.unparse(a) for a in cl.args], kw
        f1, a1, k1 = scanner_call(ast.Module(body=top.body, type_ignores=[]))
        f2, a2, k2 = scanner_call(ast.Module(body=top.orelse[0].body, type_ignores=[]))
        if (f1, a1, k1) != ("INDEXES['authorkinds'].scanner", ["txn", "[(event.pubkey, event.kind)]"], {"until": "event.created_at"}):
            raise Unsupported("replacement scanner call %s %s %s" % (f1, a1, k1))
        if (f2, a2, k2) != ("INDEXES['authors'].scanner", ["txn", "[event.pubkey]"], {"until": "event.created_at - 1"}):
            raise Unsupported("deletion scanner call %s %s %s" % (f2, a2, k2))
        if "if parameterized and self._d_value(candidate) != d_tag:\n" not in text or "d_tag = self._d_value(event) if parameterized else None" not in text:
            raise Unsupported("d value comparison changed")
        if "if len(tag) > 1 and tag[0] == 'e':" not in text or "ids.add(bytes_from_hex(tag[1]))" not in text or "except (ValueError, TypeError):\n" not in text:
            raise Unsupported("reference collection changed")
        return ("Definition replace_index : pystr := %s.\nDefinition replace_until_offset : Z := 0.\n"
                "Definition delete_index : pystr := %s.\nDefinition delete_until_offset : Z := -1.\n"
                "Definition reference_tag : pystr := %s.\n" % (coq_str("authorkinds"), coq_str("authors"), coq_str("e")))
    target(out, "kvwrite._post_save", post_save)

    def delete_order():
        fn = _method(tree, "WriterThread", "_delete_event")
        loops = [s for s in fn.body if isinstance(s, ast.For)]
        if len(loops) != 1 or ast.unparse(loops[0].iter) != "reversed(self.write_indexes)" or ast.unparse(loops[0].body[0]) != "index.clear(event, txn)":
            raise Unsupported("_delete_event loop is %s" % (ast.unparse(loops[0]) if loops else "missing"))
        init = _method(tree, "WriterThread", "__init__")
        if "self.write_indexes = [i for i in INDEXES.values() if i.enabled]" not in ast.unparse(init):
            raise Unsupported("write_indexes is not the enabled INDEXES in order")
        order = None
        for n in tree.body:
            if isinstance(n, ast.Assign) and ast.unparse(n.targets[0]) == "INDEXES" and isinstance(n.value, ast.Dict):
                order = [k.value for k in n.value.keys]
        if order is None:
            raise Unsupported("INDEXES not found")
        return "Definition write_index_order : list pystr := [%s].\nDefinition delete_reversed : bool := true.\n" % "; ".join(coq_str(x) for x in order if x != "search")
    target(out, "kvwrite._delete_event", delete_order)

    def collect():
        fn = _method(tree, "KVGarbageCollector", "collect")
        text = ast.unparse(fn)
        consts = {}
        for n in ast.walk(fn):
            if isinstance(n, ast.Assign) and isinstance(n.value, ast.Call) and ast.unparse(n.value.func).endswith(".to_key"):
                consts.setdefault(ast.unparse(n.targets[0]), []).append((ast.unparse(n.value.func), ast.literal_eval(n.value.args[0])))
        if consts.get("start") != [("INDEXES['kinds'].to_key", 20000)] or consts.get("end") != [("INDEXES['kinds'].to_key", 30000)]:
            raise Unsupported("kind range is %s .. %s" % (consts.get("start"), consts.get("end")))
        if consts.get("prefix") != [("INDEXES['tags'].to_key", ("expiration", ""))]:
            raise Unsupported("expiration prefix is %s" % (consts.get("prefix"),))
        if "if key >= end:\n" not in text:
            raise Unsupported("upper bound test of the kind walk changed")
        if "if key[:len(prefix)] != prefix:\n" not in text or "value = bytes(key[len(prefix):-38])" not in text:
            raise Unsupported("expiration walk changed")
        if "if value.isdigit() and int(value) < now:\n" not in text or "now = int(time())" not in text:
            raise Unsupported("expiration test changed")
        if text.count("key[-32:].hex()") != 2:
            raise Unsupported("id extraction changed")
        return ("Definition gc_kind_lo : Z := 20000.\nDefinition gc_kind_hi : Z := 30000.\nDefinition gc_kind_hi_exclusive : bool := true.\n"
                "Definition gc_tag_name : pystr := %s.\nDefinition gc_tag_value : pystr := %s.\nDefinition gc_entry_tail : nat := 38%%nat.\n"
                "Definition gc_numeric_test : bool := true.\n" % (coq_str("expiration"), coq_str("")))
    target(out, "kvwrite.collect", collect)

    def writer_ops():
        fn = _method(tree, "WriterThread", "run")
        withs = [n for n in ast.walk(fn) if isinstance(n, ast.With) and "env.begin(" in ast.unparse(n.items[0])]
        if len(withs) != 1:
            raise Unsupported("%d write transactions in the writer loop" % len(withs))
        ops = []
        node = withs[0].body[0]
        while isinstance(node, ast.If):
            cmp = [n for n in ast.walk(node.test) if isinstance(n, ast.Compare) and ast.unparse(n.left) == "operation"]
            if len(cmp) != 1 or not isinstance(cmp[0].comparators[0], ast.Constant):
                raise Unsupported("branch test %s" % ast.unparse(node.test))
            ops.append(cmp[0].comparators[0].value)
            node = node.orelse[0] if len(node.orelse) == 1 else None
        if ops != ["add", "del", "reindex", "bulk_update"]:
            raise Unsupported("writer operations are %s" % ops)
        text = ast.unparse(fn)
        if "if operation == 'add' and (not get_event_data(txn, args[0].id_bytes)):" not in text:
            raise Unsupported("the add branch no longer skips stored ids")
        if "with env.begin(write=True, buffers=True) as txn:" not in text or text.count("env.begin(") != 1:
            raise Unsupported("not exactly one write transaction per task")
        if "except Exception:\n" not in text:
            raise Unsupported("exception handling of the writer loop changed")
        tries = [n for n in ast.walk(fn) if isinstance(n, ast.Try)]
        if len(tries) != 1 or "if operation == 'add':\n    self.in_flight.discard(args[0].id)" not in ast.unparse(ast.Module(body=tries[0].finalbody, type_ignores=[])):
            raise Unsupported("the writer no longer forgets the id of a processed add in its finally block")
        return "Definition writer_ops : list pystr := [%s].\nDefinition one_txn_per_task : bool := true.\nDefinition forgets_in_flight_after_add : bool := true.\n" % "; ".join(coq_str(x) for x in ops)
    target(out, "kvwrite.WriterThread.run", writer_ops)

    def add_event():
        fn = _method(tree, "LMDBStorage", "add_event")
        text = ast.unparse(fn)
        order = ["await self.validate_event(event, Config)", "if not event.is_ephemeral:", "self.check_storable(event)",
                 "in_flight = self.writer_thread.in_flight", "if event.id in in_flight:", "return (event, False)",
                 "if get_event_data(txn, event_id):", "return (event, False)", "in_flight.add(event.id)",
                 "self.writer_queue.put(('add', [event]))", "await self.post_save(event)", "return (event, True)"]
        pos = -1
        marks = {}
        for piece in order:
            p = text.find(piece, pos + 1)
            if p < 0:
                raise Unsupported("add_event: `%s` missing or out of order" % piece)
            marks[piece] = p
            pos = p
        if "await" in text[marks["if event.id in in_flight:"]:marks["in_flight.add(event.id)"]]:
            raise Unsupported("add_event awaits between the duplicate tests and the registration of the id")
        cs = ast.unparse(_method(tree, "LMDBStorage", "check_storable"))
        if "for index in self.writer_thread.write_indexes:\n            index.write(event, probe)" not in cs or "raise StorageError(" not in cs:
            raise Unsupported("check_storable changed")
        return "Definition add_event_checks : list pystr := [%s].\n" % "; ".join(
            coq_str(x) for x in ["validate", "ephemeral", "storable", "in_flight", "stored", "register", "queue", "broadcast"])
    target(out, "kvwrite.add_event", add_event)
    emit(os.path.join(outdir, "KVWrite.v"), "\n".join(out))
