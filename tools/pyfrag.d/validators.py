"""pyfrag plugin (owner: see HOWTO). `from pyfrag import *` gives the translator core."""
import ast, os
from pyfrag import *


def generate(repo, outdir):
    src = os.path.join(repo, "nostr_relay/validators.py")
    tree = ast.parse(open(src).read())
    out = [HEADER % "nostr_relay/validators.py"]
    for name in ["is_not_too_large", "is_recent", "is_certain_kind", "is_author_whitelisted",
                 "is_author_blacklisted", "is_pow", "is_not_hellthread", "is_service_event"]:
        target(out, "validators." + name, lambda name=name: translate_validator(tree, name))
    emit(os.path.join(outdir, "Validators.v"), "\n".join(out))


