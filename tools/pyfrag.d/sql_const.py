"""pyfrag plugin (owner: SQLM, the SQL-backend model). `from pyfrag import *` gives the translator core.

Generates coq/Gen/SqlConst.v from nostr_relay/storage/db.py:
  gc_query               the text of QueryGarbageCollector.query (lexed and compared with the model's tokens)
  select_text / tail_text the constant parts of Subscription.build_query's statement
  indexed_long_names     the tag names process_tags indexes besides single letters
  sql_interpolations_ok  interpolation lint of evaluate_filter / build_query: every value pasted into the SQL text is
                         a hex-validated id/author, an integer, or the result of sql_text_literal placed between quotes
  sql_waits_scoped       db.py / base.py hold slots, locks, connections and transactions only through (async) with and shield nothing
"""
import ast
import os
from pyfrag import *


def _lit(s):
    return "[" + "; ".join("%d%%N" % ord(c) for c in s) + "]"


def _class_attr_str(tree, cls, attr):
    for n in tree.body:
        if isinstance(n, ast.ClassDef) and n.name == cls:
            for s in n.body:
                if isinstance(s, ast.Assign) and len(s.targets) == 1 and isinstance(s.targets[0], ast.Name) and s.targets[0].id == attr \
                        and isinstance(s.value, ast.Constant) and isinstance(s.value.value, str):
                    return s.value.value
    raise Unsupported("%s.%s is not a string constant" % (cls, attr))


class Lint:
    """fail-closed taint check of the two text-building functions"""

    def __init__(self, tree):
        self.tree = tree
        self.problems = []

    def bad(self, node, why):
        self.problems.append("line %d: %s" % (getattr(node, "lineno", 0), why))

    def check_quote_helper(self):
        fn = find_func(self.tree, "sql_text_literal")
        body = [s for s in fn.body if not (isinstance(s, ast.Expr) and isinstance(s.value, ast.Constant))]
        want = "return value.replace(\"'\", \"''\").replace(':', '\\\\:')"
        if len(body) != 1 or ast.unparse(body[0]) != want:
            self.bad(fn, "sql_text_literal is not `%s` but `%s`" % (want, "; ".join(ast.unparse(b) for b in body)))

    def run(self):
        self.check_quote_helper()
        ev = find_func(self.tree, "evaluate_filter", "Subscription")
        bq = find_func(self.tree, "build_query", "Subscription")
        self.check_fn(ev, {"filter_obj"})
        self.check_fn(bq, set())
        return self.problems

    def check_fn(self, fn, params):
        hexvars, quoted, ints, joined, safelists = set(), set(), set(), set(), set()
        # pass 1: classify names
        for n in ast.walk(fn):
            if isinstance(n, ast.For) and isinstance(n.target, ast.Name) and ast.unparse(n.iter) in ("filter_obj.ids", "filter_obj.authors"):
                hexvars.add(n.target.id)
            if isinstance(n, ast.Assign) and len(n.targets) == 1 and isinstance(n.targets[0], ast.Name):
                name, v = n.targets[0].id, n.value
                src = ast.unparse(v)
                if isinstance(v, ast.Call) and ast.unparse(v.func) == "sql_text_literal" and len(v.args) == 1:
                    quoted.add(name)
                elif src in ("[]", "set()"):
                    safelists.add(name)
                elif isinstance(v, ast.Call) and isinstance(v.func, ast.Attribute) and v.func.attr == "join" \
                        and isinstance(v.func.value, ast.Constant) and v.func.value.value == "," and len(v.args) == 1 \
                        and isinstance(v.args[0], ast.Name):
                    joined.add((name, v.args[0].id))
                elif name == "limit" and src in ("None", "min(filter_obj.limit, self.default_limit)", "self.default_limit"):
                    ints.add(name)
        joined_names = {a for a, b in joined}
        for a, b in joined:
            if b not in safelists:
                self.bad(fn, "%s is joined from %s which is not a list built in this function" % (a, b))

        def fv_ok(fv, before, after):
            e = fv.value
            if fv.conversion != -1 or fv.format_spec is not None:
                return False
            if isinstance(e, ast.Name):
                if e.id in quoted:
                    return before.endswith("'") and after.startswith("'")
                return e.id in hexvars or e.id in joined_names or e.id in ints
            if isinstance(e, ast.Call) and isinstance(e.func, ast.Attribute) and e.func.attr == "join" and len(e.args) == 1 \
                    and isinstance(e.args[0], ast.Name) and e.args[0].id in safelists:
                return True
            return False

        def check_joined(js):
            vals = js.values
            for i, part in enumerate(vals):
                if isinstance(part, ast.FormattedValue):
                    before = vals[i - 1].value if i > 0 and isinstance(vals[i - 1], ast.Constant) else ""
                    after = vals[i + 1].value if i + 1 < len(vals) and isinstance(vals[i + 1], ast.Constant) else ""
                    if not fv_ok(part, before, after):
                        self.bad(js, "interpolation {%s} is not a validated hex value, an integer or a quoted literal" % ast.unparse(part.value))

        for n in ast.walk(fn):
            if isinstance(n, ast.JoinedStr):
                check_joined(n)
            # what goes into the lists that are later joined
            if isinstance(n, ast.Call) and isinstance(n.func, ast.Attribute) and n.func.attr in ("append", "add") \
                    and isinstance(n.func.value, ast.Name) and n.func.value.id in safelists | {"subwhere", "where", "new_filters"}:
                a = n.args[0]
                if n.func.value.id == "new_filters":
                    continue
                ok = isinstance(a, ast.JoinedStr) or (isinstance(a, ast.Constant) and isinstance(a.value, str)) \
                    or (isinstance(a, ast.Name) and a.id == "subwhere") \
                    or (isinstance(a, ast.Call) and ast.unparse(a) == "'kind IN ({})'.format(','.join((str(k) for k in filter_obj.kinds)))") \
                    or (isinstance(a, ast.BinOp) and isinstance(a.op, ast.Mod) and isinstance(a.left, ast.Constant)
                        and a.left.value in ("created_at >= %d", "created_at < %d")
                        and ast.unparse(a.right) in ("filter_obj.since", "filter_obj.until"))
                if not ok:
                    self.bad(n, "`%s` appended to the SQL text is outside the allowed forms" % ast.unparse(a))
            if isinstance(n, ast.Call) and isinstance(n.func, ast.Attribute) and n.func.attr == "format" \
                    and ast.unparse(n) != "'kind IN ({})'.format(','.join((str(k) for k in filter_obj.kinds)))":
                self.bad(n, "unexpected .format(): %s" % ast.unparse(n))
            if isinstance(n, ast.BinOp) and isinstance(n.op, ast.Mod) and isinstance(n.left, ast.Constant) and isinstance(n.left.value, str) \
                    and not (n.left.value in ("created_at >= %d", "created_at < %d") and ast.unparse(n.right) in ("filter_obj.since", "filter_obj.until")):
                self.bad(n, "unexpected %%-formatting: %s" % ast.unparse(n))
            if isinstance(n, ast.AugAssign) and isinstance(n.target, ast.Name) and n.target.id == "select":
                v = n.value
                if not (isinstance(v, (ast.Constant, ast.JoinedStr)) or ast.unparse(v) == "'\\n) OR (\\n'.join(where)"):
                    self.bad(n, "select += %s" % ast.unparse(v))


def generate(repo, outdir):
    path = os.path.join(repo, "nostr_relay/storage/db.py")
    out = [HEADER % "nostr_relay/storage/db.py (SQL text constants, interpolation lint)"]
    try:
        tree = ast.parse(open(path).read())
    except (OSError, SyntaxError) as e:
        FAILS.append("sql_const: %s" % e)
        print("TRANSLATE-FAIL sql_const: %s" % e)
        emit(os.path.join(outdir, "SqlConst.v"), "\n".join(out))
        return

    def gc():
        q = _class_attr_str(tree, "QueryGarbageCollector", "query")
        fn = find_func(tree, "collect", "QueryGarbageCollector")
        src = ast.unparse(fn)
        if "sa.text(self.query.replace('%NOW%', str(int(time()))))" not in src:
            raise Unsupported("collect() no longer executes query.replace('%NOW%', str(int(time())))")
        return "Definition gc_query : pystr := %s.\n" % _lit(q)
    target(out, "sql_const.gc_query", gc)

    def select():
        fn = find_func(tree, "build_query", "Subscription")
        head = tail = None
        for n in ast.walk(fn):
            if isinstance(n, ast.Assign) and ast.unparse(n.targets[0]) == "select" and isinstance(n.value, ast.Constant):
                head = n.value.value
            if isinstance(n, ast.AugAssign) and ast.unparse(n.target) == "select" and isinstance(n.value, ast.JoinedStr):
                parts = n.value.values
                if len(parts) == 3 and isinstance(parts[0], ast.Constant) and isinstance(parts[1], ast.FormattedValue) \
                        and ast.unparse(parts[1].value) == "limit" and isinstance(parts[2], ast.Constant) and not parts[2].value.strip():
                    tail = parts[0].value
        if head is None or tail is None:
            raise Unsupported("build_query: SELECT head / ORDER BY-LIMIT tail not found in the expected form")
        return "Definition select_text : pystr := %s.\nDefinition tail_text : pystr := %s.\n" % (_lit(head), _lit(tail))
    target(out, "sql_const.select", select)

    def names():
        fn = find_func(tree, "process_tags", "DBStorage")
        for n in ast.walk(fn):
            if isinstance(n, ast.Compare) and ast.unparse(n.left) == "tag[0]" and len(n.ops) == 1 and isinstance(n.ops[0], ast.In) \
                    and isinstance(n.comparators[0], ast.Tuple) and all(isinstance(e, ast.Constant) and isinstance(e.value, str) for e in n.comparators[0].elts):
                return "Definition indexed_long_names : list pystr := [%s].\n" % "; ".join(coq_str(e.value) for e in n.comparators[0].elts)
        raise Unsupported("process_tags: `tag[0] in (<names>)` not found")
    target(out, "sql_const.indexed_long_names", names)

    def lint():
        probs = Lint(tree).run()
        txt = "".join("(* lint: %s *)\n" % p.replace("*)", "* )").replace("(*", "( *") for p in probs)
        for p in probs:
            print("pyfrag sql lint: " + p)
        return txt + "Definition sql_interpolations_ok : bool := %s.\n" % ("true" if not probs else "false")
    target(out, "sql_const.lint", lint)

    def waits():
        """the SQL model gives a save or a query that fails or is cancelled no lasting effect on later operations: true when every
        slot / lock / transaction is held through `async with` / `with` (released on every way out) and nothing is shielded from
        cancellation; an explicit acquire()/release() pair or asyncio.shield is outside what the model describes"""
        probs = []
        for rel in ("nostr_relay/storage/db.py", "nostr_relay/storage/base.py"):
            tr_ = tree if rel.endswith("db.py") else ast.parse(open(os.path.join(repo, rel)).read())
            scoped = set()
            for n in ast.walk(tr_):
                if isinstance(n, (ast.With, ast.AsyncWith)):
                    for it in n.items:
                        scoped.add(id(it.context_expr))
            for n in ast.walk(tr_):
                if isinstance(n, ast.Call):
                    f = n.func
                    if isinstance(f, ast.Attribute) and f.attr in ("begin", "connect") and ast.unparse(f.value).endswith("db") and id(n) not in scoped:
                        # a transaction / connection opened outside `async with` is not committed-or-rolled-back as a whole on every way out
                        probs.append("%s line %d: %s outside a with block" % (rel, n.lineno, ast.unparse(n)))
                    if isinstance(f, ast.Attribute) and f.attr in ("acquire", "release", "shield"):
                        probs.append("%s line %d: %s" % (rel, n.lineno, ast.unparse(f)))
                    elif isinstance(f, ast.Name) and f.id == "shield":
                        probs.append("%s line %d: shield" % (rel, n.lineno))
        for p in probs:
            print("pyfrag sql waits lint: " + p)
        return "Definition sql_waits_scoped : bool := %s.\n" % ("true" if not probs else "false")
    target(out, "sql_const.waits", waits)
    emit(os.path.join(outdir, "SqlConst.v"), "\n".join(out))
