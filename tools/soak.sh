#!/bin/bash
# usage: tools/soak.sh <out dir> [seeds...]   (development aid, not registered in the manifest)
# Runs every check on the current tree with other seeds, five at a time (which also puts the machine under load):
# any VIOLATION line is a false alarm of the machinery (or a finding) and has to be looked at.
out=${1:-/tmp/soak}; shift
seeds=${@:-1 2 3}
mkdir -p $out
cd /verif
for seed in $seeds; do
  for grp in "01 02 03 04 05" "06 07 08 09 10" "11 12 13 14 15" "16 17 18 19 20"; do
    for i in $grp; do VERIF_SEED=$seed ./check C$i --no-prove > $out/C${i}_s$seed.log 2>&1 & done
    wait
  done
done
echo finished > $out/DONE
