#!/usr/bin/env python3
"""Regenerate the table of DESIGN.md section 11.6 from seeded/*/meta.json.

Usage: tools/gen_seed_table.py          (rewrites the table between the markers in DESIGN.md)
"""
import json, os, re, sys
ROOT = os.path.dirname(os.path.dirname(os.path.abspath(__file__)))
BEGIN, END = "<!-- seed-table:begin -->", "<!-- seed-table:end -->"

def rows():
    out = []
    names = sorted(os.listdir(os.path.join(ROOT, "seeded")),
                   key=lambda n: (n.split("_")[0], int(n.split("_")[1])))
    for n in names:
        p = os.path.join(ROOT, "seeded", n, "meta.json")
        if not os.path.exists(p):
            continue
        m = json.load(open(p))
        s = " ".join(str(m.get("summary", "")).split())
        if len(s) > 150:
            s = s[:150] + "..."
        r = " ".join(str(m.get("result", "")).split())
        out.append((n, m.get("round", 1), s.replace("|", "\\|"), r.replace("|", "\\|")))
    return out

def main():
    rs = rows()
    lines = [BEGIN, "", "| seed | round | change | result |", "|---|---|---|---|"]
    for n, rd, s, r in rs:
        lines.append(f"| {n} | {rd} | {s} | {r} |")
    total = len(rs)
    after = sum(1 for _, _, _, r in rs if r.startswith("caught after"))
    missed = sum(1 for _, _, _, r in rs if not r.startswith("caught"))
    lines += ["", f"Totals: {total} changes, {total - after - missed} caught by the checks as they stood, "
              f"{after} caught after strengthening, {missed} not caught.", "", END]
    path = os.path.join(ROOT, "DESIGN.md")
    txt = open(path).read()
    if BEGIN in txt:
        txt = re.sub(re.escape(BEGIN) + r".*?" + re.escape(END), lambda _: "\n".join(lines), txt, flags=re.S)
    else:
        sys.exit("markers missing in DESIGN.md")
    open(path, "w").write(txt)
    print(f"{total} seeds, {after} after strengthening, {missed} missed")

if __name__ == "__main__":
    main()
