#!/usr/bin/env python3
"""Assemble coq/Props/Cxx.v for the two-backend properties from the theorem files of the backend
models (Props/SQLM.v, Props/KVM.v, Props/KVW.v): every `Theorem|Example name ... Print Assumptions name.`
block whose name starts with Cxx_, plus the shared support theorems (SQLM_*, KVM_*, KVW_*) of the
backends involved.  Also writes coq/Cxx/Run.v (union of the backends' suites).  Run by hand after a
backend's Props file changes; the output is committed."""
import os, re, sys
here = os.path.dirname(os.path.dirname(os.path.abspath(__file__)))
COQ = os.path.join(here, "coq")
TITLES = {
 "C01": "a REQ is answered only with accepted events that match one of its filters; filters are pure data",
 "C02": "a REQ returns every matching stored event exactly once when under its limit",
 "C06": "OK acknowledgements agree with what the relay actually did",
 "C07": "all effects of an event are applied atomically, even across crashes",
 "C08": "only an event's author can delete it (NIP-09)",
 "C09": "replaceable events: newest kept, older superseded, everything else untouched",
 "C11": "query answers are unaffected by unrelated data and monotone in the filter",
 "C12": "a limit returns the newest matching events, never more than allowed",
 "C17": "garbage collection removes expired and ephemeral events and nothing else",
}

EXTRA_RUN = {"C01": ["RELAY", "Filt"], "C02": ["RELAY", "Filt"], "C11": ["Filt"], "C12": ["Filt"]}     # C01 also runs the live-matching suite of the relay model; all query properties tie filter validation


def blocks(path):
    src = open(path).read()
    hdr = []
    out = []
    for m in re.finditer(r"^(From|Require|Open Scope|Import|Local Open Scope)[^\n]*(?:\n\s+[^\n]*)*?\.\s*$", src, re.M):
        pass
    # header = everything before the first Theorem/Example/Lemma
    first = re.search(r"^(Theorem|Example|Lemma|Corollary)\s", src, re.M)
    header = src[:first.start()] if first else src
    for m in re.finditer(r"^(Theorem|Example|Lemma|Corollary)\s+([A-Za-z0-9_']+)", src, re.M):
        name = m.group(2)
        start = m.start()
        # include the comment block immediately above
        pre = src[:start].rstrip()
        cstart = start
        if pre.endswith("*)"):
            i = pre.rfind("(*")
            # only if the comment is directly adjacent
            if i >= 0 and "\n\n" not in pre[i:]:
                cstart = i
        pa = re.search(r"Print Assumptions\s+" + re.escape(name) + r"\.", src[start:])
        qed = re.search(r"(Qed|Defined)\.", src[start:])
        if not qed:
            continue
        end = start + (pa.end() if pa and pa.start() < qed.end() + 200 else qed.end())
        out.append((name, src[cstart:end].strip() + "\n"))
    return header, out

def restate(path):
    """theorem files whose proofs are inline (KVW/Thm_*.v): re-state every Theorem/Corollary with its binders
    and close it with `exact (name binders)`"""
    src = open(path).read()
    out = []
    # section variables in force at each position
    events = []
    for m in re.finditer(r"^Section\s+(\w+)\.|^End\s+(\w+)\.|^(?:Variable|Variables|Context|Hypothesis|Hypotheses)\s+(.*?)\.\s*$", src, re.M):
        events.append((m.start(), m))
    def secvars(pos):
        stack = [[]]
        for st, m in events:
            if st > pos:
                break
            if m.group(1):
                stack.append([])
            elif m.group(2):
                if len(stack) > 1:
                    stack.pop()
            else:
                decl = m.group(3).strip()
                if decl.startswith("("):
                    for b in re.findall(r"\(([^()]*)\)", decl):
                        stack[-1].append("(" + b + ")")
                else:
                    stack[-1].append("(" + decl + ")")
        return [v for lvl in stack for v in lvl]
    for m in re.finditer(r"^(Theorem|Corollary|Lemma)\s+([A-Za-z0-9_']+)(.*?)\nProof\.", src, re.M | re.S):
        kind, name, rest = m.group(1), m.group(2), m.group(3)
        sv = secvars(m.start())
        # split binders from statement at the first top-level " :"
        depth, cut = 0, None
        for i, ch in enumerate(rest):
            if ch in "([{":
                depth += 1
            elif ch in ")]}":
                depth -= 1
            elif ch == ":" and depth == 0 and rest[i:i + 2] != ":=":
                cut = i
                break
        if cut is None:
            continue
        binders, stmt = rest[:cut], rest[cut + 1:].strip()
        assert stmt.endswith("."), name
        names = []
        for tok in re.findall(r"\([^()]*\)|\{[^{}]*\}|[A-Za-z_][A-Za-z0-9_']*", binders):
            if tok[0] == "(":
                names += re.findall(r"[A-Za-z_][A-Za-z0-9_']*", tok[1:tok.index(":")] if ":" in tok else tok[1:-1])
            elif tok[0] == "{":
                continue
            else:
                names.append(tok)
        # comment directly above
        pre = src[:m.start()].rstrip()
        comment = ""
        if pre.endswith("*)"):
            i = pre.rfind("(*")
            if i >= 0 and "\n\n" not in pre[i:]:
                comment = pre[i:] + "\n"
        svnames = []
        for b in sv:
            svnames += re.findall(r"[A-Za-z_][A-Za-z0-9_']*", b[1:b.index(":")])
        args = "".join(" " + n for n in names)
        if sv:
            import itertools
            alts = []
            for r in range(len(svnames), -1, -1):
                for sub in itertools.combinations(svnames, r):
                    alts.append("exact (%s%s%s)" % (name, "".join(" " + n for n in sub), args))
            proof = "first [" + " | ".join(alts) + "]"
        else:
            proof = "exact (%s%s)" % (name, args)
        body = "%sTheorem %s%s%s :\n  %s\nProof. %s. Qed.\nPrint Assumptions %s.\n" % (
            comment, name, "".join(" " + b for b in sv), binders.rstrip(), stmt, proof, name)
        out.append((name, body))
    return out


def main():
    import glob
    sources = {k: os.path.join(COQ, "Props", k + ".v") for k in ("SQLM", "KVM", "KVW", "RELAY")}
    parsed = {k: blocks(p) for k, p in sources.items() if os.path.exists(p)}
    if "KVW" in parsed:
        bl = []
        mods = []
        for f in sorted(glob.glob(os.path.join(COQ, "KVW", "Thm_*.v"))):
            bl += restate(f)
            mods.append("KVW." + os.path.basename(f)[:-2])
            h = re.sub(r"\(\*.*?\*\)", "", open(f).read(), flags=re.S)
            for m in re.finditer(r"From\s+NR\s+Require\s+(?:Import|Export)\s+(.*?)\.(?=\s)", h, re.S):
                for mod in m.group(1).split():
                    if mod not in mods:
                        mods.append(mod)
        hdr = "From NR Require Import %s.\nOpen Scope list_scope. Open Scope Z_scope.\n" % " ".join(mods)
        parsed["KVW"] = (hdr, bl)
    for pid, title in TITLES.items():
        parts, hdrs, used = [], [], []
        for k, (hdr, bl) in parsed.items():
            mine = [b for n, b in bl if n.startswith(pid + "_")]
            if not mine:
                continue
            used.append(k)
            hdrs.append(hdr)
            support = [b for n, b in bl if n.startswith(k + "_") or n.startswith("scanner_") or n.startswith("KVM_") and k == "KVM"]
            parts.append("(* %s *)\n" % k)
            parts.extend(mine)
            parts.append("(* ---- supporting theorems of this backend model (invariants, ties to the source) ---- *)\n")
            seen = set()
            for b in support:
                if b not in mine and b not in seen:
                    seen.add(b)
                    parts.append(b)
        if not parts:
            continue
        text = "(* %s - %s.\n   Assembled by tools/gen_props.py from %s: property theorems only\n   (statement, `exact`, Print Assumptions); the proofs live in the backend model directories.\n   Each backend's theorems sit in their own module so that equally named definitions of the two\n   backend models cannot shadow one another. *)\n" % (
            pid, title, ", ".join("Props/%s.v" % u for u in used))
        requires, bodies = [], []
        for k in used:
            hdr, bl = parsed[k]
            h = re.sub(r"\(\*.*?\*\)", "", hdr, flags=re.S)
            imports = []
            for m in re.finditer(r"From\s+(\w+)\s+Require\s+(Import\s+|Export\s+)?(.*?)\.(?=\s)", h, re.S):
                lib, imp, mods = m.group(1), m.group(2), " ".join(m.group(3).split())
                requires.append("From %s Require %s." % (lib, mods))
                if imp:
                    imports.append("Import %s." % mods)
            scopes = re.findall(r"((?:Local )?Open Scope \w+\.)", h)
            mine = [b for n, b in bl if n.startswith(pid + "_")]
            support = [b for n, b in bl if not re.match(r"C\d\d_", n)]
            body = "Module %s.\n%s\n%s\n\n" % (k, "\n".join(imports), " ".join(sc.replace("Local ", "") for sc in scopes))
            body += "\n".join(mine)
            body += "\n(* ---- supporting theorems of this backend model (invariants, ties to the source, non-vacuity) ---- *)\n"
            body += "\n".join(b for b in support if b not in mine)
            body += "\nEnd %s.\n" % k
            bodies.append("(* ================= %s ================= *)\n" % {"SQLM": "SQL backend (nostr_relay/storage/db.py)", "KVM": "LMDB query path (kv.py scanner, planner, matcher, executor)", "KVW": "LMDB write path (kv.py indexes, writer thread, garbage collector)", "RELAY": "connection handler (web.start_client)"}[k] + body)
        text += "\n".join(dict.fromkeys(requires)) + "\n\n" + "\n".join(bodies)
        open(os.path.join(COQ, "Props", pid + ".v"), "w").write(text)
        os.makedirs(os.path.join(COQ, pid), exist_ok=True)
        run = "(* %s: union of the backend models' wire suites. Generated by tools/gen_props.py. *)\nFrom NR Require Import Lib.Base Lib.Wire.\n" % pid
        mods = [u for u in used + EXTRA_RUN.get(pid, []) if os.path.exists(os.path.join(COQ, u, "Run.v"))]
        mods = list(dict.fromkeys(mods))
        for u in mods:
            run += "From NR Require %s.Run.\n" % u
        run += "Definition suites := " + " ++ ".join("NR.%s.Run.suites" % u for u in mods) + ".\nDefinition dispatch := dispatch_in suites.\n"
        open(os.path.join(COQ, pid, "Run.v"), "w").write(run)
        print(pid, "from", used, len(parts), "blocks")

if __name__ == "__main__":
    main()
