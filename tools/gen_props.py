#!/usr/bin/env python3
"""Assemble coq/Props/Cxx.v for the two-backend properties from the theorem files of the backend
models (Props/SQLM.v, Props/KVM.v, Props/KVW.v): every `Theorem|Example name ... Print Assumptions name.`
block whose name starts with Cxx_, plus the shared support theorems (SQLM_*, KVM_*, KVW_*) of the
backends involved.  Also writes coq/Cxx/Run.v (union of the backends' suites).  Run by hand after a
backend's Props file changes; the output is committed."""
import os, re, sys
here = os.path.dirname(os.path.dirname(os.path.abspath(__file__)))
COQ = os.path.join(here, "coq")
TITLES = {
 "C01": "a REQ is answered only with accepted events that match one of its filters; filters are pure data",
 "C02": "a REQ returns every matching stored event exactly once when under its limit",
 "C06": "OK acknowledgements agree with what the relay actually did",
 "C07": "all effects of an event are applied atomically, even across crashes",
 "C08": "only an event's author can delete it (NIP-09)",
 "C09": "replaceable events: newest kept, older superseded, everything else untouched",
 "C11": "query answers are unaffected by unrelated data and monotone in the filter",
 "C12": "a limit returns the newest matching events, never more than allowed",
 "C17": "garbage collection removes expired and ephemeral events and nothing else",
}

def blocks(path):
    src = open(path).read()
    hdr = []
    out = []
    for m in re.finditer(r"^(From|Require|Open Scope|Import|Local Open Scope)[^\n]*(?:\n\s+[^\n]*)*?\.\s*$", src, re.M):
        pass
    # header = everything before the first Theorem/Example/Lemma
    first = re.search(r"^(Theorem|Example|Lemma|Corollary)\s", src, re.M)
    header = src[:first.start()] if first else src
    for m in re.finditer(r"^(Theorem|Example|Lemma|Corollary)\s+([A-Za-z0-9_']+)", src, re.M):
        name = m.group(2)
        start = m.start()
        # include the comment block immediately above
        pre = src[:start].rstrip()
        cstart = start
        if pre.endswith("*)"):
            i = pre.rfind("(*")
            # only if the comment is directly adjacent
            if i >= 0 and "\n\n" not in pre[i:]:
                cstart = i
        pa = re.search(r"Print Assumptions\s+" + re.escape(name) + r"\.", src[start:])
        qed = re.search(r"(Qed|Defined)\.", src[start:])
        if not qed:
            continue
        end = start + (pa.end() if pa and pa.start() < qed.end() + 200 else qed.end())
        out.append((name, src[cstart:end].strip() + "\n"))
    return header, out

def main():
    sources = {k: os.path.join(COQ, "Props", k + ".v") for k in ("SQLM", "KVM", "KVW")}
    parsed = {k: blocks(p) for k, p in sources.items() if os.path.exists(p)}
    for pid, title in TITLES.items():
        parts, hdrs, used = [], [], []
        for k, (hdr, bl) in parsed.items():
            mine = [b for n, b in bl if n.startswith(pid + "_")]
            if not mine:
                continue
            used.append(k)
            hdrs.append(hdr)
            support = [b for n, b in bl if n.startswith(k + "_") or n.startswith("scanner_") or n.startswith("KVM_") and k == "KVM"]
            parts.append("(* ================= %s backend (%s) ================= *)\n" % ({"SQLM": "SQL", "KVM": "LMDB query path", "KVW": "LMDB write path"}[k], k))
            parts.extend(mine)
            parts.append("(* ---- supporting theorems of this backend model (invariants, ties to the source) ---- *)\n")
            seen = set()
            for b in support:
                if b not in mine and b not in seen:
                    seen.add(b)
                    parts.append(b)
        if not parts:
            continue
        text = "(* %s - %s.\n   Assembled by tools/gen_props.py from %s: property theorems only\n   (statement, `exact`, Print Assumptions); the proofs live in the backend model directories.\n   Each backend's theorems sit in their own module so that equally named definitions of the two\n   backend models cannot shadow one another. *)\n" % (
            pid, title, ", ".join("Props/%s.v" % u for u in used))
        requires, bodies = [], []
        for k in used:
            hdr, bl = parsed[k]
            h = re.sub(r"\(\*.*?\*\)", "", hdr, flags=re.S)
            imports = []
            for m in re.finditer(r"From\s+(\w+)\s+Require\s+(Import\s+|Export\s+)?(.*?)\.(?=\s)", h, re.S):
                lib, imp, mods = m.group(1), m.group(2), " ".join(m.group(3).split())
                requires.append("From %s Require %s." % (lib, mods))
                if imp:
                    imports.append("Import %s." % mods)
            scopes = re.findall(r"((?:Local )?Open Scope \w+\.)", h)
            mine = [b for n, b in bl if n.startswith(pid + "_")]
            support = [b for n, b in bl if not re.match(r"C\d\d_", n)]
            body = "Module %s.\n%s\n%s\n\n" % (k, "\n".join(imports), " ".join(sc.replace("Local ", "") for sc in scopes))
            body += "\n".join(mine)
            body += "\n(* ---- supporting theorems of this backend model (invariants, ties to the source, non-vacuity) ---- *)\n"
            body += "\n".join(b for b in support if b not in mine)
            body += "\nEnd %s.\n" % k
            bodies.append("(* ================= %s ================= *)\n" % {"SQLM": "SQL backend (nostr_relay/storage/db.py)", "KVM": "LMDB query path (kv.py scanner, planner, matcher, executor)", "KVW": "LMDB write path (kv.py indexes, writer thread, garbage collector)"}[k] + body)
        text += "\n".join(dict.fromkeys(requires)) + "\n\n" + "\n".join(bodies)
        open(os.path.join(COQ, "Props", pid + ".v"), "w").write(text)
        os.makedirs(os.path.join(COQ, pid), exist_ok=True)
        run = "(* %s: union of the backend models' wire suites. Generated by tools/gen_props.py. *)\nFrom NR Require Import Lib.Base Lib.Wire.\n" % pid
        mods = [u for u in used if os.path.exists(os.path.join(COQ, u, "Run.v"))]
        for u in mods:
            run += "From NR Require %s.Run.\n" % u
        run += "Definition suites := " + " ++ ".join("NR.%s.Run.suites" % u for u in mods) + ".\nDefinition dispatch := dispatch_in suites.\n"
        open(os.path.join(COQ, pid, "Run.v"), "w").write(run)
        print(pid, "from", used, len(parts), "blocks")

if __name__ == "__main__":
    main()
