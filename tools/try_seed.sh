#!/bin/bash
# usage: tools/try_seed.sh <seed dir with patch.diff demo.py> <check id> [tier]
# Applies the patch to a scratch worktree of /repo's HEAD, confirms the demo (pass without / fail with),
# runs ./check <id> against the patched copy (VERIF_REPO), removes the worktree.
seed=$1; pid=$2; tier=${3:-quick}
name=$(basename $seed)
wt=/tmp/mut/$name
mkdir -p /tmp/mut; git -C /repo worktree remove --force $wt 2>/dev/null
git -C /repo worktree add -q --detach $wt HEAD || exit 2
cd $wt
demo_env="PYTHONPATH=$wt:/verif/shims PYTHONHASHSEED=0"
mkdir -p $wt/seeded/$name
sed "s#/tmp/seed[0-9]*/[A-Z0-9]*#$wt#g" $seed/demo.py > $wt/seeded/$name/demo.py
base=$(env $demo_env timeout 300 /venv/bin/python $wt/seeded/$name/demo.py > /tmp/mut/$name.base.log 2>&1; echo $?)
if ! git apply $seed/patch.diff 2>/tmp/mut/$name.apply.log; then echo "$name: PATCH DOES NOT APPLY"; cat /tmp/mut/$name.apply.log | head -3; cd /; git -C /repo worktree remove --force $wt; exit 3; fi
mut=$(env $demo_env timeout 300 /venv/bin/python $wt/seeded/$name/demo.py > /tmp/mut/$name.mut.log 2>&1; echo $?)
cd /verif
out=$(VERIF_REPO=$wt timeout 1500 ./check $pid --tier $tier $VERIF_CHECK_ARGS 2>&1 | grep -E "VIOLATION|KNOWN|$pid $tier" | tail -3)
echo "$name: demo base=$base mutated=$mut | check: $out"
git -C /repo worktree remove --force $wt
