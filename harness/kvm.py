"""LMDB backend: implementation drivers and correspondence suites shared by the
per-property checks (scanner level here; write / query level are added by their owners)."""
import itertools

from .common import Suite, model_batch, rng_for


def _fake_event(idhex, pubkey, created_at, kind, tags):
    from aionostr.event import Event
    return Event(id=idhex, pubkey=pubkey, created_at=created_at, kind=kind, tags=tags, content="", sig="00" * 64)


def build_keyspace(events):
    """Write the given synthetic events through the REAL Index.write of every index onto a fresh
    shim environment; returns (env, sorted key list)."""
    import lmdb
    from nostr_relay.storage import kv
    path = "scan-%d" % id(events)
    lmdb.wipe(path)
    env = lmdb.open(path)
    with env.begin(write=True) as txn:
        txn.put(b"\xee", b"")
        for ev in events:
            e = _fake_event(*ev)
            for name, index in kv.INDEXES.items():
                if name == "search":
                    continue
                index.write(e, txn)
    return env, [k for k, _ in env.dump()]


def impl_scan(env, index, matches, since, until, events=None):
    from nostr_relay.storage import kv
    try:
        with env.begin(buffers=True) as txn:
            kw = {}
            if events is not None:
                kw["events"] = set(events)
            with kv.INDEXES[index].scanner(txn, [tuple(m) if isinstance(m, list) else m for m in matches],
                                           since=since, until=until, **kw) as sc:
                return {"res": "ok", "ids": [bytes(x) for x in sc]}
    except Exception:
        return {"res": "raise", "ids": []}


def impl_multi(env, stages, since, until):
    from nostr_relay.storage import kv
    mi = kv.MultiIndex()
    for st in stages:
        mi.add(st["index"], [tuple(m) if isinstance(m, list) else m for m in st["matches"]])
    try:
        with env.begin(buffers=True) as txn:
            with mi.scanner(txn, [m for _, m in mi.indexes], since=since, until=until) as sc:
                return {"res": "ok", "ids": sorted(bytes(x) for x in sc)}
    except Exception:
        return {"res": "raise", "ids": []}


# ---- universes -------------------------------------------------------------
def mkid(first, n):
    return bytes([first]) .hex() + ("%062x" % n)


PKS = ["aa" * 32, "aa" * 31 + "ab", "ff" * 32]
TS = [99, 100, 101, 199, 200, 201]
KINDS = [1, 2, 256, 257, 65536]
TAGVALS = ["ab", "abc", "ab\x00", "a", "", "b"]
TAGNAMES = ["t", "e", "expiration"]


def gen_events(rng, n):
    evs = []
    for i in range(n):
        tags = []
        for _ in range(rng.choice([0, 1, 1, 2, 3])):
            tags.append([rng.choice(TAGNAMES), rng.choice(TAGVALS)])
        evs.append((mkid(rng.choice([0x00, 0x7F, 0xFF, 0x10]), rng.randrange(1 << 24)), rng.choice(PKS), rng.choice(TS),
                    rng.choice(KINDS), tags))
    return evs


def gen_query(rng, evs):
    index = rng.choice(["ids", "created_at", "kinds", "authors", "authorkinds", "tags"])
    k = rng.choice([1, 1, 2, 3])
    if index == "ids":
        pool = [e[0] for e in evs] + [mkid(0xFF, 1), mkid(0, 0)]
        matches = rng.sample(pool, min(k, len(pool)))
    elif index == "created_at":
        matches = []
    elif index == "kinds":
        pool = [e[3] for e in evs] * 3 + KINDS + [0, 3, 4294967295, 4294967296, -1]
        matches = list(dict.fromkeys(rng.choice(pool) for _ in range(k)))
    elif index == "authors":
        pool = [e[1] for e in evs] * 3 + PKS + ["00" * 32]
        matches = list(dict.fromkeys(rng.choice(pool) for _ in range(k)))
    elif index == "authorkinds":
        pool = [[e[1], e[3]] for e in evs] * 3 + [[rng.choice(PKS), rng.choice(KINDS)]]
        matches = [rng.choice(pool) for _ in range(k)]
    else:
        pool = [t for e in evs for t in e[4]] * 3 + [[rng.choice(TAGNAMES), rng.choice(TAGVALS + ["\ud800", "é"])]]
        matches = [rng.choice(pool) for _ in range(k)]
    if rng.random() < 0.85 and index != "created_at":
        # what every caller does (sort_fields / planner): deduplicate and sort descending
        matches = [list(m) if isinstance(m, tuple) else m
                   for m in sorted({tuple(m) if isinstance(m, list) else m for m in matches}, reverse=True)]
    since = rng.choice([None, None, None, None, 0, 99, 100, 101, 150, 200, 201, 300])
    until = rng.choice([None, None, None, None, 0, 99, 100, 101, 150, 200, 201, 300, 4294967295])
    return index, matches, since, until


def suite_scan(tier, seed):
    s = Suite("corr:kv-scan")
    s.rule = ("keyspaces written by the real Index.write for 0-14 synthetic events (ids starting 00/10/7f/ff, timestamps around 100/200, "
              "kinds around byte boundaries, tag values prefixing one another, NUL, empty) x queries per index class with 0-3 matches, "
              "since/until around the stored timestamps; Index.scanner driven directly on a shim transaction vs KVM.Scan.index_scanner; "
              "non-trivial = non-empty answer that is a strict subset of the ids in that index")
    rng = rng_for(seed, "kvscan")
    n_spaces = 60 if tier == "quick" else 600
    per = 40 if tier == "quick" else 120
    cases, impls = [], []
    for _ in range(n_spaces):
        evs = gen_events(rng, rng.choice([0, 1, 2, 3, 5, 8, 14]))
        env, keys = build_keyspace(evs)
        allids = sorted({bytes.fromhex(e[0]) for e in evs})
        for _ in range(per):
            index, matches, since, until = gen_query(rng, evs)
            events = None
            if rng.random() < 0.15 and allids and index != "created_at":
                events = rng.sample(allids, rng.randint(1, len(allids)))
            impls.append(impl_scan(env, index, matches, since, until, events))
            cases.append({"keys": keys, "index": index, "matches": matches, "since": since, "until": until, "events": events,
                          "_n": len(allids)})
    outs = model_batch("kvm.scan", [{k: v for k, v in c.items() if k != "_n"} for c in cases], pid="KVM")
    specs = model_batch("kvm.scanspec", [{k: v for k, v in c.items() if k != "_n"} for c in cases], pid="KVM")
    for c, mo, io, sp in zip(cases, outs, impls, specs):
        nt = io["res"] == "ok" and 0 < len(io["ids"]) < c["_n"]
        brief = {k: c[k] for k in ("index", "matches", "since", "until", "events")}
        brief["n_keys"] = len(c["keys"])
        s.case(brief, nontrivial=nt)
        s.count("index_" + c["index"])
        s.count("res_" + io["res"])
        s.count("answers_%s" % ("0" if not io["ids"] else ("1" if len(io["ids"]) == 1 else "n")))
        if mo != io:
            s.disagree(dict(brief, keys=c["keys"]), mo, io)
        # executable statement at scanner level: exactly the entries of the requested blocks inside [since, until]
        degenerate = c["index"] != "created_at" and sp["res"] == "ok" and not sp["ids"] and not _any_key(c)
        canon = [tuple(m) if isinstance(m, list) else m for m in c["matches"]]
        sorted_desc = all(a > b for a, b in zip(canon, canon[1:]))
        if sorted_desc and not degenerate and (sp["res"], sorted(sp["ids"])) != (io["res"], sorted(io["ids"])):
            s.violate(scan_class(c, sp, io), dict(brief, keys=c["keys"]), "Index.scanner does not yield exactly the requested index entries",
                      expected=sorted(sp["ids"]), observed=sorted(io["ids"]))
    return s


def _any_key(c):
    """does at least one match value convert to a key (otherwise the scanner falls into its range branch)"""
    from nostr_relay.storage import kv
    for m in c["matches"]:
        try:
            kv.INDEXES[c["index"]].to_key(tuple(m) if isinstance(m, list) else m)
            return True
        except (ValueError, OverflowError):
            pass
    return c["index"] == "created_at"


def scan_class(c, sp, io):
    missing = len(set(sp["ids"]) - set(io["ids"]))
    extra = len(io["ids"]) - len(set(io["ids"]) & set(sp["ids"]))
    return "scan:%s:%s%s%s" % (c["index"], "since" if c["since"] is not None else "", "until" if c["until"] is not None else "",
                                 ":missing" if missing else (":extra" if extra else ":dup"))


def suite_multi(tier, seed):
    s = Suite("corr:kv-multi")
    s.rule = "MultiIndex.scanner with 2-3 stages (kinds/authors/authorkinds/tags) on the same keyspaces; answers compared as sets"
    rng = rng_for(seed, "kvmulti")
    cases, impls = [], []
    for _ in range(40 if tier == "quick" else 400):
        evs = gen_events(rng, rng.choice([2, 3, 5, 8, 14]))
        env, keys = build_keyspace(evs)
        for _ in range(20):
            stages = []
            for ix in rng.sample(["kinds", "authors", "authorkinds", "tags"], rng.choice([2, 2, 3])):
                _, m, _, _ = gen_query(rng, evs) if False else (None, None, None, None)
                q = None
                while q is None or q[0] != ix:
                    q = gen_query(rng, evs)
                stages.append({"index": ix, "matches": q[1]})
            since = rng.choice([None, None, 100, 150, 200])
            until = rng.choice([None, None, 100, 150, 200, 300])
            impls.append(impl_multi(env, stages, since, until))
            cases.append({"keys": keys, "stages": stages, "since": since, "until": until})
    outs = model_batch("kvm.multi", cases, pid="KVM")
    for c, mo, io in zip(cases, outs, impls):
        mo = dict(mo, ids=sorted(mo["ids"]))
        brief = {k: c[k] for k in ("stages", "since", "until")}
        s.case(brief, nontrivial=bool(io["ids"]))
        s.count("stages_%d" % len(c["stages"]))
        s.count("res_" + io["res"])
        if mo != io:
            s.disagree(dict(brief, keys=c["keys"]), mo, io)
    return s


# =============================================================================
# Query level: planner, stored answers, oracles (owner: kvquery)
# =============================================================================
import hashlib as _hashlib

MAX_LIMIT = 5          # Config.max_limit used by the query suites (small, so the cap is reachable)
QTS = [1000, 1001, 1002, 1010, 1011, 1012, 2000]
QBOUNDS = [0, 999, 1000, 1001, 1002, 1009, 1010, 1011, 1012, 1013, 3000]
QKINDS = [1, 2, 6, 7, 8, 255, 256, 40000]
QVALS = ["ab", "abc", "a", "ab\x00", "", "b", "ü", "ab'", "AB"]
QNAMES = ["t", "e", "p", "d", "x"]


def _env():
    from . import env
    return env


def grind_event(who, kind, created_at, tags, first_byte=None):
    """a genuine signed event; content nonce ground so that the id starts with the wanted byte"""
    env = _env()
    if first_byte is None:
        return env.mk_event(who, kind, created_at, tags, "")
    for n in range(200000):
        content = "n%d" % n
        if bytes.fromhex(env.compute_id(env.PUBS[who], created_at, kind, [list(t) for t in tags], content))[0] == first_byte:
            return env.mk_event(who, kind, created_at, tags, content)
    raise RuntimeError("grind failed")


def delegation_tag(delegator, delegatee, conditions="kind=1"):
    env = _env()
    to_sign = ":".join(["nostr", "delegation", env.PUBS[delegatee], conditions]).encode("utf8")
    sig = env.PRIVS[delegator].sign_schnorr(_hashlib.sha256(to_sign).digest(), None).hex()
    return ["delegation", env.PUBS[delegator], conditions, sig]


def gen_history(rng, n, delegation=True):
    """mostly regular kinds (no replacement / deletion side effects), timestamps with ties, tag values that
    prefix / extend one another, e/p tags with 64-hex values, a few ids ground to start 00 / ff, a few delegated events"""
    env = _env()
    evs = []
    for _ in range(n):
        who = rng.randrange(4)
        kind = rng.choice(QKINDS)
        ts = rng.choice(QTS)
        tags = []
        for _ in range(rng.choice([0, 1, 1, 2, 3])):
            name = rng.choice(QNAMES)
            if name in ("e", "p") and rng.random() < 0.6:
                val = rng.choice(env.PUBS) if name == "p" else (evs[rng.randrange(len(evs))]["id"] if evs else "00" * 32)
            else:
                val = rng.choice(QVALS)
            t = [name, val]
            if rng.random() < 0.25:
                t.append(rng.choice(QVALS + ["extra"]))     # a third element equal to some requested value must not count
            tags.append(t)
        if rng.random() < 0.1:
            tags.append([rng.choice(QNAMES)])          # bare tag
        if tags and len(tags[0]) > 1 and rng.random() < 0.15:
            tags.insert(0, [tags[0][0]])               # a valueless tag in front of a valued one of the same name
        if delegation and rng.random() < 0.12:
            tags.append(delegation_tag((who + 1 + rng.randrange(3)) % 4, who))
        fb = rng.choice([None] * 8 + [0x00, 0xFF])
        evs.append(grind_event(who, kind, ts, tags, fb))
    return evs


def decode_dump(items):
    """[(key, value)] of the shim -> wire db [[key, event|None]] + the stored events"""
    from msgpack import unpackb
    db, stored = [], []
    for k, v in items:
        if k[:1] == b"\x00" and v:
            t = unpackb(v, use_list=True)
            ev = {"id": bytes(t[1]).hex(), "created_at": t[2], "kind": t[3], "pubkey": bytes(t[4]).hex(), "content": t[5],
                  "tags": [[str(x) for x in tg] for tg in t[6]], "sig": bytes(t[7]).hex()}
            db.append([k, ev])
            stored.append(ev)
        else:
            db.append([k, None])
    return db, stored


_STORE_NO = [0]


async def load_store(events, max_limit=MAX_LIMIT):
    env = _env()
    import lmdb
    env.load_config(max_limit=max_limit)
    _STORE_NO[0] += 1
    path = "kvquery-%d" % _STORE_NO[0]
    lmdb.wipe(path)          # the shim keeps environments by path: always start from an empty one
    st = await env.kv_storage(path=path)
    rejected = 0
    for e in events:
        try:
            await st.add_event(dict(e))
        except Exception:
            rejected += 1
    await env.quiesce(st)
    return st, rejected


def validate_filter(raw):
    from nostr_relay.storage.base import NostrQuery
    import copy
    return NostrQuery.model_validate(copy.deepcopy(raw))


def wire_filter(q):
    """validated NostrQuery -> the model's filter record"""
    return {"ids": list(q.ids) if q.ids is not None else None,
            "authors": list(q.authors) if q.authors is not None else None,
            "kinds": list(q.kinds) if q.kinds is not None else None,
            "since": q.since, "until": q.until, "limit": q.limit,
            "tags": [[n, sorted(vs)] for n, vs in (q.tags or [])]}


def canon_plan_impl(p):
    from nostr_relay.storage import kv
    names = {id(ix): n for n, ix in kv.INDEXES.items()}

    def cm(m):
        return list(m) if isinstance(m, tuple) else m
    items = []
    for k, v in p.query:
        if k in ("since", "until"):
            items.append([k, v])
        elif k in ("ids", "kinds", "authors"):
            items.append([k, list(v)])
        else:
            items.append(["#", k, sorted(v)])
    if isinstance(p.index, kv.MultiIndex):
        index = {"multi": [{"index": names[id(ix)], "matches": [cm(m) for m in ms]} for (ix, _), ms in zip(p.index.indexes, p.matches)]}
    else:
        index = {"index": names[id(p.index)], "matches": [cm(m) for m in p.matches]}
    return {"query": items, "index": index, "limit": p.limit, "since": p.since, "until": p.until}


def canon_plan_model(p):
    q = [[it[0], it[1], sorted(it[2])] if it[0] == "#" else it for it in p["query"]]
    return {k: v for k, v in dict(p, query=q).items() if k != "ids_desc"}


def impl_plans(filters, default_limit=None, max_limit=None):
    from nostr_relay.storage import kv
    qs = [validate_filter(f) for f in filters]
    kw = {}
    if max_limit is not None:
        kw["max_limit"] = max_limit
    return qs, kv.planner(qs, default_limit=default_limit, **kw)


# ---- filter generation ------------------------------------------------------
def gen_filter(rng, evs, limits=True):
    """a (mostly) well-formed filter; values are taken from the stored events most of the time so that answers are non-empty"""
    env = _env()
    f = {}
    shape = rng.random()
    if shape < 0.05:
        fields = []                                  # no condition at all / limit only
    elif shape < 0.5:
        fields = [rng.choice(["ids", "kinds", "authors", "tag", "window"])]
    elif shape < 0.92:
        fields = rng.sample(["ids", "kinds", "authors", "tag", "tag2", "window"], rng.choice([2, 2, 3, 4]))
    else:
        fields = ["ids", "kinds", "authors", "tag", "window"]
    anchor = rng.choice(evs) if evs and rng.random() < 0.75 else None     # an event the conjunction should hit

    def pick(stored, other):
        if stored and rng.random() < 0.8:
            return rng.choice(stored)
        return rng.choice(other)
    for fld in fields:
        if fld == "ids":
            k = rng.choice([1, 1, 2, 3])
            vals = [pick([e["id"] for e in evs], ["00" * 32, "ff" * 32]) for _ in range(k)]
            if anchor:
                vals[0] = anchor["id"]
            if rng.random() < 0.1:
                vals.append(rng.choice(vals) + rng.choice(["ab", "a", "0"]))   # longer than 64: matches nothing (R6)
            if rng.random() < 0.04:
                vals = []
            f["ids"] = vals
        elif fld == "kinds":
            k = rng.choice([1, 1, 2, 3])
            vals = [pick([e["kind"] for e in evs], QKINDS + [0, 3, 5, 9, -1, 4294967295, 4294967296]) for _ in range(k)]
            if anchor:
                vals[0] = anchor["kind"]
            if rng.random() < 0.12:
                vals.append(rng.choice([-1, 4294967296, 9]))
            f["kinds"] = vals if rng.random() > 0.04 else []
        elif fld == "authors":
            k = rng.choice([1, 1, 2])
            other = env.PUBS + [env.PUBS[0][:-1] + ("0" if env.PUBS[0][-1] != "0" else "1")]
            vals = [pick([e["pubkey"] for e in evs], other) for _ in range(k)]
            if anchor:
                vals[0] = anchor["pubkey"]
            f["authors"] = vals if rng.random() > 0.04 else []
        elif fld in ("tag", "tag2"):
            atags = [t for t in anchor["tags"] if len(t) > 1 and len(t[0]) == 1] if anchor else []
            if atags and "#" + atags[0][0] not in f:
                t = rng.choice(atags)
                name, first = t[0], [t[1]]
            else:
                name, first = rng.choice(QNAMES), []
            k = rng.choice([0, 0, 1, 2])
            pool = [t[1] for e in evs for t in e["tags"] if len(t) > 1 and t[0] == name]
            vals = first + [pick(pool, QVALS) for _ in range(k if first else k + 1)]
            f["#" + name] = vals if rng.random() > 0.04 else []
        elif fld == "window":
            w = rng.choice(["since", "until", "both"])
            c = anchor["created_at"] if anchor else rng.choice(QTS)
            if w in ("since", "both"):
                f["since"] = rng.choice([0, c - 1, c - 1, c, c + 1, rng.choice(QBOUNDS)])
            if w in ("until", "both"):
                f["until"] = rng.choice([c + 1, c + 1, c, c - 1, 3000, rng.choice(QBOUNDS)])
    if limits and rng.random() < 0.5:
        f["limit"] = rng.choice([0, 1, 2, MAX_LIMIT - 1, MAX_LIMIT, MAX_LIMIT + 1, 100])
    return f


def gen_req(rng, evs):
    n = rng.choice([1, 1, 1, 2, 3, 5, 6])
    return [gen_filter(rng, evs) for _ in range(n)]


# ---- implementation drivers -------------------------------------------------
async def impl_prepare(st, filters):
    """what the websocket path plans: BaseStorage.subscribe validates, Subscription.prepare plans"""
    from nostr_relay.storage import kv
    from nostr_relay.storage.base import ValidationError
    qs = []
    for f in filters:
        try:
            qs.append(validate_filter(f))
        except (ValidationError, ValueError):
            pass
    if not qs:
        return qs, []
    sub = kv.Subscription(st, "s", qs, queue=None, client_id="c")
    sub.prepare()
    return qs, list(sub.query)


async def impl_execute(st, plans):
    """kv.executor on prepared plans: one ordered id list per plan"""
    from nostr_relay.storage import kv
    out = []
    if not plans:
        return out
    qp = kv.QueryPlans(plans)
    async for plan, events in kv.executor(st.db, qp, st.query_pool, loop=st.loop):
        out.append([e.id for e in events])
    return out


async def close_store(st):
    env = _env()
    import lmdb
    path = st.options.get("path") if hasattr(st, "options") else None
    await env.close(st)
    if path:
        lmdb.wipe(path)


async def impl_req(st, filters):
    env = _env()
    evs, outcome = await env.req(st, filters)
    return [env.ev_obj(e) for e in evs], outcome


def model_reqs(db, reqs, max_limit, default_limit=None):
    """model answers for many REQs on one store"""
    return model_batch("kvm.answers", [{"db": db, "reqs": [{"filters": r} for r in reqs], "default_limit": default_limit,
                                        "max_limit": max_limit}], pid="KVM")[0]


# ---- suites -----------------------------------------------------------------
def suite_plan(tier, seed):
    s = Suite("corr:kv-plan")
    s.rule = ("REQs of 1-6 generated filters (ids/kinds/authors/#tags/since/until/limit, single and multiple values, empty lists, "
              "64- and 66-digit ids, limits 0,1,..,max_limit+1) validated by the real NostrQuery.model_validate; plans of "
              "Subscription.prepare (websocket path, Config.max_limit=%d) and of planner(default_limit=600000) (run_single_query) vs "
              "KVM.Plan.planner: query items, index / stages in order, matches in order, limit, since, until; "
              "non-trivial = at least one plan and one skipped filter or a multi-index plan" % MAX_LIMIT)
    env = _env()
    rng = rng_for(seed, "kvplan")
    n = 400 if tier == "quick" else 6000
    evs = gen_history(rng, 12)
    cases, impls = [], []

    async def go():
        st, _ = await load_store([])
        for _ in range(n):
            req = gen_req(rng, evs)
            qs, plans = await impl_prepare(st, req)
            mode = rng.choice(["ws", "ws", "single"])
            if mode == "single":
                from nostr_relay.storage import kv
                plans = list(kv.planner(qs, default_limit=600000))
            impls.append([canon_plan_impl(p) for p in plans])
            cases.append({"filters": [wire_filter(q) for q in qs], "default_limit": 600000 if mode == "single" else None,
                          "max_limit": None if mode == "single" else MAX_LIMIT, "_raw": req})
        await close_store(st)
    env.run(go())
    outs = model_batch("kvm.plan", [{k: v for k, v in c.items() if k != "_raw"} for c in cases], pid="KVM")
    for c, mo, io in zip(cases, outs, impls):
        for p in mo:
            if not p.get("ids_desc", True):
                s.count("hypothesis_ids_desc_unmet")      # e.g. a 65-digit id next to its 64-digit prefix: outside the theorem
        mo = [canon_plan_model(p) for p in mo]
        multi = any("multi" in p["index"] for p in io)
        s.case(c["_raw"], nontrivial=bool(io) and (multi or len(io) < len(c["filters"])))
        s.count("plans_%d" % len(io))
        s.count("filters_%d" % len(c["filters"]))
        for p in io:
            s.count("index_" + ("multi" if "multi" in p["index"] else p["index"]["index"]))
        if mo != io:
            s.disagree(c["_raw"], mo, io)
    return s


def _store_cases(rng, tier, n_hist_q, n_hist_t, n_events):
    return (n_hist_q if tier == "quick" else n_hist_t), n_events


def suite_answer(tier, seed):
    s = Suite("corr:kv-answer")
    s.rule = ("histories of 0-16 signed events loaded through the real LMDBStorage.add_event / WriterThread, then REQs of 1-6 generated "
              "filters; per plan the ordered id list of kv.executor on the plans of Subscription.prepare vs KVM.Exec.execute_one_plan on "
              "the keyspace dump (multi-index plans: as sets; when truncated: size and inclusion in the model's untruncated set); the "
              "flattened answer of BaseStorage.subscribe (env.req) must equal the concatenation; the answer of run_single_query (internal API, "
              "default_limit=600000, no cap) vs the model with those parameters; non-trivial = some plan returns a "
              "non-empty strict subset of the stored events")
    env = _env()
    rng = rng_for(seed, "kvanswer")
    n_hist = 30 if tier == "quick" else 400
    per = 25 if tier == "quick" else 60
    jobs = []

    async def go():
        for _ in range(n_hist):
            evs = gen_history(rng, rng.choice([0, 1, 3, 6, 10, 16]))
            st, _ = await load_store(evs)
            db, stored = decode_dump((await env.dump(st))["kv"])
            reqs, impls = [], []
            for _ in range(per):
                req = gen_req(rng, evs)
                qs, plans = await impl_prepare(st, req)
                per_plan = await impl_execute(st, plans)
                flat, outcome = await impl_req(st, req)
                single = [e.id async for e in st.run_single_query(list(qs))] if qs else []
                reqs.append([wire_filter(q) for q in qs])
                impls.append({"plans": per_plan, "flat": [e["id"] for e in flat], "outcome": outcome, "raw": req, "single": single})
            jobs.append((db, stored, reqs, impls))
            await close_store(st)
    env.run(go())
    for db, stored, reqs, impls in jobs:
        mouts = model_reqs(db, reqs, MAX_LIMIT)
        souts = model_reqs(db, reqs, None, default_limit=600000)     # BaseStorage.run_single_query: no cap, default_limit=600000
        for io, so in zip(impls, souts):
            if sorted(io["single"]) != sorted(x for p in so for x in p["ids"]):
                s.disagree({"filters": io["raw"], "path": "run_single_query", "stored": stored}, [p["ids"] for p in so], io["single"])
        for req, io, mo in zip(reqs, impls, mouts):
            brief = {"filters": io["raw"], "n_stored": len(stored)}
            nt = any(0 < len(p) < len(stored) for p in io["plans"])
            s.case(brief, nontrivial=nt)
            s.count("plans_%d" % len(io["plans"]))
            s.count("answers_%s" % ("0" if not io["flat"] else ("1" if len(io["flat"]) == 1 else "n")))
            bad = len(mo) != len(io["plans"])
            if not bad:
                for mp, ip in zip(mo, io["plans"]):
                    if mp["scan"] == "fuel":
                        bad = True
                    elif not mp["multi"]:
                        bad = bad or mp["ids"] != ip
                    elif len(mp["ids"]) == len(mp["full"]):
                        bad = bad or sorted(mp["ids"]) != sorted(ip)
                    else:
                        bad = bad or len(ip) != len(mp["ids"]) or not set(ip) <= set(mp["full"]) or len(set(ip)) != len(ip)
                    s.count("multi" if mp["multi"] else "single")
            if bad:
                s.disagree(dict(brief, stored=stored), mo, io["plans"])
            if sorted(io["flat"]) != sorted(x for p in io["plans"] for x in p) or io["outcome"] != "eose":
                s.disagree(dict(brief, stored=stored), {"concat": [x for p in io["plans"] for x in p]}, {"flat": io["flat"], "outcome": io["outcome"]})
    return s


def classify(prop, o, n_ans, eff):
    if prop == "c01":
        return "c01:unsound"
    if prop == "c02":
        if o["range_scan_refused"]:
            return "kv_range_scan_refused"
        if o["delegator_only"]:
            return "delegator_only_match"
        return "c02:incomplete-or-duplicate"
    if n_ans > eff:
        return "c12:over-limit"
    if o["delegator_only"]:
        return "delegator_only_match"
    if o["multi_match"]:
        return "kv_multi_match_truncated"
    return "c12:not-newest"


def suite_oracle(tier, seed, props=("c01", "c02", "c12"), name="oracle:kv", label="kvoracle"):
    """the executable statements of C01/C02/C12 on the answers of single-filter REQs through the websocket path"""
    s = Suite(name)
    s.rule = ("single-filter REQs through BaseStorage.subscribe on stores loaded by the real write path; retrievable set = primary records "
              "of the keyspace dump; KVM.Spec.holds_%s (from Lib.Nip01.must_match / may_match) evaluated on the implementation's "
              "answer; limits 0,1,max_limit-1,max_limit,max_limit+1,100 with Config.max_limit=%d and stores with fewer / as many / "
              "more matching events; non-trivial = the filter must-matches a non-empty strict subset of the stored events"
              % ("/".join(p.upper() for p in props), MAX_LIMIT))
    env = _env()
    rng = rng_for(seed, label)
    n_hist = 30 if tier == "quick" else 300
    per = 40 if tier == "quick" else 100
    cases = []

    async def go():
        for _ in range(n_hist):
            evs = gen_history(rng, rng.choice([1, 3, 6, 10, 16, 24]))
            st, _ = await load_store(evs)
            db, stored = decode_dump((await env.dump(st))["kv"])
            for _ in range(per):
                raw = gen_filter(rng, evs)
                try:
                    q = validate_filter(raw)
                except Exception:
                    continue
                ans, outcome = await impl_req(st, [raw])
                cases.append({"stored": stored, "filter": wire_filter(q), "answer": ans, "max_limit": MAX_LIMIT, "_raw": raw, "_outcome": outcome})
            await close_store(st)
    env.run(go())
    outs = model_batch("kvm.oracle", [{k: v for k, v in c.items() if not k.startswith("_")} for c in cases], pid="KVM")
    for c, o in zip(cases, outs):
        brief = {"filter": c["_raw"], "n_stored": len(c["stored"]), "n_answer": len(c["answer"])}
        s.case(brief, nontrivial=0 < o["n_must"] < len(c["stored"]))
        s.count("under_limit" if o["under_limit"] else "over_limit")
        s.count("answer_%s" % ("0" if not c["answer"] else "n"))
        lim = c["filter"]["limit"]
        eff = MAX_LIMIT if lim is None else min(lim, MAX_LIMIT)
        for p in props:
            if not o[p]:
                s.violate(classify(p, o, len(c["answer"]), eff), dict(brief, stored=c["stored"], prop=p),
                          "holds_%s is false on the implementation's answer" % p.upper(),
                          expected="n_may=%d n_must=%d eff_limit=%d" % (o["n_may"], o["n_must"], eff), observed=[e["id"] for e in c["answer"]])
        if c["_outcome"] != "eose":
            s.disagree(brief, "eose", c["_outcome"])
    return s


# ---- C11: relations between pairs of runs -----------------------------------
BIG = 1000


def neighbours(rng, f, evs):
    """events adjacent, in some index, to what the filter asks for (DESIGN 5/C11): kind +-1, other author, tag values
    v.c / v[:-1] / v.NUL, timestamps bound +-1 and on the bound, ids ground to start 00 / ff at the same second"""
    env = _env()
    out = []
    kinds = f.get("kinds") or [1]
    authors = f.get("authors") or [env.PUBS[0]]
    tagconds = [(k[1], v) for k, v in f.items() if k.startswith("#")]
    bounds = [b for b in (f.get("since"), f.get("until")) if b is not None] or [1001]
    tss = sorted({t for b in bounds for t in (b - 1, b, b + 1) if t > 0})
    for _ in range(rng.choice([3, 5, 8])):
        who = rng.randrange(4)
        if rng.random() < 0.5 and f.get("authors"):
            cand = [i for i, p in enumerate(env.PUBS) if p in authors]
            who = rng.choice(cand) if cand and rng.random() < 0.7 else who
        k = rng.choice(kinds)
        kind = rng.choice([k, k + 1, max(0, k - 1), k + 256, k, 4294967295, 0x01000000])   # incl. the last key of the kinds index (02 ff ff ff ff ..)
        if kind in (0, 3, 5) or 10000 <= kind < 40000 or kind < 0:
            kind = 1
        ts = rng.choice(tss + QTS[:3])
        tags = []
        for name, vals in tagconds:
            v = rng.choice(vals) if vals else "ab"
            nv = rng.choice([v + "c", v[:-1], v + "\x00", v + "\x00z", v, v.upper(), "\x00" + v])
            nm = rng.choice([name, name, chr(ord(name) + 1)])
            tags.append([nm, nv])
        if rng.random() < 0.3:
            tags.append([rng.choice(QNAMES), rng.choice(QVALS)])
        out.append(grind_event(who, kind, ts, tags, rng.choice([None, None, 0x00, 0xFF])))
    # a single requested value: its proper prefixes / suffixes / the empty string, on an event that satisfies every other condition
    # (a residual test written as a substring test - `v in "abc"` - would let them through)
    for name, vals in tagconds:
        if len(vals) == 1 and isinstance(vals[0], str) and len(vals[0]) >= 2:
            v = vals[0]
            who = next((i for i, p in enumerate(env.PUBS) if p in (f.get("authors") or [])), 0)
            kind = (f.get("kinds") or [1])[0]
            if kind in (0, 3, 5) or 10000 <= kind < 40000 or kind < 0:
                kind = 1
            others = [[n2, v2[0]] for n2, v2 in tagconds if n2 != name and v2]
            for nv in (v[:-1], v[1:], ""):
                out.append(grind_event(who, kind, rng.choice(tss), others + [[name, nv]], None))
    # half-matching neighbours, NEWER than everything the filter asks for: they satisfy all conditions but one, so they sit
    # in front of the matching events in whichever index serves the filter and only the residual test rejects them
    conds = [k for k in f if k in ("kinds", "authors") or k.startswith("#")]
    if len(conds) >= 2:
        hi = f.get("until") or 2000
        for drop in conds:
            for j in range(rng.choice([1, 2, 3])):
                who = next((i for i, p in enumerate(env.PUBS) if p in (f.get("authors") or [])), rng.randrange(4))
                kind = (f.get("kinds") or [1])[0]
                if kind in (0, 3, 5) or 10000 <= kind < 40000 or kind < 0:
                    kind = 1
                tags = [[name, vals[0]] for name, vals in tagconds if vals]
                if drop == "kinds":
                    kind = kind + 1 if kind + 1 not in (f.get("kinds") or []) and kind + 1 not in (3, 5) and not (10000 <= kind + 1 < 40000) else 1111
                elif drop == "authors":
                    others = [i for i, p in enumerate(env.PUBS) if p not in f["authors"]]
                    if not others:
                        continue
                    who = rng.choice(others)
                else:
                    tags = [tg for tg in tags if tg[0] != drop[1]] + [[drop[1], "no-such-value"]]
                out.append(grind_event(who, kind, max(1, hi - j), tags, None))
    return out


def big_filter(rng, evs):
    f = gen_filter(rng, evs, limits=False)
    f["limit"] = BIG
    return f


def model_match(pairs):
    """[(validated wire filter, event)] -> [{must, may, residual}]"""
    return model_batch("kvm.match", [{"filter": f, "event": e} for f, e in pairs], pid="KVM")


def suite_frame(tier, seed):
    s = Suite("rel:kv-frame")
    s.rule = ("C11(1): the answer to a filter on a store, and on the same store after adding neighbour events that cannot match it "
              "(Lib.Nip01.may_match false; kind +-1, tag values extending / prefixing / NUL-extending the requested ones, timestamps on "
              "and next to the bounds, ids starting 00 / ff), must be the same set; Config.max_limit=%d so nothing truncates; "
              "non-trivial = non-empty answer and at least one neighbour added" % BIG)
    env = _env()
    rng = rng_for(seed, "kvframe")
    n_hist = 25 if tier == "quick" else 250
    per = 6 if tier == "quick" else 10
    results = []

    async def go():
        for _ in range(n_hist):
            evs = gen_history(rng, rng.choice([2, 5, 9, 14]), delegation=False)
            st, _ = await load_store(evs, max_limit=BIG)
            directed = []
            tagged = [(e, tg) for e in evs for tg in e["tags"] if len(tg) >= 2 and isinstance(tg[0], str) and len(tg[0]) == 1 and tg[0].isalpha()
                      and isinstance(tg[1], str) and len(tg[1]) >= 2 and "\x00" not in tg[1]]
            if tagged:
                e, tg = rng.choice(tagged)
                directed = [{"kinds": [e["kind"]], "#" + tg[0]: [tg[1]], "limit": BIG}, {"authors": [e["pubkey"]], "#" + tg[0]: [tg[1]], "limit": BIG}]
            for j_ in range(per + len(directed)):
                raw = directed[j_ - per] if j_ >= per else big_filter(rng, evs)
                try:
                    q = wire_filter(validate_filter(raw))
                except Exception:
                    continue
                cand = neighbours(rng, raw, evs)
                verdicts = model_match([(q, e) for e in cand])
                added = [e for e, v in zip(cand, verdicts) if not v["may"]]
                a1, o1 = await impl_req(st, [raw])
                # the same filter with a limit that is exactly the number of matching events: nothing is truncated, so the
                # neighbours must not change that answer either (a limit counted in index candidates instead of matches would)
                tight = dict(raw, limit=max(1, len(a1)))
                t1, _o = await impl_req(st, [tight])
                for e in added:
                    try:
                        await st.add_event(dict(e))
                    except Exception:
                        pass
                await env.quiesce(st)
                a2, o2 = await impl_req(st, [raw])
                t2, _o = await impl_req(st, [tight])
                results.append((raw, [e["id"] for e in a1], [e["id"] for e in a2], added, o1, o2))
                if a1:
                    results.append((tight, [e["id"] for e in t1], [e["id"] for e in t2], added, o1, o2))
                    # ... and a limit that is not exceeded changes nothing to begin with (stored events that satisfy only the
                    # indexed condition are unrelated data as well)
                    results.append((tight, [e["id"] for e in a1], [e["id"] for e in t1], [], o1, o2))
            await close_store(st)
    env.run(go())
    rels = model_batch("kvm.rel", [{"a": a1, "b": a2} for _, a1, a2, _, _, _ in results], pid="KVM")
    for (raw, a1, a2, added, o1, o2), r in zip(results, rels):
        brief = {"filter": raw, "n_added": len(added)}
        s.case(brief, nontrivial=bool(a1) and bool(added))
        s.count("added_%d" % min(len(added), 8))
        s.count("answer_%s" % ("0" if not a1 else "n"))
        if not r["same"]:
            s.violate("c11:frame", dict(brief, added=added), "adding non-matching neighbour events changed the answer", expected=sorted(a1), observed=sorted(a2))
    return s


def refine(rng, f, evs):
    """f' with one more condition or a smaller window"""
    env = _env()
    g = {k: (list(v) if isinstance(v, list) else v) for k, v in f.items()}
    opts = []
    if "kinds" not in g:
        opts.append("kinds")
    if "authors" not in g:
        opts.append("authors")
    if "ids" not in g and evs:
        opts.append("ids")
    opts += ["tag", "since", "until", "drop_value"]
    what = rng.choice(opts)
    if what == "kinds":
        g["kinds"] = [rng.choice(QKINDS) for _ in range(rng.choice([1, 2]))]
    elif what == "authors":
        g["authors"] = [rng.choice(env.PUBS)]
    elif what == "ids":
        g["ids"] = [rng.choice(evs)["id"] for _ in range(rng.choice([1, 2]))]
    elif what == "tag":
        names = [n for n in QNAMES if "#" + n not in g]
        if names:
            n = rng.choice(names)
            pool = QVALS + [t[1] for e in evs for t in e["tags"] if len(t) > 1 and t[0] == n]
            g["#" + n] = [rng.choice(pool) for _ in range(rng.choice([1, 2]))]
    elif what == "since":
        g["since"] = max(g.get("since", 0), rng.choice(QBOUNDS))
    elif what == "until":
        g["until"] = min(g.get("until", 2000000000), rng.choice(QBOUNDS))
    else:
        multi = [k for k, v in g.items() if isinstance(v, list) and len(set(v)) > 1]
        if multi:
            k = rng.choice(multi)
            g[k] = g[k][:-1]
    return g


def suite_monotone(tier, seed):
    s = Suite("rel:kv-monotone")
    s.rule = ("C11(2): f' = f plus one condition (kinds / authors / ids / #tag), a later since, an earlier until or one value less; "
              "answer(f') must be a subset of answer(f) on the same store; Config.max_limit=%d; non-trivial = answer(f) non-empty and "
              "answer(f') a strict subset" % BIG)
    env = _env()
    rng = rng_for(seed, "kvmono")
    n_hist = 20 if tier == "quick" else 200
    per = 25 if tier == "quick" else 50
    results = []

    async def go():
        for _ in range(n_hist):
            evs = gen_history(rng, rng.choice([3, 6, 10, 16]), delegation=False)
            st, _ = await load_store(evs, max_limit=BIG)
            for _ in range(per):
                f = big_filter(rng, evs)
                g = refine(rng, f, evs)
                try:
                    qf = wire_filter(validate_filter(f))
                    validate_filter(g)
                except Exception:
                    continue
                a, _o = await impl_req(st, [f])
                b, _o = await impl_req(st, [g])
                results.append((f, g, qf, [e["id"] for e in a], [e["id"] for e in b]))
            await close_store(st)
    env.run(go())
    rels = model_batch("kvm.rel", [{"a": b, "b": a} for _, _, _, a, b in results], pid="KVM")
    refused = model_batch("kvm.oracle", [{"stored": [], "filter": qf, "answer": [], "max_limit": BIG} for _, _, qf, _, _ in results], pid="KVM")
    for (f, g, qf, a, b), r, o in zip(results, rels, refused):
        brief = {"f": f, "f_refined": g}
        s.case(brief, nontrivial=bool(a) and len(b) < len(a))
        s.count("answers_%s_%s" % ("0" if not a else "n", "0" if not b else "n"))
        if not r["subset"]:
            s.violate("kv_range_scan_refused" if o["range_scan_refused"] else "c11:monotone", brief,
                      "adding a condition / shrinking the window added results", expected=sorted(a), observed=sorted(b))
    return s


def suite_union(tier, seed):
    s = Suite("rel:kv-union")
    s.rule = ("C11(3): for a filter with a multi-valued field (ids / kinds / authors / one #tag) the answer must equal the union of the "
              "answers to the same filter with each single value; Config.max_limit=%d; non-trivial = at least two values contribute" % BIG)
    env = _env()
    rng = rng_for(seed, "kvunion")
    n_hist = 20 if tier == "quick" else 200
    per = 20 if tier == "quick" else 40
    results = []

    async def go():
        for _ in range(n_hist):
            evs = gen_history(rng, rng.choice([3, 6, 10, 16]), delegation=False)
            st, _ = await load_store(evs, max_limit=BIG)
            for _ in range(per):
                f = big_filter(rng, evs)
                multi = [k for k, v in f.items() if isinstance(v, list) and len(set(v)) > 1]
                if not multi:
                    continue
                k = rng.choice(multi)
                try:
                    validate_filter(f)
                except Exception:
                    continue
                whole, _o = await impl_req(st, [f])
                parts = []
                for v in sorted(set(f[k]), key=repr):
                    a, _o = await impl_req(st, [dict(f, **{k: [v]})])
                    parts.append([e["id"] for e in a])
                results.append((f, k, [e["id"] for e in whole], parts))
            await close_store(st)
    env.run(go())
    rels = model_batch("kvm.rel", [{"a": w, "b": [x for p in parts for x in p]} for _, _, w, parts in results], pid="KVM")
    for (f, k, w, parts), r in zip(results, rels):
        brief = {"filter": f, "field": k}
        s.case(brief, nontrivial=sum(1 for p in parts if p) >= 2)
        s.count("field_" + ("tag" if k.startswith("#") else k))
        if not r["same"]:
            s.violate("c11:union", brief, "answer to the multi-valued condition differs from the union of the single-value answers",
                      expected=sorted({x for p in parts for x in p}), observed=sorted(w))
    return s


def suite_multi_filter(tier, seed):
    s = Suite("rel:kv-multi-filter")
    s.rule = ("C02 / C12 for several filters in one REQ: REQs of 2-4 deliberately overlapping filters (a filter, the same with one field "
              "dropped or widened, each with its own limit from {1,2,3,none}) through BaseStorage.subscribe; the frames before EOSE, as a "
              "multiset of ids, must equal the concatenation of the answers to each filter sent alone (each filter is served under its own limit, "
              "an event matching k filters arrives between one and k times and at least once if any filter alone delivers it); non-trivial = two "
              "filters deliver a common event and some filter is truncated by its limit")
    env = _env()
    rng = rng_for(seed, "kvmultifilter")
    n_hist = 12 if tier == "quick" else 150
    per = 12 if tier == "quick" else 30
    results = []

    def widen(f):
        g = dict(f)
        ks = [k for k in g if k != "limit"]
        if len(ks) > 1 and rng.random() < 0.7:
            g.pop(rng.choice(ks))
        elif "kinds" in g:
            g["kinds"] = sorted(set(g["kinds"]) | {1, 7})
        g.pop("limit", None)
        lim = rng.choice([0, 1, 2, 3, None, None])
        if lim is not None:
            g["limit"] = lim
        return g

    async def go():
        for _ in range(n_hist):
            evs = gen_history(rng, rng.choice([4, 8, 12, 20]), delegation=False)
            st, _ = await load_store(evs, max_limit=BIG)
            for _ in range(per):
                f = gen_filter(rng, evs, limits=False)
                f.pop("limit", None)
                fs = [widen(f) for _ in range(rng.randint(2, 4))]
                ok = []
                for g in fs:
                    try:
                        validate_filter(g)
                        ok.append(g)
                    except Exception:
                        pass
                if len(ok) < 2:
                    continue
                whole, _o = await impl_req(st, ok)
                parts = []
                for g in ok:
                    a, _o = await impl_req(st, [g])
                    parts.append([e["id"] for e in a])
                results.append((ok, [e["id"] for e in whole], parts, evs))
            await close_store(st)
    env.run(go())
    for fs, w, parts, evs in results:
        brief = {"filters": fs}
        common = set(parts[0]).intersection(*[set(p) for p in parts[1:]]) if parts else set()
        trunc = any("limit" in g and len(p) == g["limit"] for g, p in zip(fs, parts))
        s.case(brief, nontrivial=bool(common) and trunc)
        s.count("filters_%d" % len(fs))
        s.count("overlap" if common else "disjoint")
        s.count("truncated" if trunc else "complete")
        if sorted(w) != sorted(x for p in parts for x in p):
            missing = sorted({x for p in parts for x in p} - set(w))
            s.violate("kv_multi_filter_req_differs", dict(brief, history=evs),
                      "the answer to a REQ with several filters is not the concatenation of the answers to its filters"
                      + (" (%d events delivered for a filter alone are missing)" % len(missing) if missing else ""),
                      expected=[sorted(p) for p in parts], observed=sorted(w))
    return s


# ---- C10: "an event is found - or, once removed, not found - identically through every access path" ----------------------
def suite_access_paths(tier, seed, backend="kv"):
    s = Suite("oracle:%s-every-access-path" % backend)
    s.rule = ("stores built through the real write path (5-16 events of regular, replaceable and parameterized kinds, then replacements, kind-5 "
              "deletions and delete_event removals); every event ever acknowledged is then looked up through every access path the relay offers "
              "- get_event, ids, kinds, authors, author+kind (also among 260 other authors x 2 kinds), every indexable tag (alone, and listed with "
              "decoy values of other lengths before and after it), the created_at window: an event whose primary record exists must be found through "
              "ALL of them, a removed one through NONE; non-trivial = some events were removed and some kept")
    env = _env()
    rng = rng_for(seed, "kvpaths")
    import hashlib
    decoys = [hashlib.sha256(b"decoy-%d" % i).hexdigest() for i in range(260)]

    async def one(n):
        evs = gen_history(rng, n, delegation=False)
        if backend == "kv":
            st, _ = await load_store(evs, max_limit=BIG)
            sc = None
        else:
            env.load_config(max_limit=BIG)
            env.patch_clock()
            sc = env.Scratch()
            st = await env.sql_storage(sc)
            for e in evs:
                try:
                    await st.add_event(dict(e))
                except Exception:
                    pass
        for e in evs:
            await st.get_event(e["id"])             # (a look-up before anything is removed: what it saw must not be served later)
        more = []
        for k in range(2):
            # stored events whose NIP-40 expiration has already passed stay stored - and found through every path - until a collector pass
            more.append(grind_event(k, 1, 1005 + k, [["expiration", str(900 + k)], ["t", "ab"]], None))
        for k in range(rng.randint(2, 5)):
            base = rng.choice(evs)
            who = env.PUBS.index(base["pubkey"])
            r = rng.random()
            if r < 0.4:
                more.append(grind_event(who, rng.choice([10002, 30000]), 1000 + k, [["d", "x"], ["t", "ab"]], None))
                more.append(grind_event(who, more[-1]["kind"], 1500 + k, [["d", "x"]], None))
            elif r < 0.8:
                more.append(grind_event(who, 5, 2001, [["e", base["id"]]], None))
            else:
                await st.delete_event(base["id"])
        for e in more:
            try:
                await st.add_event(dict(e))
            except Exception:
                pass
        await env.quiesce(st)
        have = set(await env.stored_ids(st))
        out = []
        for e in evs + more:
            paths = {"ids": {"ids": [e["id"]]}, "ids+decoy": {"ids": [decoys[0], e["id"], decoys[1]]}, "kinds": {"kinds": [e["kind"]]},
                     "authors": {"authors": [e["pubkey"]]}, "author+kind": {"authors": [e["pubkey"]], "kinds": [e["kind"]]},
                     "author+kind/many": {"authors": decoys[:130] + [e["pubkey"]] + decoys[130:], "kinds": [e["kind"], e["kind"] + 1]},
                     # ... and when the author sorts before / after all the others, whichever way the planner orders its pairs
                     "author+kind/many-above": {"authors": ["ff" + x[2:] for x in decoys] + [e["pubkey"]], "kinds": [e["kind"] + 1, e["kind"]]},
                     "author+kind/many-below": {"authors": [e["pubkey"]] + ["00" + x[2:] for x in decoys], "kinds": [e["kind"], e["kind"] + 1]},
                     # (strictly inside the window: the backends differ on whether `until` itself is included)
                     "created_at": {"since": max(1, e["created_at"] - 1), "until": e["created_at"] + 1, "kinds": [e["kind"]]}}
            for tg in e["tags"]:
                if backend == "sql" and len(tg) > 1 and isinstance(tg[1], str) and "\x00" in tg[1]:
                    continue            # open finding sql_value_contains_nul (reported by the C02 check under its own classifier)
                if len(tg) > 1 and isinstance(tg[0], str) and len(tg[0]) == 1 and isinstance(tg[1], str) and len(tg[1].encode()) < 200:
                    paths["#%s=%r" % (tg[0], tg[1][:12])] = {"#" + tg[0]: [tg[1]]}
                    paths["#%s=%r/listed" % (tg[0], tg[1][:12])] = {"#" + tg[0]: ["zz-decoy-value", tg[1], tg[1] + "-longer-decoy", "q"]}
            found = {}
            g = await st.get_event(e["id"])
            found["get_event"] = g is not None
            for name, f in paths.items():
                try:
                    validate_filter(dict(f, limit=BIG))
                except Exception:
                    continue
                got, oc = await impl_req(st, [dict(f, limit=BIG)])
                found[name] = e["id"] in {x["id"] for x in got}
            out.append((e, e["id"] in have, found))
        if backend == "kv":
            await close_store(st)
        else:
            await env.close(st)
            sc.close()
        return out
    for _ in range(4 if tier == "quick" else 40):
        res = env.run(one(rng.choice([5, 9, 16])))
        kept = sum(1 for _, h, _ in res if h)
        for e, h, found in res:
            case = {"event": {"id": e["id"], "kind": e["kind"], "tags": e["tags"], "created_at": e["created_at"]}, "stored": h}
            s.case({"id": e["id"][:8], "stored": h}, nontrivial=0 < kept < len(res))
            s.count("stored" if h else "removed")
            s.count("paths", len(found))
            wrong = sorted(k for k, v in found.items() if v != h)
            if wrong:
                s.violate("%s_access_paths_disagree" % backend, dict(case, paths=found),
                          "an event whose record %s is %s through: %s" % ("exists" if h else "is gone", "NOT found" if h else "still found", ", ".join(wrong)),
                          expected=h, observed=found)
    return s


# ---- C01: hostile filter contents ---------------------------------------------
HOSTILE = ["'", "''", "\\", "\\'", '"', "%", "_", "--", "/*", ";", ")", "\x00", "\n", "‮", "é", "\U0001F600", "{", "}", "{0}",
           "!r", "{value!r}", "__import__('os').system('x')", "' OR 1=1)) --", "1" * 70, "')]) or True or bool([('", "\\x00", "%s", "\ud800",
           "et[1]", "',) or True or ('"]
HOSTILE_NAMES = ["'", "\\", '"', "\x00", "é", "\U0001F600", "{", "%", ")", "t"]


def suite_hostile(tier, seed):
    s = Suite("oracle:kv-hostile")
    s.rule = ("C01 filters-are-data: ~30 metacharacter strings (quotes, backslash, NUL, braces, !r, __import__, repr-breakers, lone "
              "surrogate, RTL / combining / 4-byte code points, 70 digits) as tag value, tag name (1 char), id, author, kind, since, "
              "until, limit, unknown key, alone and in pairs with list shapes [], [x], [x,x], [x,y], on stores whose events carry the same "
              "strings as tag values; holds_C01 on every answer; the model's answer must agree; non-trivial = non-empty answer")
    env = _env()
    rng = rng_for(seed, "kvhostile")
    raws = []
    for h in HOSTILE:
        for shape in ([h], [h, h], [h, "ab"], []):
            raws.append({"#t": shape, "limit": BIG})
        raws.append({"ids": [h]})
        raws.append({"authors": [h]})
        raws.append({"kinds": [h]})
        raws.append({"since": h})
        raws.append({"until": h, "kinds": [1]})
        raws.append({"limit": h, "kinds": [1]})
        raws.append({h: [h], "kinds": [1]})
        raws.append({"#t": [h], "tags": [[h, [h]]], "kinds": [1]})
        raws.append({"#t": h})
    for nm in HOSTILE_NAMES:
        for h in rng.sample(HOSTILE, 6 if tier == "quick" else len(HOSTILE)):
            raws.append({"#" + nm: [h], "limit": BIG})
            raws.append({"#" + nm: [h, "ab"], "#t": ["ab"], "limit": BIG})
    if tier != "quick":
        for a in HOSTILE:
            for b in HOSTILE:
                raws.append({"#t": [a, b], "limit": BIG})
    events = []
    for i, h in enumerate(HOSTILE):
        try:
            h.encode("utf-8")
        except UnicodeEncodeError:
            continue
        events.append(env.mk_event(i % 4, 1, 1000 + i % 3, [["t", h]], ""))
        events.append(env.mk_event((i + 1) % 4, 7, 1001, [[HOSTILE_NAMES[i % len(HOSTILE_NAMES)], h], ["t", "ab"]], ""))
    cases = []

    async def go():
        st, _ = await load_store(events, max_limit=BIG)
        db, stored = decode_dump((await env.dump(st))["kv"])
        for raw in raws:
            ans, outcome = await impl_req(st, [raw])
            try:
                q = wire_filter(validate_filter(raw))
            except Exception:
                q = None
            cases.append((raw, q, ans, outcome))
        await close_store(st)
        return db, stored
    db, stored = env.run(go())
    valid = [(raw, q, ans) for raw, q, ans, _ in cases if q is not None]
    outs = model_batch("kvm.oracle", [{"stored": stored, "filter": q, "answer": ans, "max_limit": BIG} for _, q, ans in valid], pid="KVM")
    mouts = model_reqs(db, [[q] for _, q, _ in valid], BIG)
    k = 0
    for raw, q, ans, outcome in cases:
        brief = {"filter": raw, "n_answer": len(ans)}
        s.case(brief, nontrivial=bool(ans))
        s.count("valid" if q is not None else "invalid")
        if outcome != "eose" and not (q is None and outcome.startswith("error:")):
            s.disagree(brief, "eose", outcome)
        if q is None:
            if outcome != "eose":
                s.count("invalid_filter_" + outcome)     # e.g. a lone surrogate makes pydantic raise UnicodeEncodeError (base.py / C19)
            if ans:
                s.violate("c01:unsound", brief, "an invalid filter was answered with events", expected=[], observed=[e["id"] for e in ans])
            continue
        o, mo = outs[k], mouts[k]
        k += 1
        if not o["c01"]:
            s.violate("c01:unsound", dict(brief, stored=stored), "holds_C01 is false on the implementation's answer", observed=[e["id"] for e in ans])
        mids = [x for p in mo for x in p["ids"]]
        if sorted(mids) != sorted(e["id"] for e in ans):
            s.disagree(brief, mids, [e["id"] for e in ans])
    return s


# ---- per-property entry points (used by harness/props/c01.py ... of the coordinator) --------------------------------------
def suites_c01(tier, seed):
    return [suite_corpus(tier, seed, only=("C01",)), suite_hostile(tier, seed), suite_oracle(tier, seed, props=("c01",), name="oracle:kv-c01", label="kvc01"),
            suite_answer(tier, seed)]


def suites_c02(tier, seed):
    return [suite_corpus(tier, seed, only=("C02",)), suite_scan(tier, seed), suite_multi(tier, seed), suite_plan(tier, seed), suite_answer(tier, seed),
            suite_oracle(tier, seed, props=("c02",), name="oracle:kv-c02", label="kvc02"), suite_multi_filter(tier, seed),
            suite_access_paths(tier, seed, "kv"), suite_access_paths(tier, seed, "sql")]


def suites_c11(tier, seed):
    return [suite_frame(tier, seed), suite_monotone(tier, seed), suite_union(tier, seed), suite_access_paths(tier, seed, "kv"), suite_access_paths(tier, seed, "sql")]


def suite_limit_not_exceeded(tier, seed):
    s = Suite("rel:kv-limit-not-exceeded")
    s.rule = ("C12 last sentence: a limit larger than (or equal to) the number of matching events truncates nothing. For generated filters "
              "(ids / kinds / authors / tags / windows and their conjunctions) the answer under Config.max_limit=%d is taken first; the same "
              "filter with limit = that number, +1 and +3 must return the same set; non-trivial = the filter has several conditions and a "
              "non-empty answer" % BIG)
    env = _env()
    rng = rng_for(seed, "kvlimne")
    results = []

    async def go():
        for _ in range(15 if tier == "quick" else 150):
            evs = gen_history(rng, rng.choice([5, 9, 14]), delegation=False)
            st, _ = await load_store(evs, max_limit=BIG)
            for _ in range(10):
                raw = big_filter(rng, evs)
                try:
                    validate_filter(raw)
                except Exception:
                    continue
                a, _o = await impl_req(st, [raw])
                if not a:
                    continue
                for extra in (0, 1, 3):
                    b, _o = await impl_req(st, [dict(raw, limit=len(a) + extra)])
                    results.append((raw, len(a) + extra, [e["id"] for e in a], [e["id"] for e in b]))
            await close_store(st)
    env.run(go())
    for raw, lim, a, b in results:
        conds = [k for k in raw if k != "limit"]
        s.case({"filter": raw, "limit": lim}, nontrivial=len(conds) > 1)
        s.count("conds_%d" % min(len(conds), 4))
        if sorted(a) != sorted(b):
            s.violate("limit-cap-or-newest", {"filter": raw, "limit": lim, "matching": len(a)},
                      "a limit of %d truncated an answer of %d matching events to %d" % (lim, len(a), len(b)), expected=sorted(a), observed=sorted(b))
    return s


def suites_c12(tier, seed):
    return [suite_corpus(tier, seed, only=("C12",)), suite_oracle(tier, seed, props=("c12",), name="oracle:kv-c12", label="kvc12"),
            suite_multi_filter(tier, seed), suite_limit_not_exceeded(tier, seed)]


# ---- corpus: minimised witnesses of the defects found (fixed ones must pass, open ones are reported under their class) -----
def corpus():
    env = _env()
    ev = env.mk_event
    deleg = ev(1, 1, 1001, [delegation_tag(0, 1)], "delegated")
    k6 = [ev(0, 6, 1010 + i, [], "six%d" % i) for i in range(3)]
    k7 = [ev(1, 7, 1000 + i, [], "seven%d" % i) for i in range(3)]
    plain = [ev(0, 1, 1000, [["t", "ab"]], "a"), ev(1, 7, 1001, [], "b")]
    many = [ev(i % 4, 1, 1000 + i, [], "m%d" % i) for i in range(8)]
    return [
        # (name, property, expected class or None when repaired, events, filter)
        ("limit-above-max_limit", "C12", None, many, {"kinds": [1], "limit": MAX_LIMIT + 1}),
        ("limit-null", "C12", None, many, {"kinds": [1], "limit": None}),
        ("since-zero", "C02", None, plain, {"since": 0, "kinds": [1]}),
        ("until-zero", "C01", None, plain, {"until": 0, "kinds": [1]}),
        ("kind-out-of-range", "C02", None, plain, {"kinds": [1, 4294967296]}),
        ("kind-negative", "C02", None, plain, {"kinds": [-1, 7]}),
        ("delegator", "C02", "delegator_only_match", [deleg] + plain, {"authors": [env.PUBS[0]], "kinds": [1]}),
        ("multi-value-limit", "C12", "kv_multi_match_truncated", k6 + k7, {"kinds": [6, 7], "limit": 3}),
        ("no-condition", "C02", "kv_range_scan_refused", plain, {}),
        ("limit-only", "C02", "kv_range_scan_refused", plain, {"limit": 3}),
        ("since-zero-only", "C02", "kv_range_scan_refused", plain, {"since": 0}),
    ]


def run_case(events, raw, max_limit=MAX_LIMIT):
    """load, query through the websocket path, evaluate the executable statements -> (oracle dict, answer, stored)"""
    env = _env()

    async def go():
        st, _ = await load_store(events, max_limit=max_limit)
        db, stored = decode_dump((await env.dump(st))["kv"])
        ans, outcome = await impl_req(st, [raw])
        await close_store(st)
        return stored, ans, outcome
    stored, ans, outcome = env.run(go())
    q = wire_filter(validate_filter(raw))
    o = model_batch("kvm.oracle", [{"stored": stored, "filter": q, "answer": ans, "max_limit": max_limit}], pid="KVM")[0]
    return o, ans, stored, q


def suite_corpus(tier, seed, only=None):
    s = Suite("corpus:kv")
    s.rule = "minimised witnesses of the defects found on the LMDB query path: repaired ones must satisfy C01/C02/C12, open ones are reported under their classifier"
    for name, prop, cls, events, raw in corpus():
        if only and prop not in only:
            continue
        o, ans, stored, q = run_case(events, raw)
        brief = {"name": name, "filter": raw, "n_stored": len(stored), "n_answer": len(ans)}
        s.case(brief)
        s.count("open" if cls else "repaired")
        lim = q["limit"]
        eff = MAX_LIMIT if lim is None else min(lim, MAX_LIMIT)
        bad = [p for p in ("c01", "c02", "c12") if not o[p]]
        for p in bad:
            s.violate(classify(p, o, len(ans), eff), dict(brief, stored=stored, events=events, prop=p), "corpus case %s: holds_%s is false" % (name, p.upper()),
                      expected="n_may=%d n_must=%d eff_limit=%d" % (o["n_may"], o["n_must"], eff), observed=[e["id"] for e in ans])
    return s


def replay(payload):
    """./check Cxx --replay: re-run a recorded violation of a kv suite on the implementation"""
    v = payload.get("violation", payload)
    c = v["case"]
    if "events" in c or "stored" in c:
        events = c.get("events") or c["stored"]
        raw = c.get("filter")
        mx = BIG if (isinstance(raw, dict) and raw.get("limit") == BIG) else MAX_LIMIT
        if "added" in c:
            print("replay of a frame case: base store + added neighbours")
            events = events + c["added"]
        o, ans, stored, q = run_case(events, raw, mx)
        bad = [p for p in ("c01", "c02", "c12") if not o[p]]
        print("answer ids:", [e["id"][:8] for e in ans], "n_may", o["n_may"], "n_must", o["n_must"], "failing:", bad)
        print("replay:", "FAIL" if bad else "pass")
        return 1 if bad else 0
    if "history" in c and "filters" in c:
        env = _env()

        async def go():
            st, _ = await load_store(c["history"], max_limit=BIG)
            whole, _o = await impl_req(st, c["filters"])
            parts = [[e["id"] for e in (await impl_req(st, [g]))[0]] for g in c["filters"]]
            await close_store(st)
            return [e["id"] for e in whole], parts
        w, parts = env.run(go())
        bad = sorted(w) != sorted(x for p in parts for x in p)
        print("REQ with all filters:", [x[:8] for x in w])
        for g, p in zip(c["filters"], parts):
            print("  alone", g, "->", [x[:8] for x in p])
        print("replay:", "FAIL" if bad else "pass")
        return 1 if bad else 0
    print("replay: case carries no store; re-run the suite with the recorded seed")
    return 0
