"""LMDB backend: implementation drivers and correspondence suites shared by the
per-property checks (scanner level here; write / query level are added by their owners)."""
import itertools

from .common import Suite, model_batch, rng_for


def _fake_event(idhex, pubkey, created_at, kind, tags):
    from aionostr.event import Event
    return Event(id=idhex, pubkey=pubkey, created_at=created_at, kind=kind, tags=tags, content="", sig="00" * 64)


def build_keyspace(events):
    """Write the given synthetic events through the REAL Index.write of every index onto a fresh
    shim environment; returns (env, sorted key list)."""
    import lmdb
    from nostr_relay.storage import kv
    path = "scan-%d" % id(events)
    lmdb.wipe(path)
    env = lmdb.open(path)
    with env.begin(write=True) as txn:
        txn.put(b"\xee", b"")
        for ev in events:
            e = _fake_event(*ev)
            for name, index in kv.INDEXES.items():
                if name == "search":
                    continue
                index.write(e, txn)
    return env, [k for k, _ in env.dump()]


def impl_scan(env, index, matches, since, until, events=None):
    from nostr_relay.storage import kv
    try:
        with env.begin(buffers=True) as txn:
            kw = {}
            if events is not None:
                kw["events"] = set(events)
            with kv.INDEXES[index].scanner(txn, [tuple(m) if isinstance(m, list) else m for m in matches],
                                           since=since, until=until, **kw) as sc:
                return {"res": "ok", "ids": [bytes(x) for x in sc]}
    except Exception:
        return {"res": "raise", "ids": []}


def impl_multi(env, stages, since, until):
    from nostr_relay.storage import kv
    mi = kv.MultiIndex()
    for st in stages:
        mi.add(st["index"], [tuple(m) if isinstance(m, list) else m for m in st["matches"]])
    try:
        with env.begin(buffers=True) as txn:
            with mi.scanner(txn, [m for _, m in mi.indexes], since=since, until=until) as sc:
                return {"res": "ok", "ids": sorted(bytes(x) for x in sc)}
    except Exception:
        return {"res": "raise", "ids": []}


# ---- universes -------------------------------------------------------------
def mkid(first, n):
    return bytes([first]) .hex() + ("%062x" % n)


PKS = ["aa" * 32, "aa" * 31 + "ab", "ff" * 32]
TS = [99, 100, 101, 199, 200, 201]
KINDS = [1, 2, 256, 257, 65536]
TAGVALS = ["ab", "abc", "ab\x00", "a", "", "b"]
TAGNAMES = ["t", "e", "expiration"]


def gen_events(rng, n):
    evs = []
    for i in range(n):
        tags = []
        for _ in range(rng.choice([0, 1, 1, 2, 3])):
            tags.append([rng.choice(TAGNAMES), rng.choice(TAGVALS)])
        evs.append((mkid(rng.choice([0x00, 0x7F, 0xFF, 0x10]), rng.randrange(1 << 24)), rng.choice(PKS), rng.choice(TS),
                    rng.choice(KINDS), tags))
    return evs


def gen_query(rng, evs):
    index = rng.choice(["ids", "created_at", "kinds", "authors", "authorkinds", "tags"])
    k = rng.choice([1, 1, 2, 3])
    if index == "ids":
        pool = [e[0] for e in evs] + [mkid(0xFF, 1), mkid(0, 0)]
        matches = rng.sample(pool, min(k, len(pool)))
    elif index == "created_at":
        matches = []
    elif index == "kinds":
        pool = [e[3] for e in evs] * 3 + KINDS + [0, 3, 4294967295, 4294967296, -1]
        matches = list(dict.fromkeys(rng.choice(pool) for _ in range(k)))
    elif index == "authors":
        pool = [e[1] for e in evs] * 3 + PKS + ["00" * 32]
        matches = list(dict.fromkeys(rng.choice(pool) for _ in range(k)))
    elif index == "authorkinds":
        pool = [[e[1], e[3]] for e in evs] * 3 + [[rng.choice(PKS), rng.choice(KINDS)]]
        matches = [rng.choice(pool) for _ in range(k)]
    else:
        pool = [t for e in evs for t in e[4]] * 3 + [[rng.choice(TAGNAMES), rng.choice(TAGVALS + ["\ud800", "é"])]]
        matches = [rng.choice(pool) for _ in range(k)]
    if rng.random() < 0.85 and index != "created_at":
        # what every caller does (sort_fields / planner): deduplicate and sort descending
        matches = [list(m) if isinstance(m, tuple) else m
                   for m in sorted({tuple(m) if isinstance(m, list) else m for m in matches}, reverse=True)]
    since = rng.choice([None, None, None, None, 0, 99, 100, 101, 150, 200, 201, 300])
    until = rng.choice([None, None, None, None, 0, 99, 100, 101, 150, 200, 201, 300, 4294967295])
    return index, matches, since, until


def suite_scan(tier, seed):
    s = Suite("corr:kv-scan")
    s.rule = ("keyspaces written by the real Index.write for 0-14 synthetic events (ids starting 00/10/7f/ff, timestamps around 100/200, "
              "kinds around byte boundaries, tag values prefixing one another, NUL, empty) x queries per index class with 0-3 matches, "
              "since/until around the stored timestamps; Index.scanner driven directly on a shim transaction vs KVM.Scan.index_scanner; "
              "non-trivial = non-empty answer that is a strict subset of the ids in that index")
    rng = rng_for(seed, "kvscan")
    n_spaces = 60 if tier == "quick" else 600
    per = 40 if tier == "quick" else 120
    cases, impls = [], []
    for _ in range(n_spaces):
        evs = gen_events(rng, rng.choice([0, 1, 2, 3, 5, 8, 14]))
        env, keys = build_keyspace(evs)
        allids = sorted({bytes.fromhex(e[0]) for e in evs})
        for _ in range(per):
            index, matches, since, until = gen_query(rng, evs)
            events = None
            if rng.random() < 0.15 and allids and index != "created_at":
                events = rng.sample(allids, rng.randint(1, len(allids)))
            impls.append(impl_scan(env, index, matches, since, until, events))
            cases.append({"keys": keys, "index": index, "matches": matches, "since": since, "until": until, "events": events,
                          "_n": len(allids)})
    outs = model_batch("kvm.scan", [{k: v for k, v in c.items() if k != "_n"} for c in cases], pid="KVM")
    specs = model_batch("kvm.scanspec", [{k: v for k, v in c.items() if k != "_n"} for c in cases], pid="KVM")
    for c, mo, io, sp in zip(cases, outs, impls, specs):
        nt = io["res"] == "ok" and 0 < len(io["ids"]) < c["_n"]
        brief = {k: c[k] for k in ("index", "matches", "since", "until", "events")}
        brief["n_keys"] = len(c["keys"])
        s.case(brief, nontrivial=nt)
        s.count("index_" + c["index"])
        s.count("res_" + io["res"])
        s.count("answers_%s" % ("0" if not io["ids"] else ("1" if len(io["ids"]) == 1 else "n")))
        if mo != io:
            s.disagree(dict(brief, keys=c["keys"]), mo, io)
        # executable statement at scanner level: exactly the entries of the requested blocks inside [since, until]
        degenerate = c["index"] != "created_at" and sp["res"] == "ok" and not sp["ids"] and not _any_key(c)
        canon = [tuple(m) if isinstance(m, list) else m for m in c["matches"]]
        sorted_desc = all(a > b for a, b in zip(canon, canon[1:]))
        if sorted_desc and not degenerate and (sp["res"], sorted(sp["ids"])) != (io["res"], sorted(io["ids"])):
            s.violate(scan_class(c, sp, io), dict(brief, keys=c["keys"]), "Index.scanner does not yield exactly the requested index entries",
                      expected=sorted(sp["ids"]), observed=sorted(io["ids"]))
    return s


def _any_key(c):
    """does at least one match value convert to a key (otherwise the scanner falls into its range branch)"""
    from nostr_relay.storage import kv
    for m in c["matches"]:
        try:
            kv.INDEXES[c["index"]].to_key(tuple(m) if isinstance(m, list) else m)
            return True
        except ValueError:
            pass
        except OverflowError:
            return True
    return c["index"] == "created_at"


def scan_class(c, sp, io):
    missing = len(set(sp["ids"]) - set(io["ids"]))
    extra = len(io["ids"]) - len(set(io["ids"]) & set(sp["ids"]))
    return "scan:%s:%s%s%s" % (c["index"], "since" if c["since"] is not None else "", "until" if c["until"] is not None else "",
                                 ":missing" if missing else (":extra" if extra else ":dup"))


def suite_multi(tier, seed):
    s = Suite("corr:kv-multi")
    s.rule = "MultiIndex.scanner with 2-3 stages (kinds/authors/authorkinds/tags) on the same keyspaces; answers compared as sets"
    rng = rng_for(seed, "kvmulti")
    cases, impls = [], []
    for _ in range(40 if tier == "quick" else 400):
        evs = gen_events(rng, rng.choice([2, 3, 5, 8, 14]))
        env, keys = build_keyspace(evs)
        for _ in range(20):
            stages = []
            for ix in rng.sample(["kinds", "authors", "authorkinds", "tags"], rng.choice([2, 2, 3])):
                _, m, _, _ = gen_query(rng, evs) if False else (None, None, None, None)
                q = None
                while q is None or q[0] != ix:
                    q = gen_query(rng, evs)
                stages.append({"index": ix, "matches": q[1]})
            since = rng.choice([None, None, 100, 150, 200])
            until = rng.choice([None, None, 100, 150, 200, 300])
            impls.append(impl_multi(env, stages, since, until))
            cases.append({"keys": keys, "stages": stages, "since": since, "until": until})
    outs = model_batch("kvm.multi", cases, pid="KVM")
    for c, mo, io in zip(cases, outs, impls):
        mo = dict(mo, ids=sorted(mo["ids"]))
        brief = {k: c[k] for k in ("stages", "since", "until")}
        s.case(brief, nontrivial=bool(io["ids"]))
        s.count("stages_%d" % len(c["stages"]))
        s.count("res_" + io["res"])
        if mo != io:
            s.disagree(dict(brief, keys=c["keys"]), mo, io)
    return s
