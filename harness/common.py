"""Shared machinery of the checks: wire format, extracted-model client, Coq
build / proof-obligation accounting, evidence, known findings, replays and the
decision procedure of DESIGN.md section 2.2."""
import fcntl
import hashlib
import json
import os
import random
import re
import subprocess
import sys
import time

VERIF = os.path.dirname(os.path.dirname(os.path.abspath(__file__)))
REPO = os.environ.get("VERIF_REPO", "/repo")
COQ = os.path.join(VERIF, "coq")
BUILD = os.path.join(VERIF, "build")
MODELD = os.path.join(BUILD, "modeld")
EVIDENCE = os.path.join(VERIF, "evidence")
REPLAYS = os.path.join(VERIF, "replays")
FINDINGS_FILE = os.path.join(VERIF, "KNOWN_FINDINGS.txt")
AXIOM_WHITELIST = ()  # the development is intended to be closed under the global context

TRUSTED_BASE = [
    "Coq 8.16.1 kernel incl. vm_compute (no native_compute, no -type-in-type, no guard/positivity/universe switches)",
    "axioms: none declared by the development; Print Assumptions output per theorem is recorded below",
    "extraction: ExtrOcamlBasic only (Extract Inductive bool/option/unit/list/prod/sumbool/sumor), no Extract Constant, N/Z/positive stay Coq datatypes; OCaml 4.13.1; tools/modeld/driver.ml",
    "translator tools/pyfrag.py (Python ast -> Gallina, fail-closed subset)",
    "correspondence harness /verif/harness (generators, canonicalisation, injected clock, shims/lmdb.py stand-in for py-lmdb, pip-vendored msgpack)",
]


# ----------------------------------------------------------------------------- wire
class PyFloat:
    """A float travelling through the wire as its repr (never interpreted by the model)."""

    def __init__(self, r):
        self.r = r

    def __eq__(self, o):
        return isinstance(o, PyFloat) and o.r == self.r

    def __repr__(self):
        return "PyFloat(%s)" % self.r


def _cps(s):
    return ".".join("%x" % ord(c) for c in s)


def enc(v, out=None):
    top = out is None
    if top:
        out = []
    if v is None:
        out.append("n")
    elif v is True:
        out.append("t")
    elif v is False:
        out.append("f")
    elif isinstance(v, int):
        out.append("i%d" % v)
    elif isinstance(v, str):
        out.append("s" + _cps(v))
    elif isinstance(v, (bytes, bytearray, memoryview)):
        out.append("b" + ".".join("%x" % b for b in bytes(v)))
    elif isinstance(v, float):
        out.append("d" + _cps(repr(v)))
    elif isinstance(v, PyFloat):
        out.append("d" + _cps(v.r))
    elif isinstance(v, (list, tuple)):
        out.append("a%d" % len(v))
        for x in v:
            enc(x, out)
    elif isinstance(v, (set, frozenset)):
        l = sorted(v, key=repr)
        out.append("a%d" % len(l))
        for x in l:
            enc(x, out)
    elif isinstance(v, dict):
        out.append("o%d" % len(v))
        for k, x in v.items():
            enc(str(k), out)
            enc(x, out)
    else:
        raise TypeError("cannot encode %r" % (v,))
    if top:
        return " ".join(out)


def _dec(toks, i):
    t = toks[i]
    c, body = t[0], t[1:]
    i += 1
    if c == "n":
        return None, i
    if c == "t":
        return True, i
    if c == "f":
        return False, i
    if c == "i":
        return int(body), i
    if c == "s":
        return ("".join(chr(int(h, 16)) for h in body.split(".")) if body else ""), i
    if c == "b":
        return (bytes(int(h, 16) for h in body.split(".")) if body else b""), i
    if c == "d":
        return PyFloat("".join(chr(int(h, 16)) for h in body.split(".")) if body else ""), i
    if c == "a":
        l = []
        for _ in range(int(body)):
            x, i = _dec(toks, i)
            l.append(x)
        return l, i
    if c == "o":
        d = {}
        for _ in range(int(body)):
            k, i = _dec(toks, i)
            x, i = _dec(toks, i)
            d[k] = x
        return d, i
    raise ValueError("bad token %r" % t)


def dec(line):
    v, _ = _dec(line.split(), 0)
    return v


def modeld_path(pid):
    return os.path.join(BUILD, pid, "modeld")


PID_ALIAS = {}   # a property check sets e.g. {"SQLM": "C09", "KVW": "C09"}: use its own freshly built driver


def model_batch(suite, cases, pid=None):
    """Run the extracted model of property `pid` (default: derived from the suite name
    'c18.xyz' -> C18) on a list of case values; returns the list of outputs."""
    if not cases:
        return []
    pid = pid or suite.split(".")[0].upper()
    pid = PID_ALIAS.get(pid, pid)
    data = "\n".join(suite + " " + enc(c) for c in cases) + "\n"
    def _big_stack():
        import resource
        try:
            resource.setrlimit(resource.RLIMIT_STACK, (resource.RLIM_INFINITY, resource.RLIM_INFINITY))
        except Exception:
            pass
    p = subprocess.run([modeld_path(pid)], input=data.encode(), stdout=subprocess.PIPE, stderr=subprocess.PIPE, timeout=3600,
                       preexec_fn=_big_stack)
    if p.returncode != 0:
        raise RuntimeError("modeld failed: %s" % p.stderr.decode()[-2000:])
    lines = p.stdout.decode().splitlines()
    if len(lines) != len(cases):
        raise RuntimeError("modeld returned %d lines for %d cases" % (len(lines), len(cases)))
    return [dec(l) for l in lines]


# ----------------------------------------------------------------------------- build
class BuildLock:
    def __enter__(self):
        os.makedirs(BUILD, exist_ok=True)
        self.f = open(os.path.join(BUILD, ".lock"), "w")
        fcntl.flock(self.f, fcntl.LOCK_EX)
        return self

    def __exit__(self, *a):
        fcntl.flock(self.f, fcntl.LOCK_UN)
        self.f.close()


def sh(cmd, cwd=None, timeout=1800, env=None):
    p = subprocess.run(cmd, shell=True, cwd=cwd, stdout=subprocess.PIPE, stderr=subprocess.STDOUT, timeout=timeout, env=env)
    return p.returncode, p.stdout.decode(errors="replace")


HYGIENE_RE = re.compile(
    r"\b(Admitted|admit|Axiom|Axioms|Parameter|Parameters|Conjecture|Abort All|Unset Guard|Unset Positivity|Unset Universe|bypass_check|type-in-type|impredicative-set|Admit Obligations|native_compute)\b"
)


def strip_coq_comments(src):
    out, depth, i = [], 0, 0
    while i < len(src):
        if src.startswith("(*", i):
            depth += 1
            i += 2
        elif src.startswith("*)", i) and depth:
            depth -= 1
            i += 2
        else:
            if not depth:
                out.append(src[i])
            i += 1
    return "".join(out)


def hygiene(only=None):
    """grep gate over the development (restricted to the files in `only`, relative to coq/, when
    given: the proof closure of one property); returns list of offending 'file:word'."""
    bad = []
    for root, _, files in os.walk(COQ):
        for f in files:
            if f.endswith(".v"):
                p = os.path.join(root, f)
                if only is not None and os.path.relpath(p, COQ) not in only:
                    continue
                src = strip_coq_comments(open(p).read())
                for m in HYGIENE_RE.finditer(src):
                    bad.append("%s:%s" % (os.path.relpath(p, COQ), m.group(1)))
                # Variable/Hypothesis outside a section
                depth = 0
                for line in src.splitlines():
                    s = line.strip()
                    if re.match(r"Section\s", s):
                        depth += 1
                    elif re.match(r"End\s", s) and depth:
                        depth -= 1
                    elif re.match(r"(Variable|Variables|Hypothesis|Hypotheses|Context)\b", s) and depth == 0:
                        bad.append("%s:%s-outside-section" % (os.path.relpath(p, COQ), s.split()[0]))
    return bad


def regenerate():
    """Re-run the translator and the dispatch generator against /repo's working tree.
    Returns list of (target, error) for translation failures (fail-closed)."""
    rc, out = sh("%s %s/tools/pyfrag.py --repo %s --out %s/Gen" % (sys.executable, VERIF, REPO, COQ), timeout=120)
    fails = []
    files = {}
    for line in out.splitlines():
        if line.startswith("TRANSLATE-FAIL "):
            fails.append(line[len("TRANSLATE-FAIL "):])
        elif line.startswith("PLUGIN-FILES "):
            parts = line.split()
            files[parts[1]] = parts[2:]
    if rc != 0 and not fails:
        fails.append("[core] pyfrag crashed: " + out[-500:])
    PLUGIN_FILES.clear()
    PLUGIN_FILES.update(files)
    return fails


PLUGIN_FILES = {}


def relevant_translate_failures(fails, closure):
    """a translation failure breaks the properties whose proof closure contains a file of that plugin"""
    gen = {os.path.basename(f) for f in closure if f.startswith("Gen/")}
    out = []
    for f in fails:
        m = re.match(r"\[([^\]]+)\]", f)
        plug = m.group(1) if m else "core"
        pf = set(PLUGIN_FILES.get(plug, []))
        if plug == "core" or not pf or (pf & gen):
            out.append(f)
    return out


def make(targets=None, jobs=16, timeout=1700):
    """Full .vo build (never -vos) of the given targets (default: all)."""
    if not os.path.exists(os.path.join(COQ, "Makefile")):
        refresh_makefile()
    t = " ".join(targets) if targets else ""
    return sh("timeout %d make -j%d %s 2>&1" % (timeout, jobs, t), cwd=COQ, timeout=timeout + 30)


def refresh_makefile():
    sh("coq_makefile -f _CoqProject -o Makefile $(find . -name '*.v' | sort)", cwd=COQ)


def build_modeld(pid):
    """Extract coq/<pid>/Run.v (its `dispatch`) and link it with the generic driver."""
    ex = os.path.join(BUILD, pid)
    os.makedirs(ex, exist_ok=True)
    with open(os.path.join(ex, "Extract.v"), "w") as f:
        f.write("(* generated: ExtrOcamlBasic only, no Extract Constant; N/Z/positive stay Coq datatypes *)\n"
                "From Coq Require Import Extraction ExtrOcamlBasic.\n"
                "From NR Require Import Lib.Base %s.Run.\n"
                "Extraction \"model.ml\" NR.%s.Run.dispatch Lib.Base.Z_of_dec Lib.Base.dec_of_Z.\n" % (pid, pid))
    rc, out = sh("timeout 900 coqc -Q %s NR Extract.v" % COQ, cwd=ex)
    if rc != 0:
        return rc, out
    new = open(os.path.join(ex, "model.ml")).read()
    stamp = os.path.join(ex, ".stamp")
    h = hashlib.sha256((new + open(os.path.join(VERIF, "tools/modeld/driver.ml")).read()).encode()).hexdigest()
    if os.path.exists(modeld_path(pid)) and os.path.exists(stamp) and open(stamp).read() == h:
        return 0, "modeld up to date"
    sh("cp %s/tools/modeld/driver.ml ." % VERIF, cwd=ex)
    rc, out2 = sh("ocamlfind ocamlopt -w -a -O3 model.mli model.ml driver.ml -o modeld.new && mv modeld.new modeld", cwd=ex, timeout=900)
    if rc == 0:
        open(stamp, "w").write(h)
    return rc, out + out2


THEOREM_RE = re.compile(r"^\s*(Theorem|Lemma|Example|Corollary)\s+([A-Za-z0-9_']+)", re.M)


def prove(pid):
    """Rebuild the closure of Props/<pid>.v from the regenerated sources and
    account for proof obligations. Returns dict."""
    res = {"obligations": [], "failed": [], "assumptions": {}, "log": "", "translate_failures": [], "hygiene": []}
    with BuildLock():
        res["translate_failures"] = regenerate()
        refresh_makefile()
        rc, out = make(["Props/%s.vo" % pid, "%s/Run.vo" % pid])
        res["log"] = out[-6000:]
        res["make_rc"] = rc
        # always recompile the property file itself to capture Print Assumptions
        prc, pout = (1, "")
        if rc == 0:
            prc, pout = sh("timeout 600 coqc -Q . NR Props/%s.v" % pid, cwd=COQ)
            res["log"] += pout[-3000:]
            mrc, mout = build_modeld(pid)
            if mrc != 0:
                res["failed"].append("extract:modeld")
                res["log"] += mout[-3000:]
    # obligations: the named statements in the dependency closure of Props/<pid>.v
    closure = coq_closure("Props/%s.v" % pid)
    run_closure = coq_closure("%s/Run.v" % pid)
    res["hygiene"] = hygiene(set(closure) | set(run_closure))
    for f in closure:
        src = strip_coq_comments(open(os.path.join(COQ, f)).read())
        vo = os.path.join(COQ, f[:-2] + ".vo")
        ok = os.path.exists(vo) and os.path.getmtime(vo) >= os.path.getmtime(os.path.join(COQ, f)) and rc == 0
        for m in THEOREM_RE.finditer(src):
            name = "%s:%s" % (f[:-2], m.group(2))
            res["obligations"].append(name)
            if not ok:
                res["failed"].append(name)
    if rc != 0 or prc != 0:
        m = re.search(r'File "\./([^"]+)", line (\d+)', out + pout)
        res["failed"].append("build:%s" % (m.group(1) + ":" + m.group(2) if m else "unknown"))
    # Print Assumptions parsing
    cur = None
    for chunk in re.split(r"\n(?=Closed under the global context|Axioms:)", pout):
        pass
    names = re.findall(r"Print Assumptions\s+([A-Za-z0-9_'.]+)\.", strip_coq_comments(open(os.path.join(COQ, "Props/%s.v" % pid)).read()))
    blocks = re.findall(r"(Closed under the global context|Axioms:\n(?:.+\n?)+?(?=\n\S|\Z))", pout)
    for i, n in enumerate(names):
        b = blocks[i] if i < len(blocks) else "missing"
        res["assumptions"][n] = b.strip()
        if not b.startswith("Closed under the global context"):
            axs = [l.strip().split(" ")[0] for l in b.splitlines()[1:] if l and not l.startswith(" " * 4)]
            if b == "missing" or any(a not in AXIOM_WHITELIST for a in axs):
                res["failed"].append("assumptions:%s" % n)
    for t in relevant_translate_failures(res["translate_failures"], closure):
        res["failed"].append("translate:%s" % t)
    for h in res["hygiene"]:
        res["failed"].append("hygiene:%s" % h)
    return res


def coq_closure(rel):
    """Files under coq/ that rel transitively Requires (From NR Require ...)."""
    seen, todo = [], [rel]
    while todo:
        f = todo.pop()
        if f in seen or not os.path.exists(os.path.join(COQ, f)):
            continue
        seen.append(f)
        src = strip_coq_comments(open(os.path.join(COQ, f)).read())
        for m in re.finditer(r"From\s+NR\s+Require\s+(?:Import\s+|Export\s+)?(.*?)\.(?=\s)", src, re.S):
            for mod in m.group(1).split():
                todo.append(mod.replace(".", "/") + ".v")
    return sorted(seen)


# ----------------------------------------------------------------------------- findings
def load_findings(pid):
    """-> (open list of dicts {cls, text}, fixed list)"""
    opens, fixed = [], []
    import glob
    files = [FINDINGS_FILE] + sorted(glob.glob(os.path.join(VERIF, "findings.d", "*.txt")))
    for fn in files:
        if not os.path.exists(fn):
            continue
        for line in open(fn):
            line = line.strip()
            if not line or line.startswith("#"):
                continue
            m = re.match(r"open:\s+property=(\S+)\s+class=(\S+)\s+witness=(\S+)\s+(.*)", line)
            if m and m.group(1) == pid:
                opens.append({"cls": m.group(2), "witness": m.group(3), "text": m.group(4)})
            m = re.match(r"fixed:\s+property=(\S+)\s+(\S+)\s+(.*)", line)
            if m and m.group(1) == pid:
                fixed.append({"commit": m.group(2), "text": m.group(3)})
    return opens, fixed


def all_open_findings():
    """{cls: set(property ids)} over every findings file"""
    import glob
    out = {}
    for fn in [FINDINGS_FILE] + sorted(glob.glob(os.path.join(VERIF, "findings.d", "*.txt"))):
        if os.path.exists(fn):
            for line in open(fn):
                m = re.match(r"open:\s+property=(\S+)\s+class=(\S+)\s", line.strip())
                if m:
                    out.setdefault(m.group(2), set()).add(m.group(1))
    return out


def drop_foreign(suites, pid):
    """A shared suite also evaluates the statements of sibling properties.  A failure whose class is an open
    finding of ANOTHER property only is that property's concern: it is counted, not reported here."""
    opens = all_open_findings()
    for s in suites:
        keep = []
        for v in s.violations:
            owners = opens.get(v["cls"], set())
            if owners and pid not in owners:
                s.count("finding_of_other_property:" + v["cls"])
            else:
                keep.append(v)
        s.violations = keep
    return suites


# ----------------------------------------------------------------------------- results
class Suite:
    """Result of one correspondence / oracle suite."""

    def __init__(self, name):
        self.name = name
        self.cases = 0
        self.nontrivial = set()     # digests of distinct non-trivial cases
        self.disagreements = []     # model vs implementation: {case, model, impl}
        self.violations = []        # oracle failures on the implementation: {cls, case, expected, observed, what}
        self.samples = []
        self.dist = {}
        self.rule = ""

    def count(self, key, n=1):
        self.dist[key] = self.dist.get(key, 0) + n

    def case(self, case, nontrivial=True):
        self.cases += 1
        if nontrivial:
            self.nontrivial.add(hashlib.sha1(repr(case).encode()).hexdigest())
        if len(self.samples) < 3:
            self.samples.append(jsonable(case))

    def disagree(self, case, model, impl):
        self.disagreements.append({"suite": self.name, "case": jsonable(case), "model": jsonable(model), "impl": jsonable(impl)})

    def violate(self, cls, case, what, expected=None, observed=None):
        self.violations.append({"suite": self.name, "cls": cls, "case": jsonable(case), "what": what,
                                "expected": jsonable(expected), "observed": jsonable(observed)})


def jsonable(v):
    if isinstance(v, (bytes, bytearray, memoryview)):
        return {"__bytes__": bytes(v).hex()}
    if isinstance(v, PyFloat):
        return {"__float__": v.r}
    if isinstance(v, float):
        return {"__float__": repr(v)}
    if isinstance(v, (list, tuple)):
        return [jsonable(x) for x in v]
    if isinstance(v, (set, frozenset)):
        return sorted((jsonable(x) for x in v), key=repr)
    if isinstance(v, dict):
        return {str(k): jsonable(x) for k, x in v.items()}
    if isinstance(v, str):
        try:
            v.encode("utf-8")
            return v
        except UnicodeEncodeError:
            return {"__str_cps__": [ord(c) for c in v]}
    if v is None or isinstance(v, (bool, int)):
        return v
    return repr(v)


def unjson(v):
    if isinstance(v, dict):
        if "__bytes__" in v and len(v) == 1:
            return bytes.fromhex(v["__bytes__"])
        if "__float__" in v and len(v) == 1:
            return float(v["__float__"])
        if "__str_cps__" in v and len(v) == 1:
            return "".join(chr(c) for c in v["__str_cps__"])
        return {k: unjson(x) for k, x in v.items()}
    if isinstance(v, list):
        return [unjson(x) for x in v]
    return v


def write_replay(pid, payload):
    os.makedirs(REPLAYS, exist_ok=True)
    blob = json.dumps(payload, sort_keys=True, indent=1)
    path = os.path.join(REPLAYS, "%s-%s.json" % (pid, hashlib.sha1(blob.encode()).hexdigest()[:12]))
    with open(path, "w") as f:
        f.write(blob)
    return path


def conclude(pid, tier, seed, t0, proof, suites, extra_assumptions=(), replay_hint=""):
    """Decision procedure, evidence file, output lines. Returns exit code."""
    opens, fixed = load_findings(pid)
    open_cls = {o["cls"]: o for o in opens}
    lines = []
    disagreements = [d for s in suites for d in s.disagreements]
    violations = [v for s in suites for v in s.violations]
    known = [v for v in violations if v["cls"] in open_cls]
    unknown = [v for v in violations if v["cls"] not in open_cls]
    rc = 0
    seen_known = set()
    for v in known:
        if v["cls"] not in seen_known:
            seen_known.add(v["cls"])
            lines.append("KNOWN-FINDING: property=%s %s [%s]" % (pid, open_cls[v["cls"]]["text"], v["cls"]))
    for cls, o in open_cls.items():
        if cls not in seen_known:
            # the witness no longer fails on this run: reported in the evidence, file never rewritten here
            pass
    broken = list(proof["failed"])
    n_viol = 0
    if unknown:
        v = unknown[0]
        path = write_replay(pid, {"property": pid, "kind": "failing-input", "violation": v, "seed": seed, "tier": tier,
                                  "replay": "./check %s --replay <this file>" % pid,
                                  "broken_obligations": broken, "n_unlisted_violations": len(unknown)})
        lines.append("VIOLATION property=%s replay=%s" % (pid, path))
        rc = 1
        n_viol = len(unknown)
    elif broken or disagreements:
        what = {"property": pid, "kind": "tie-or-proof-broken", "broken_obligations": broken,
                "broken_correspondence": sorted({d["suite"] for d in disagreements}),
                "first_disagreements": disagreements[:3], "seed": seed, "tier": tier,
                "build_log_tail": proof.get("log", "")[-3000:] if broken else ""}
        path = write_replay(pid, what)
        lines.append("VIOLATION property=%s replay=%s no-failing-input-found" % (pid, path))
        rc = 1
        n_viol = 1
    nobl = len(proof["obligations"]) + len([f for f in proof["failed"] if f.split(":")[0] in ("build", "translate", "hygiene", "assumptions", "extract")])
    ndis = len(proof["obligations"]) - len([f for f in proof["failed"] if f in proof["obligations"]])
    if proof["failed"] and ndis == nobl:
        ndis = nobl - 1
    ev = {
        "property_id": pid, "tier": tier, "seed": seed, "level": "proof",
        "coverage": {
            "obligations": max(1, nobl), "discharged": max(0, ndis),
            "checker_cmd": "cd /verif/coq && coq_makefile -f _CoqProject -o Makefile && make Props/%s.vo && coqc -Q . NR Props/%s.v  (full .vo build; Print Assumptions parsed)" % (pid, pid),
            "trusted_base": TRUSTED_BASE + ["Print Assumptions %s: %s" % (k, v.replace("\n", " ")) for k, v in proof["assumptions"].items()],
            "failed_obligations": proof["failed"],
            "evaluations": sum(s.cases for s in suites),
            "distinct_nontrivial": sum(len(s.nontrivial) for s in suites),
            "rule": " | ".join("%s: %s" % (s.name, s.rule) for s in suites),
            "samples": [{"suite": s.name, "cases": s.samples} for s in suites if s.samples] or ["(no correspondence cases)"],
            "suites": {s.name: {"cases": s.cases, "distinct_nontrivial": len(s.nontrivial), "disagreements": len(s.disagreements),
                                "violations": len(s.violations), "distribution": s.dist} for s in suites},
            "known_findings_reproduced": sorted(seen_known),
            "known_findings_not_reproduced": sorted(set(open_cls) - seen_known),
            "source_snapshot": source_hash(),
        },
        "assumptions": list(extra_assumptions),
        "wall_s": round(time.time() - t0, 2),
        "violations": n_viol,
    }
    if ev["coverage"]["discharged"] < 1:
        ev["coverage"]["discharged"] = 0
    os.makedirs(EVIDENCE, exist_ok=True)
    with open(os.path.join(EVIDENCE, "%s.json" % pid), "w") as f:
        json.dump(ev, f, indent=1, sort_keys=True)
    for l in lines:
        print(l)
    tot = sum(s.cases for s in suites)
    print("%s %s: obligations %d/%d, correspondence cases %d, disagreements %d, oracle violations %d (known %d), %.1fs"
          % (pid, tier, ev["coverage"]["discharged"], ev["coverage"]["obligations"], tot, len(disagreements), len(violations), len(known), time.time() - t0))
    return rc


def source_hash():
    h = hashlib.sha256()
    for root, _, files in sorted(os.walk(os.path.join(REPO, "nostr_relay"))):
        for f in sorted(files):
            if f.endswith(".py"):
                h.update(open(os.path.join(root, f), "rb").read())
    return h.hexdigest()[:16]


def rng_for(seed, label):
    return random.Random("%s/%s" % (seed, label))
