"""Schedule-controlled execution of the real asynchronous core (web.start_client +
BaseStorage registry + subscription query / notify tasks) and its comparison with
coq/Relay/Model.v.  Nothing in /repo is modified: the control points are wrappers installed
from outside (gates on the query row stream and on BaseSubscription.notify, a scripted
websocket, recording wrappers around add_event / prepare / is_limited)."""
import asyncio
import json
import logging

from . import env
from .common import Suite, model_batch, rng_for


class Gate:
    """Controls one subscription's query task: it may take `permits` steps."""

    def __init__(self):
        self.permits = 0
        self.batches = None
        self.ready = asyncio.Event()     # prefetched and waiting at the first step
        self.waiting = asyncio.Event()   # currently blocked in wait_step
        self.wake = asyncio.Event()
        self.finished = False
        self.steps_done = 0

    async def wait_step(self):
        while self.permits == 0:
            self.waiting.set()
            self.wake.clear()
            await self.wake.wait()
        self.waiting.clear()
        self.permits -= 1

    def release(self):
        self.permits += 1
        self.wake.set()


class NullLimiter:
    """scripted rate limiter: the verdict for the next message is set by the driver"""

    def __init__(self):
        self.next = False

    def is_limited(self, addr, message):
        v, self.next = self.next, False
        return v

    def cleanup(self):
        pass


class Conn:
    def __init__(self, cid):
        self.cid = cid
        self.inbox = asyncio.Queue()
        self.idle = asyncio.Event()
        self.sent = []
        self.closed_code = None
        self.task = None
        self.queue = None
        self.client_id = None


class Driver:
    def __init__(self, backend="sql", sub_limit=3, max_limit=50, limiter_factory=None):
        self.limiter_factory = limiter_factory
        self.backend = backend
        self.sub_limit = sub_limit
        self.max_limit = max_limit
        self.conns = {}
        self.pending = []       # [(event, sub, asyncio.Event release, done Event)]
        self.gates = {}         # id(sub) -> Gate
        self.sub_of_task = {}
        self.ops = []
        self.registries = []
        self.last_add = None
        self.last_prep = True
        self.wedged = []        # REQs whose query task never produced a row or a sentinel
        self.scratch = env.Scratch()

    async def start(self):
        env.load_config(subscription_limit=self.sub_limit, max_limit=self.max_limit)
        env.patch_clock()
        self.vs = env.patch_web_sleep()
        if self.backend == "sql":
            self.st = await env.sql_storage(self.scratch)
        else:
            self.st = await env.kv_storage(self.scratch)
        self._install()

    # ---- wrappers -----------------------------------------------------------
    def _install(self):
        st = self.st
        drv = self
        from nostr_relay.storage import base
        self._orig_notify = base.BaseSubscription.notify
        self._orig_start = base.BaseSubscription.start
        self._orig_init_limit = base.BaseSubscription.__init__.__defaults__

        orig_notify = self._orig_notify

        def notify(sub, event):
            rel, done = asyncio.Event(), asyncio.Event()
            drv.pending.append((event, sub, rel, done))

            async def gated():
                await rel.wait()
                try:
                    await orig_notify(sub, event)
                finally:
                    done.set()
            return gated()
        base.BaseSubscription.notify = notify

        orig_start = self._orig_start

        def start(sub):
            drv.gates[id(sub)] = Gate()
            orig_start(sub)
            drv.sub_of_task[sub.query_task] = sub
        base.BaseSubscription.start = start

        if self.backend == "sql":
            real_run_query = st.run_query

            async def gated_run_query(query, if_long=None):
                # the REAL row stream stays open (query slot, connection, read snapshot held) while the task
                # waits at its gate, so that a CLOSE / replacement cancels it mid-flight as it would in production
                sub = drv.sub_of_task.get(asyncio.current_task())
                if sub is None:          # run_single_query etc.
                    async for ev in real_run_query(query):
                        yield ev
                    return
                g = drv.gates[id(sub)]
                g.batches = []
                agen = real_run_query(query)
                try:
                    async for ev in agen:
                        g.batches.append([ev.id])
                        g.ready.set()
                        await g.wait_step()
                        yield ev
                        g.steps_done += 1
                    g.ready.set()
                    await g.wait_step()
                    g.steps_done += 1
                except asyncio.CancelledError:
                    # in production the cancellation is delivered INSIDE the row stream (the task is
                    # waiting for the next row), not at a gate of ours: hand it on to the real generator
                    try:
                        await agen.athrow(asyncio.CancelledError())
                    except (asyncio.CancelledError, StopAsyncIteration, RuntimeError):
                        pass
                    raise
                finally:
                    g.finished = True
                    g.waiting.set()
            st.run_query = gated_run_query
        else:
            from nostr_relay.storage import kv
            real_executor = kv.executor
            self._orig_executor = real_executor

            async def gated_executor(db, plans, pool, default_limit=None, log=None, loop=None):
                sub = drv.sub_of_task.get(asyncio.current_task())
                res = [pe async for pe in real_executor(db, plans, pool, default_limit=default_limit, log=log, loop=loop)]
                if sub is None:
                    for pe in res:
                        yield pe
                    return
                g = drv.gates[id(sub)]
                g.batches = [[ev.id for ev in events] for _, events in res]
                g.ready.set()
                try:
                    for pe in res:
                        await g.wait_step()
                        yield pe
                        g.steps_done += 1
                    await g.wait_step()
                    g.steps_done += 1
                finally:
                    g.finished = True
                    g.waiting.set()
            kv.executor = gated_executor

        real_add = st.add_event

        async def add_event(event_json, auth_token=None):
            from nostr_relay.errors import StorageError, AuthenticationError
            try:
                ev, changed = await real_add(event_json, auth_token=auth_token)
                drv.last_add = {"k": "ok", "event": env.ev_obj(ev), "changed": bool(changed)}
                return ev, changed
            except (StorageError, AuthenticationError) as e:
                drv.last_add = {"k": "refused", "reason": str(e)}
                raise
            except Exception as e:
                drv.last_add = {"k": "crash", "reason": str(e)}
                raise
        st.add_event = add_event

        cls = st.subscription_class
        real_prepare = cls.prepare
        self._cls, self._real_prepare = cls, real_prepare

        def prepare(sub):
            r = real_prepare(sub)
            drv.last_prep = bool(r)
            return r
        cls.prepare = prepare

        real_subscribe = st.subscribe

        async def subscribe(client_id, sub_id, filters, queue, auth_token=None, **kw):
            for c in drv.conns.values():
                if c.client_id is None and c.pending_subscribe:
                    c.client_id = client_id
                    c.queue = queue
            return await real_subscribe(client_id, sub_id, filters, queue, auth_token=auth_token, **kw)
        st.subscribe = subscribe

    def uninstall(self):
        from nostr_relay.storage import base
        base.BaseSubscription.notify = self._orig_notify
        base.BaseSubscription.start = self._orig_start
        self._cls.prepare = self._real_prepare
        if self.backend != "sql":
            from nostr_relay.storage import kv
            kv.executor = self._orig_executor

    # ---- connections --------------------------------------------------------
    def _registry(self):
        out = []
        for client_id, subs in self.st.clients.items():
            cid = next((c.cid for c in self.conns.values() if c.client_id is client_id), -1)
            out.append([cid, list(subs.keys())])
        return out

    async def open(self, cid):
        import falcon
        from nostr_relay import web
        c = Conn(cid)
        c.pending_subscribe = False
        self.conns[cid] = c

        async def ws_send(text):
            c.sent.append(text)

        async def ws_recv():
            c.idle.set()
            item = await c.inbox.get()
            if item is None:
                raise falcon.WebSocketDisconnected()
            return item

        async def ws_close(code=1000):
            c.closed_code = code

        c.limiter = self.limiter_factory() if self.limiter_factory else NullLimiter()
        c.task = asyncio.create_task(web.start_client(self.st, ws_send, ws_recv, ws_close, logging.getLogger("verif.relay"),
                                                      rate_limiter=c.limiter, remote_addr="10.0.0.%d" % cid))
        await self._wait_idle(c)
        self.ops.append({"op": "open", "c": cid})
        self.registries.append(self._registry())

    async def _wait_idle(self, c):
        w = asyncio.ensure_future(c.idle.wait())
        done, _ = await asyncio.wait({w, c.task}, timeout=30, return_when=asyncio.FIRST_COMPLETED)
        if not done:
            raise RuntimeError("connection %d wedged (handler neither idle nor finished)" % c.cid)
        if not w.done():
            w.cancel()
        await self.settle()

    async def settle(self):
        # bounded by real time, not by a number of loop turns: a step of a gated SQL query waits for the aiosqlite
        # thread, and on a loaded machine 200 turns of the event loop can pass before that thread is scheduled
        loop = asyncio.get_running_loop()
        deadline = loop.time() + (8.0 if not getattr(self, "_slow", False) else 0.3)
        spins = 0
        while True:
            await asyncio.sleep(0)
            busy = False
            for c in self.conns.values():
                if c.queue is not None and not c.queue.empty() and not c.task.done():
                    busy = True
            for g in self.gates.values():
                if g.batches is not None and not g.finished and not g.waiting.is_set() and g.permits:
                    busy = True
            if not busy:
                break
            spins += 1
            if spins >= 200:
                await asyncio.sleep(0.001)
                if loop.time() > deadline:
                    self._slow = True
                    break
        for _ in range(3):
            await asyncio.sleep(0)

    async def free_orphans(self):
        """query tasks of subscriptions that are no longer registered run freely, as they would
        without the gates: a cancelled task is finished and does nothing, an un-cancelled one shows"""
        registered = {id(sub) for subs in self.st.clients.values() for sub in subs.values()}
        freed = False
        for gid, g in self.gates.items():
            if gid not in registered and not g.finished and g.permits < 10 ** 5:
                g.permits += 10 ** 6
                g.wake.set()
                freed = True
        if freed:
            for _ in range(50):
                await asyncio.sleep(0)
            await self.settle()

    async def release_all_pending(self):
        for (_, _, rel, done) in self.pending:
            rel.set()
            await done.wait()
        self.pending = []
        await self.settle()

    async def msg(self, cid, message=None, text=None, limited=False):
        c = self.conns[cid]
        if c.task.done():
            return
        c.limiter.next = limited
        raw = text if text is not None else json.dumps(message)
        is_event = isinstance(message, list) and len(message) >= 2 and message[0] == "EVENT" and not limited
        if is_event:
            await self.release_all_pending()
        self.last_add = {"k": "crash", "reason": ""}
        self.last_prep = True
        before = set(self.gates)
        c.pending_subscribe = True
        c.idle.clear()
        c.inbox.put_nowait(raw)
        await self._wait_idle(c)
        c.pending_subscribe = False
        # a newly started query task: wait until it has fetched its rows and sits at its gate
        rows = []
        for gid in set(self.gates) - before:
            g = self.gates[gid]
            try:
                await asyncio.wait_for(g.ready.wait(), 20 if not self.wedged else 0.3)
            except asyncio.TimeoutError:
                self.wedged.append({"c": cid, "m": message})
                g.batches = g.batches or []
            rows = g.batches
        await self.settle()
        await self.free_orphans()
        if text is not None:
            from nostr_relay.util import json_loads, JSONDecodeError
            try:
                json_loads(text)
                kind = "decodes"
            except JSONDecodeError:
                kind = "badjson"
            except Exception:
                kind = "crashjson"
            if kind == "decodes":
                self.ops.append({"op": "msg", "c": cid, "m": json_loads(text), "limited": False, "rows": rows, "prep": self.last_prep,
                                 "can_query": True, "add": self.last_add, "auth": {"k": "ok"}})
            else:
                self.ops.append({"op": kind, "c": cid})
        else:
            c.limiter.next = False
            self.ops.append({"op": "msg", "c": cid, "m": message, "limited": bool(limited), "rows": rows, "prep": self.last_prep,
                             "can_query": True, "add": self.last_add, "auth": {"k": "ok"}})
        self.registries.append(self._registry())

    def running_subs(self):
        """[(cid, sid)] of registered subscriptions whose query task can take a step"""
        out = []
        for client_id, subs in self.st.clients.items():
            cid = next((c.cid for c in self.conns.values() if c.client_id is client_id), -1)
            for sid, sub in subs.items():
                g = self.gates.get(id(sub))
                if g is not None and not g.finished:
                    out.append((cid, sid))
        return out

    async def row(self, cid, sid):
        c = self.conns[cid]
        sub = self.st.clients[c.client_id][sid]
        g = self.gates[id(sub)]
        n = g.steps_done
        g.waiting.clear()
        g.release()
        loop = asyncio.get_running_loop()
        deadline = loop.time() + 20.0
        spins = 0
        while not (g.finished or (g.steps_done > n and g.waiting.is_set())):
            await asyncio.sleep(0)
            spins += 1
            if spins >= 2000:
                await asyncio.sleep(0.001)
                if loop.time() > deadline:
                    break
        await self.settle()
        self.ops.append({"op": "row", "c": cid, "sid": sid})
        self.registries.append(self._registry())

    async def notify(self, k):
        (_, _, rel, done) = self.pending.pop(k)
        rel.set()
        await done.wait()
        await self.settle()
        self.ops.append({"op": "notify", "k": k})
        self.registries.append(self._registry())

    async def drop(self, cid):
        c = self.conns[cid]
        c.inbox.put_nowait(None)
        await asyncio.wait({c.task}, timeout=30)
        await self.settle()
        self.ops.append({"op": "drop", "c": cid})
        self.registries.append(self._registry())

    async def req_then_drop(self, cid, message):
        """the client sends a REQ and goes away at once: both are already waiting when the handler reads"""
        c = self.conns[cid]
        if c.task.done():
            return
        self.last_prep = True
        before = set(self.gates)
        c.pending_subscribe = True
        c.inbox.put_nowait(json.dumps(message))
        c.inbox.put_nowait(None)
        await asyncio.wait({c.task}, timeout=30)
        c.pending_subscribe = False
        rows = []
        for gid in set(self.gates) - before:
            g = self.gates[gid]
            try:
                await asyncio.wait_for(g.ready.wait(), 20)
            except asyncio.TimeoutError:
                pass
            rows = g.batches or []
        await self.settle()
        await self.free_orphans()
        self.ops.append({"op": "reqgone", "c": cid, "m": message, "rows": rows, "prep": self.last_prep, "can_query": True})
        self.registries.append(self._registry())

    async def finish(self):
        """end of scenario: collect task health, close everything"""
        health = {"escaped": [], "alive": [], "wedged": self.wedged}
        for c in self.conns.values():
            if not c.task.done():
                c.inbox.put_nowait(None)
                try:
                    await asyncio.wait_for(c.task, 30)
                except Exception as e:      # noqa
                    health["escaped"].append("%d:%r" % (c.cid, e))
            elif c.task.cancelled():
                health["escaped"].append("%d:CancelledError left the connection handler" % c.cid)
            elif c.task.exception() is not None:
                health["escaped"].append("%d:%r" % (c.cid, c.task.exception()))
        for (_, _, rel, _) in self.pending:
            rel.set()
        for g in self.gates.values():
            g.permits += 10 ** 6
            g.wake.set()
        await asyncio.sleep(0.01)
        health["registry_after_close"] = self._registry()
        self.uninstall()
        await env.close(self.st)
        self.scratch.close()
        return health

    def transcripts(self):
        out = []
        for cid in sorted(self.conns):
            c = self.conns[cid]
            fr = []
            for raw in c.sent:
                fr.append(canon_frame(raw))
            if c.closed_code is not None:
                fr.append(["CLOSED", c.closed_code])
            out.append([cid, fr])
        return out


def canon_frame(raw):
    try:
        v = json.loads(raw)
    except Exception:
        return ["UNPARSABLE", raw]
    if not isinstance(v, list) or not v:
        return ["UNPARSABLE", raw]
    if v[0] == "EVENT" and len(v) == 3 and isinstance(v[2], dict):
        return ["EVENT", v[1], v[2].get("id")]
    if v[0] == "EOSE" and len(v) == 2:
        return ["EOSE", v[1]]
    if v[0] == "OK" and len(v) == 4:
        return ["OK", v[1], v[2], str(v[3]).split(":")[0]]
    if v[0] == "NOTICE" and len(v) == 2:
        return ["NOTICE", str(v[1]).split(":")[0]]
    if v[0] == "AUTH":
        return ["AUTH"]
    return ["UNPARSABLE", raw]


# ------------------------------------------------------------------ scenarios
def universe(rng):
    evs = []
    for i in range(8):
        who = rng.randrange(3)
        kind = rng.choice([1, 1, 1, 7, 0])
        tags = []
        if rng.random() < 0.6:
            tags.append(["t", rng.choice(["x", "y"])])
        if rng.random() < 0.3:
            tags.append(["p", env.PUBS[rng.randrange(3)]])
        if rng.random() < 0.3:
            tags.append(["seq", "s", i])               # an integer tag item: admitted by is_signed, must be served as sent
        evs.append(env.mk_event(who, kind, env.NOW - 100 + 10 * i + rng.choice([0, 0, 1]), tags, "c%d" % i))
    if rng.random() < 0.5:
        # validly signed events no relay may admit (boolean / null / nested tag items): refused, and never seen by anybody
        evs.append(env.mk_event(rng.randrange(3), 1, env.NOW - 15, [["t", rng.choice([True, None, ["x"], 1.5])]], "bad item"))
    return evs


def gen_filter(rng, evs):
    f = {}
    r = rng.random()
    if r < 0.25:
        f["kinds"] = rng.sample([0, 1, 7, 5], rng.randint(1, 2))
    elif r < 0.45:
        f["authors"] = rng.sample(env.PUBS[:3], rng.randint(1, 2))
    elif r < 0.6:
        f["#t"] = rng.sample(["x", "y", "z"], rng.randint(1, 2))
    elif r < 0.7:
        f["ids"] = [rng.choice(evs)["id"]]
    elif r < 0.8:
        f["since"] = env.NOW - rng.choice([100, 60, 30])
    elif r < 0.85:
        f["kinds"] = [1]
        f["until"] = env.NOW - rng.choice([0, 50])
    if rng.random() < 0.2:
        f["limit"] = rng.choice([0, 1, 2, 100])
    return f


BAD_FILTERS = [{"kinds": "x"}, {"ids": ["zz"]}, {"since": -1}, 5, "x", None, [], {"#e": [["a"]]}, {"kinds": None}, {"#e": [1]}, {"authors": []}, {}]


async def scenario(rng, backend, tier, hostile=False):
    d = Driver(backend, sub_limit=rng.choice([1, 2, 3]), max_limit=rng.choice([5, 50]))
    await d.start()
    evs = universe(rng)
    stored = set()
    nconn = rng.choice([1, 2, 2, 3])
    for c in range(nconn):
        await d.open(c)
    # preload a few events through a connection so that REQs have stored answers
    for e in rng.sample(evs, rng.randint(0, 4)):
        await d.msg(0, ["EVENT", e])
        stored.add(e["id"])
    steps = rng.randint(4, 14 if tier == "quick" else 30)
    sids = ["a", "b", "c", "a\u00e9", "", "q\"uote", "back\\slash", "line\nbreak"]
    odd = [5, True, None, -3, 0, False]
    used = {}
    for _ in range(steps):
        openc = [c for c in d.conns.values() if not c.task.done()]
        if not openc:
            break
        choices = ["req"] * 4 + ["event"] * 3 + ["close"] * 2 + ["row"] * 5 + ["notify"] * 4 + ["drop"] + ["bad"] + ["rereq"]
        k = rng.choice(choices)
        c = rng.choice(openc)
        if k in ("req", "rereq"):
            sid = rng.choice(sids)
            fl = [gen_filter(rng, evs) for _ in range(rng.choice([1, 1, 2, 3]))]
            if hostile or rng.random() < 0.15:
                fl.insert(rng.randrange(len(fl) + 1), rng.choice(BAD_FILTERS))
            if rng.random() < 0.05:
                fl = []
            sidv = sid if rng.random() < 0.85 else rng.choice(odd)
            used.setdefault(c.cid, []).append(sidv)
            await d.msg(c.cid, ["REQ", sidv] + fl, limited=rng.random() < 0.05)
        elif k == "event":
            e = rng.choice(evs)
            if rng.random() < 0.12:
                e = dict(e, sig="00" * 64)
            elif rng.random() < 0.1:
                # correctly signed, but the storage engine cannot hold it: add_event raises something that is
                # neither StorageError nor AuthenticationError - the EVENT must still be answered by one OK frame
                e = env.mk_event(rng.randrange(3), rng.choice([2 ** 63, 2 ** 64, -(2 ** 63) - 1]), env.NOW - 7, [], "big kind")
            if rng.random() < 0.08:
                await d.msg(c.cid, ["EVENT", rng.choice([e, e, {}, 5, [], {"id": e["id"]}])], limited=True)
            else:
                await d.msg(c.cid, ["EVENT", e])
        elif k == "close":
            if used.get(c.cid) and rng.random() < 0.6:
                await d.msg(c.cid, ["CLOSE", rng.choice(used[c.cid])])     # an id this connection has used, in its raw JSON form
            else:
                await d.msg(c.cid, ["CLOSE", rng.choice(sids) if rng.random() < 0.8 else rng.choice(odd)])
        elif k == "row":
            rs = d.running_subs()
            if rs:
                cid, sid = rng.choice(rs)
                for _ in range(rng.choice([1, 1, 2, 5])):
                    if (cid, sid) in d.running_subs():
                        await d.row(cid, sid)
        elif k == "notify":
            if d.pending:
                await d.notify(rng.randrange(len(d.pending)))
        elif k == "drop":
            if len(openc) > 1 or rng.random() < 0.3:
                if rng.random() < 0.4:
                    await d.req_then_drop(c.cid, ["REQ", rng.choice(sids), gen_filter(rng, evs)])
                else:
                    await d.drop(c.cid)
        elif k == "bad":
            if rng.random() < 0.5:
                await d.msg(c.cid, text=rng.choice(["{", "", "[1,", "nul", "[\"REQ\""]))
            else:
                await d.msg(c.cid, rng.choice([[], ["REQ"], ["FOO", 1], {"a": 1}, 5, ["EVENT", 5], ["EVENT", {"id": 1}], ["CLOSE", 3],
                                              ["AUTH", {}], ["REQ", "s", 5], ["EVENT", []], ["REQ", "q", {"kinds": [1]}, "x"]]))
    # quiesce: run everything that is still pending / running
    while d.pending:
        await d.notify(0)
    for _ in range(200):
        rs = d.running_subs()
        if not rs:
            break
        await d.row(*rs[0])
    tr = d.transcripts()
    ops, regs = d.ops, d.registries
    npending = len(d.pending)
    health = await d.finish()
    cfg = {"sub_limit": d.sub_limit, "max_limit": d.max_limit, "kv": backend != "sql", "auth": False}
    return {"cfg": cfg, "ops": ops}, {"transcripts": tr, "registries": regs, "pending": npending}, health


def compare(suite, case, impl, health, model):
    nontrivial = sum(len(t[1]) for t in impl["transcripts"]) > 3
    brief = {"cfg": case["cfg"], "ops": [{k: (v if k != "m" else v) for k, v in o.items() if k not in ("rows",)} for o in case["ops"]][:40]}
    suite.case(brief, nontrivial=nontrivial)
    for o in case["ops"]:
        if o["op"] == "reqgone":
            suite.count("op_reqgone")
            continue
        suite.count("op_" + o["op"] + ("_" + str(o["m"][0]) if o["op"] == "msg" and isinstance(o.get("m"), list) and o["m"] and isinstance(o["m"][0], str) else ""))
    if model.get("res") == "unmodelled":
        suite.count("unmodelled")
        return
    m = {"transcripts": model.get("transcripts"), "registries": model.get("registries"), "pending": model.get("pending")}
    if m["registries"] and len(m["registries"]) == len(impl["registries"]):
        m["registries"] = [None if b is None else a for a, b in zip(m["registries"], impl["registries"])]
    if model.get("res") != "ok" or m != impl:
        where = "res=%s" % model.get("res")
        if model.get("res") == "ok":
            if m["registries"] != impl["registries"]:
                i = next(i for i, (a, b) in enumerate(zip(m["registries"] + [None], impl["registries"] + [None])) if a != b)
                where = "registry after op %d: model %r impl %r" % (i, m["registries"][i:i + 1], impl["registries"][i:i + 1])
            elif m["transcripts"] != impl["transcripts"]:
                where = "transcripts: model %r impl %r" % (m["transcripts"], impl["transcripts"])
            else:
                where = "pending: model %r impl %r" % (m["pending"], impl["pending"])
        suite.disagree(case, where, impl)
    if health.get("wedged"):
        suite.violate("req-met-with-silence", case, "an accepted REQ produced neither stored rows nor EOSE (its query task is wedged)",
                      observed=health["wedged"])
    if health["escaped"]:
        suite.violate("handler-exception-escaped", case, "an exception escaped web.start_client", observed=health["escaped"])
    if any(r for r in health["registry_after_close"]):
        suite.violate("registry-leak", case, "subscriptions remain registered after every connection ended", observed=health["registry_after_close"])


async def churn_scenario(rng, backend, pairs):
    """REQ immediately followed by CLOSE / replacement while the stored rows are still streaming, many times,
    then a probe on the same and on another connection: both must still be answered"""
    d = Driver(backend, sub_limit=3, max_limit=50)
    await d.start()
    await d.open(0)
    await d.open(1)
    evs = [env.mk_event(i % 3, 1, env.NOW - 50 + i, [["t", "x"]], "k%d" % i) for i in range(4)]
    for e in evs:
        await d.msg(1, ["EVENT", e])
    for i in range(pairs):
        await d.msg(0, ["REQ", "s", {"kinds": [1]}])
        if rng.random() < 0.5 and (0, "s") in d.running_subs():
            await d.row(0, "s")
        if rng.random() < 0.5:
            await d.msg(0, ["CLOSE", "s"])
    await d.msg(0, ["CLOSE", "s"])
    for c in (0, 1):
        await d.msg(c, ["REQ", "probe", {"kinds": [1], "limit": 2}])
        for _ in range(4):
            if (c, "probe") in d.running_subs():
                await d.row(c, "probe")
    tr = d.transcripts()
    ops, regs, npending = d.ops, d.registries, len(d.pending)
    health = await d.finish()
    cfg = {"sub_limit": d.sub_limit, "max_limit": d.max_limit, "kv": backend != "sql", "auth": False}
    return {"cfg": cfg, "ops": ops}, {"transcripts": tr, "registries": regs, "pending": npending}, health


def suite_churn(tier, seed, backend="sql", pid="RELAY"):
    s = Suite("trace:churn-%s" % backend)
    s.rule = ("12-40 REQs on one subscription id, each closed or replaced while its stored rows are still streaming (the real row stream is "
              "open at its gate), then probe REQs on that and on a second connection, which must be answered with rows and EOSE")
    rng = rng_for(seed, "churn-" + backend)
    cases, impls, healths = [], [], []
    for pairs in ([12, 25] if tier == "quick" else [12, 25, 40, 40]):
        case, impl, health = env.run(churn_scenario(rng, backend, pairs))
        cases.append(case)
        impls.append(impl)
        healths.append(health)
    outs = model_batch("relay.run", cases, pid=pid)
    for case, impl, health, mo in zip(cases, impls, healths, outs):
        compare(s, case, impl, health, mo)
    return s


def suite_relay(tier, seed, backend="sql", n=None, hostile=False, label="relay", pid="RELAY"):
    s = Suite("trace:%s-%s" % (label, backend))
    s.rule = ("seeded random schedules over 1-3 connections: REQ (valid / partly invalid / hostile filters, duplicate and non-string ids), CLOSE, EVENT "
              "(valid, duplicate, bad signature), malformed frames, disconnects, interleaved with single steps of query tasks and of pending "
              "notify tasks; the real web.start_client + storage run under gates, the recorded schedule is replayed through Relay.Model.run; "
              "per-connection transcripts, the registry after every operation and the pending count must be equal; non-trivial = more than 3 frames sent")
    rng = rng_for(seed, "relay-%s-%s" % (backend, label))
    n = n or (60 if tier == "quick" else 250)
    cases, impls, healths = [], [], []
    for _ in range(n):
        case, impl, health = env.run(scenario(rng, backend, tier, hostile))
        cases.append(case)
        impls.append(impl)
        healths.append(health)
    outs = model_batch("relay.run", cases, pid=pid)
    for case, impl, health, mo in zip(cases, impls, healths, outs):
        compare(s, case, impl, health, mo)
    return s


# ------------------------------------------------------------------ pure suites: filter validation, live matching
def filter_fields(q):
    """validated NostrQuery -> the wire form of Lib.Nip01.filter"""
    return {"ids": q.ids, "authors": q.authors, "kinds": q.kinds, "since": q.since, "until": q.until, "limit": q.limit,
            "tags": [[n, sorted(vs)] for n, vs in (q.tags or [])]}


def suite_live(tier, seed, pid="RELAY"):
    from aionostr.event import Event
    from nostr_relay.storage.base import BaseSubscription, NostrQuery
    s = Suite("corr:check-event")
    s.rule = ("validated filters (ids/authors incl. delegators/kinds/since incl. 0/until/#tags incl. empty values and empty sets, empty filter, "
              "1-3 filters) x events (delegation tags, bare and empty tag values, timestamps at and around the bounds); "
              "BaseSubscription.check_event vs Live.Model.check_event; non-trivial = matched")
    rng = rng_for(seed, "live")
    n = 3000 if tier == "quick" else 40000
    cases, impls = [], []
    pubs = env.PUBS[:3]
    T = [0, 1, 99, 100, 101, 200]
    for _ in range(n):
        tags = []
        for _ in range(rng.choice([0, 1, 2, 3])):
            r = rng.random()
            if r < 0.25:
                tags.append(["delegation", rng.choice(pubs), "kind=1", "00" * 64])
            elif r < 0.35:
                tags.append([rng.choice(["t", "e"])])
            else:
                tags.append([rng.choice(["t", "e", "p"]), rng.choice(["", "x", "y", "xy"])])
        ev = {"id": "%064x" % rng.randrange(4), "pubkey": rng.choice(pubs), "created_at": rng.choice(T[1:]), "kind": rng.choice([0, 1, 7]),
              "tags": tags, "content": "", "sig": "00" * 64}
        fls = []
        for _ in range(rng.choice([1, 1, 2, 3])):
            f = {}
            if rng.random() < 0.2:
                f["ids"] = ["%064x" % rng.randrange(4) for _ in range(rng.randint(0, 2))]
            if rng.random() < 0.35:
                f["authors"] = rng.sample(pubs, rng.randint(0, 2))
            if rng.random() < 0.35:
                f["kinds"] = rng.sample([0, 1, 7], rng.randint(0, 2))
            if rng.random() < 0.3:
                f["since"] = rng.choice(T)
            if rng.random() < 0.3:
                f["until"] = rng.choice(T)
            if rng.random() < 0.4:
                f["#" + rng.choice("tep")] = rng.sample(["", "x", "y", "xy"], rng.randint(0, 2))
            fls.append(f)
        qs = [NostrQuery.model_validate(dict(f)) for f in fls]
        eo = Event(**ev)
        io = bool(BaseSubscription.check_event(None, eo, qs))
        cases.append({"filters": [filter_fields(q) for q in qs], "event": ev, "_raw": fls})
        impls.append(io)
    outs = model_batch("relay.live", [{"filters": c["filters"], "event": c["event"]} for c in cases], pid=pid)
    for c, mo, io in zip(cases, outs, impls):
        s.case({"filters": c["_raw"], "event": {k: c["event"][k] for k in ("pubkey", "created_at", "kind", "tags")}}, nontrivial=io)
        s.count("matched" if io else "unmatched")
        if mo != io:
            # the model is proved equal to the NIP-01 specification of live matching (Live.Proofs.check_event_spec):
            # a deviation of the code is a failing input of C05(d)
            s.violate("live-matching-deviates", {"filters": c["_raw"], "event": c["event"]},
                      "BaseSubscription.check_event differs from NIP-01 matching with window since <= t < until", expected=mo, observed=io)
    return s


RAW_POOL = [None, True, False, 0, 1, -1, 5, 2145934799, 2145934800, 2 ** 64, "5", "-3", "", "x", [], [1], ["a"], {}, {"a": 1}]


def suite_validate(tier, seed, pid="RELAY", entry="relay.validate"):
    from nostr_relay.storage.base import NostrQuery
    from nostr_relay.errors import StorageError
    from pydantic import ValidationError
    s = Suite("corr:filter-validate")
    s.rule = ("raw JSON filters: well-formed ones and typed mutations (every pool value at every key: ids, authors, kinds, since, until, limit, "
              "search, #e, #p, tags, unknown keys; non-dict filters); NostrQuery.model_validate vs Filt.Model.validate_filter; outcome class and "
              "validated fields compared; cases the model flags as outside its coercion subset are counted and skipped")
    rng = rng_for(seed, "validate")
    H = ["%064x" % i for i in (1, 2, 255)] + ["AB" * 32, "ab" * 33, "zz" * 32, "ab" * 31, "0f" * 32 + "a"]
    cases = []
    keys = ["ids", "authors", "kinds", "since", "until", "limit", "search", "#e", "#p", "tags", "zzz", "#ee"]
    for k in keys:
        for v in RAW_POOL:
            cases.append({k: v})
    for v in RAW_POOL:
        cases.append(v)
    for _ in range(600 if tier == "quick" else 6000):
        f = {}
        if rng.random() < 0.4:
            f["ids"] = [rng.choice(H) for _ in range(rng.randint(0, 3))]
        if rng.random() < 0.4:
            f["authors"] = [rng.choice(H) for _ in range(rng.randint(0, 3))]
        if rng.random() < 0.4:
            f["kinds"] = [rng.choice([0, 1, 1, 7, "2", True, 70000, -1]) for _ in range(rng.randint(0, 3))]
        for k in ("since", "until", "limit"):
            if rng.random() < 0.3:
                f[k] = rng.choice([0, 1, 100, "7", None, -1, 2145934799, 2145934800, True])
        for k in ("#e", "#p", "#t"):
            if rng.random() < 0.3:
                f[k] = [rng.choice(["a", "b", "", "a", 1, None, "AB" * 32, "aB" * 32, "ab" * 32, "Ab" * 16]) for _ in range(rng.randint(0, 3))] if rng.random() < 0.9 else "x"
        if rng.random() < 0.1:
            f[rng.choice(keys)] = rng.choice(RAW_POOL)
        cases.append(f)
    # filters on which validation must at least TERMINATE: run in a child process with a budget, because an input that sends
    # the validator into exponential backtracking would otherwise hang this check (and, in the relay, the whole event loop)
    nasty = []
    for n in (31, 32, 33, 40, 64, 100, 2000):
        for tail in ("z", "Z", "!", " ", "g0", "\n", "ab\u00e9"):
            nasty.append({"ids": ["ab" * n + tail]})
            nasty.append({"authors": ["0f" * n + tail], "kinds": [1]})
            nasty.append({"ids": ["a" * (2 * n - 1) + tail, "ab" * 32]})
    import subprocess
    import sys as _sys
    import os as _os
    code = ("import sys, json\nfrom nostr_relay.config import Config\nfrom nostr_relay.storage.base import NostrQuery\n"
            "n = 0\nfor raw in json.load(sys.stdin):\n    try:\n        NostrQuery.model_validate(raw)\n    except Exception:\n        pass\n    n += 1\nprint('DONE', n)\n")
    repo = _os.environ.get("VERIF_REPO", "/repo")
    try:
        pr = subprocess.run([_sys.executable, "-c", code], input=json.dumps(nasty).encode(), stdout=subprocess.PIPE, stderr=subprocess.PIPE, timeout=60,
                            env=dict(_os.environ, PYTHONPATH="%s:/verif/shims:/verif" % repo))
        finished = ("DONE %d" % len(nasty)) in pr.stdout.decode()
    except subprocess.TimeoutExpired:
        finished = False
    s.case({"nasty_filters": len(nasty)}, nontrivial=True)
    s.count("validation_terminates" if finished else "validation_hangs")
    if not finished:
        s.violate("input-wedges-the-relay", {"filters": nasty[:12], "n": len(nasty)},
                  "validating %d filters with almost-hex ids / authors did not finish within 60 s: such a REQ blocks the relay's event loop" % len(nasty))
        return s
    impls = []
    for raw in cases:
        try:
            q = NostrQuery.model_validate(json.loads(json.dumps(raw)) if raw is not None else None)
            ff = filter_fields(q)
            impls.append({"k": "ok", "f": ff})
        except ValidationError:
            impls.append({"k": "invalid"})
        except StorageError:
            impls.append({"k": "notquery"})
        except Exception:
            impls.append({"k": "crash"})
    default_limit = NostrQuery.model_fields["limit"].default     # Config.max_limit at the time base.py was imported
    outs = model_batch(entry, [{"max_limit": default_limit, "raw": c} for c in cases], pid=pid)
    for c, mo, io in zip(cases, outs, impls):
        s.case(c, nontrivial=io["k"] == "ok")
        s.count("impl_" + io["k"])
        if mo["k"] == "unmodelled":
            s.count("unmodelled")
            continue
        if mo["k"] == "ok":
            mo = {"k": "ok", "f": dict(mo["f"], tags=[[n, sorted(vs)] for n, vs in mo["f"]["tags"]])}
        if mo != io:
            s.disagree(c, mo, io)
    return s


# ------------------------------------------------------------------ hostile frames (C19)
JSON_TYPES = [None, True, False, 0, -1, 7, 2 ** 70, "", "x", "EVENT", [], [[]], ["REQ"], {}, {"id": 5}]


def hostile_frames(rng, evs):
    """typed mutations: every JSON type at every position of EVENT/REQ/CLOSE/AUTH frames and of the
    event and filter objects"""
    out = []
    good_ev = evs[0]
    good_f = {"kinds": [1], "authors": [env.PUBS[0]], "#t": ["x"], "since": 5, "until": env.NOW, "limit": 3, "ids": [evs[1]["id"]]}
    for base in (["EVENT", good_ev], ["REQ", "h", good_f], ["CLOSE", "h"], ["AUTH", good_ev]):
        for pos in range(len(base) + 1):
            for v in JSON_TYPES:
                m = list(base)
                if pos < len(m):
                    m[pos] = v
                else:
                    m.append(v)
                out.append(m)
        out.append(base[:1])
    for k in list(good_ev):
        for v in JSON_TYPES:
            out.append(["EVENT", dict(good_ev, **{k: v})])
        out.append(["EVENT", {a: b for a, b in good_ev.items() if a != k}])
    for k in list(good_f) + ["#e", "tags", "search", "zz"]:
        for v in JSON_TYPES:
            out.append(["REQ", "h", dict(good_f, **{k: v})])
            out.append(["REQ", "h", {k: v}])
    for v in JSON_TYPES:
        out.append(v)
    for k in (2 ** 63, 2 ** 64, -(2 ** 63) - 1):
        out.append(["EVENT", env.mk_event(1, k, env.NOW - 7, [], "big kind")])
        out.append(["EVENT", env.mk_event(1, 1, k, [], "big time")])
    return out


async def hostile_scenario(rng, backend, frames, evs):
    d = Driver(backend, sub_limit=3, max_limit=50)
    await d.start()
    await d.open(0)
    await d.open(1)
    await d.msg(1, ["EVENT", evs[2]])
    await d.msg(1, ["REQ", "w", {"kinds": [0, 1, 7]}])
    for fr in frames:
        if d.conns[0].task.done():
            break
        await d.msg(0, fr)
        if d.conns[0].task.done():
            break
        # the connection was kept open: it must still answer a well-formed probe
        await d.msg(0, ["REQ", "probe", {"ids": [evs[2]["id"]]}])
        for _ in range(3):
            if (0, "probe") in d.running_subs():
                await d.row(0, "probe")
        await d.msg(0, ["CLOSE", "probe"])
    # the well-behaved connection is undisturbed: it still gets its stored rows and a live event
    for _ in range(4):
        if (1, "w") in d.running_subs():
            await d.row(1, "w")
    await d.msg(1, ["EVENT", evs[3]])
    while d.pending:
        await d.notify(0)
    tr = d.transcripts()
    ops, regs, npending = d.ops, d.registries, len(d.pending)
    health = await d.finish()
    cfg = {"sub_limit": d.sub_limit, "max_limit": d.max_limit, "kv": backend != "sql", "auth": False}
    return {"cfg": cfg, "ops": ops}, {"transcripts": tr, "registries": regs, "pending": npending}, health


def suite_hostile(tier, seed, backend="sql", pid="RELAY"):
    s = Suite("trace:hostile-%s" % backend)
    s.rule = ("typed-mutation grammar: every JSON type at every position of EVENT/REQ/CLOSE/AUTH frames and of the event and filter "
              "objects (bounded-exhaustive single mutations), invalid JSON texts; each hostile frame is followed by a well-formed probe REQ "
              "(must be answered by its stored row and EOSE) on the same connection if it was kept open, while a second well-behaved "
              "connection keeps a subscription; transcripts, registries, escaped exceptions and leaked registrations are checked")
    rng = rng_for(seed, "hostile-" + backend)
    evs = [env.mk_event(i % 3, 1, env.NOW - 50 + i, [["t", "x"]], "h%d" % i) for i in range(5)]
    frames = hostile_frames(rng, evs)
    if tier == "quick":
        frames = rng.sample(frames, 260)
    rng.shuffle(frames)
    cases, impls, healths = [], [], []
    for i in range(0, len(frames), 6):
        case, impl, health = env.run(hostile_scenario(rng, backend, frames[i:i + 6], evs))
        cases.append(case)
        impls.append(impl)
        healths.append(health)
    for t in ["{", "", "[1,", "nul", "[\"REQ\"", "\x00", "[" * 5000 + "]" * 5000, "\"" + "a" * 1000000 + "\""]:
        async def one(t=t):
            d = Driver(backend)
            await d.start()
            await d.open(0)
            await d.msg(0, text=t)
            await d.msg(0, ["REQ", "probe", {"kinds": [1]}])
            for _ in range(2):
                if (0, "probe") in d.running_subs():
                    await d.row(0, "probe")
            tr = d.transcripts()
            ops, regs, npending = d.ops, d.registries, len(d.pending)
            health = await d.finish()
            return {"cfg": {"sub_limit": d.sub_limit, "max_limit": d.max_limit, "kv": backend != "sql", "auth": False}, "ops": ops}, \
                   {"transcripts": tr, "registries": regs, "pending": npending}, health
        case, impl, health = env.run(one())
        cases.append(case)
        impls.append(impl)
        healths.append(health)
    outs = model_batch("relay.run", cases, pid=pid)
    for case, impl, health, mo in zip(cases, impls, healths, outs):
        compare(s, case, impl, health, mo)
    return s


def replay(payload, pid):
    """re-run the recorded schedule's message sequence is not possible without the gates' timing; the replay
    file carries the full operation list: it is re-executed through the model and printed for inspection,
    and live-matching violations are re-evaluated on the implementation."""
    v = payload.get("violation") or {}
    if v.get("cls") == "live-matching-deviates":
        from aionostr.event import Event
        from nostr_relay.storage.base import BaseSubscription, NostrQuery
        env.load_config()
        c = v["case"]
        qs = [NostrQuery.model_validate(dict(f)) for f in c["filters"]]
        io = bool(BaseSubscription.check_event(None, Event(**c["event"]), qs))
        mo = model_batch("relay.live", [{"filters": [filter_fields(q) for q in qs], "event": c["event"]}], pid=pid)[0]
        print("implementation:", io, "NIP-01:", mo)
        print("replay:", "FAIL" if io != mo else "pass")
        return 1 if io != mo else 0
    print(json.dumps(payload, indent=1)[:4000])
    return 0


# ------------------------------------------------------------------ bounded-exhaustive interleavings (thorough)
def suite_exhaustive(tier, seed, backend="sql", pid="RELAY"):
    """For fixed short message scripts on two connections, every choice of up to two background steps
    (a query-task step or a pending notify task, or nothing) after each message: 3^(2k) schedules per script."""
    import itertools
    s = Suite("trace:exhaustive-%s" % backend)
    s.rule = ("fixed scripts of 3 messages over {REQ s F, REQ s F' (replacement), CLOSE s, EVENT e} on two connections; after every message two "
              "slots each filled with one of the enabled background steps (query-task row step of any registered running subscription, any "
              "pending notify task) or nothing: all 3^6 slot assignments per script, each a fresh run of the real code under gates")
    evs = [env.mk_event(i % 3, 1, env.NOW - 50 + i, [["t", "x" if i % 2 else "y"]], "x%d" % i) for i in range(4)]
    F1 = {"kinds": [1]}
    F2 = {"#t": ["x"]}
    scripts = [
        [(0, ["REQ", "s", F1]), (1, ["EVENT", evs[2]]), (0, ["REQ", "s", F2])],
        [(0, ["REQ", "s", F1]), (1, ["EVENT", evs[2]]), (0, ["CLOSE", "s"])],
        [(0, ["REQ", "s", F2]), (0, ["EVENT", evs[3]]), (1, ["REQ", "s", F1])],
        [(1, ["EVENT", evs[2]]), (0, ["REQ", "a", F1]), (1, ["EVENT", evs[3]])],
    ]
    scripts = scripts[:1] if tier != "thorough" else scripts[:3]
    cases, impls, healths = [], [], []

    async def one(script, slots):
        d = Driver(backend, sub_limit=2, max_limit=50)
        await d.start()
        await d.open(0)
        await d.open(1)
        await d.msg(1, ["EVENT", evs[0]])
        await d.msg(1, ["EVENT", evs[1]])
        it = iter(slots)
        for (c, m) in script:
            await d.msg(c, m)
            for _ in range(2):
                ch = next(it, 0)
                acts = [("row",) + rs for rs in d.running_subs()] + [("notify", i) for i in range(len(d.pending))]
                if ch == 0 or not acts:
                    continue
                a = acts[(ch - 1) % len(acts)]
                if a[0] == "row":
                    await d.row(a[1], a[2])
                else:
                    await d.notify(a[1])
        while d.pending:
            await d.notify(0)
        for _ in range(50):
            rs = d.running_subs()
            if not rs:
                break
            await d.row(*rs[0])
        tr = d.transcripts()
        ops, regs, npending = d.ops, d.registries, len(d.pending)
        health = await d.finish()
        return {"cfg": {"sub_limit": 2, "max_limit": 50, "kv": backend != "sql", "auth": False}, "ops": ops}, \
               {"transcripts": tr, "registries": regs, "pending": npending}, health
    B = 3 if tier == "thorough" else 2
    for script in scripts:
        for slots in itertools.product(range(B), repeat=(2 * len(script) if tier != "thorough" else 4)):
            case, impl, health = env.run(one(script, slots))
            cases.append(case)
            impls.append(impl)
            healths.append(health)
    outs = model_batch("relay.run", cases, pid=pid)
    for case, impl, health, mo in zip(cases, impls, healths, outs):
        compare(s, case, impl, health, mo)
    return s


# ------------------------------------------------------------------ directed scripts
def suite_scripted(tier, seed, backend="sql", pid="RELAY"):
    """short directed message scripts (re-REQ with only unusable filters, replacement, limit 0, the subscription limit) with and
    without background steps, against the model"""
    s = Suite("trace:scripted-%s" % backend)
    s.rule = ("directed scripts on two connections: REQ s F then REQ s with only unusable filters then a matching EVENT; REQ s twice then CLOSE then "
              "EVENT; three subscriptions under a limit of two; filters with limit 0 alone and next to others; CLOSE of an id never opened; each run "
              "with no background step, with every query task stepped to its end at once, and with one step between messages; transcripts, registry "
              "and pending tasks vs the relay model")
    evs = [env.mk_event(i % 3, 1, env.NOW - 50 + i, [["t", "x" if i % 2 else "y"]], "sc%d" % i) for i in range(6)]
    F1, F2 = {"kinds": [1]}, {"#t": ["x"]}
    BAD = [{"kinds": "x"}, {"ids": ["zz"]}, 5, {"since": -1}]
    scripts = [
        [(0, ["REQ", "s", F1]), (1, ["EVENT", evs[2]]), (0, ["REQ", "s", BAD[0]]), (1, ["EVENT", evs[3]])],
        [(0, ["REQ", "s", F1]), (0, ["REQ", "s", BAD[1], BAD[3]]), (1, ["EVENT", evs[3]]), (0, ["CLOSE", "s"]), (1, ["EVENT", evs[4]])],
        [(0, ["REQ", "s", F1]), (0, ["REQ", "s", F1]), (1, ["EVENT", evs[2]]), (0, ["CLOSE", "s"]), (1, ["EVENT", evs[3]])],
        [(0, ["REQ", "a", F1]), (0, ["REQ", "b", F2]), (0, ["REQ", "c", F1]), (1, ["EVENT", evs[3]]), (0, ["REQ", "a", BAD[2]]), (1, ["EVENT", evs[5]])],
        [(0, ["REQ", "z", {"kinds": [1], "limit": 0}]), (1, ["EVENT", evs[2]]), (0, ["REQ", "m", {"kinds": [7], "limit": 0}, {"kinds": [1], "limit": 10}]), (1, ["EVENT", evs[3]])],
        [(0, ["CLOSE", "never"]), (0, ["REQ", "s", F2]), (0, ["CLOSE", "other"]), (1, ["EVENT", evs[3]])],
    ]
    cases, impls, healths = [], [], []

    async def one(script, mode):
        d = Driver(backend, sub_limit=2, max_limit=50)
        await d.start()
        await d.open(0)
        await d.open(1)
        await d.msg(1, ["EVENT", evs[0]])
        await d.msg(1, ["EVENT", evs[1]])
        for (c, m) in script:
            await d.msg(c, m)
            steps = {"none": 0, "one": 1, "all": 50}[mode]
            for _ in range(steps):
                rs = d.running_subs()
                if not rs:
                    break
                await d.row(*rs[0])
            if mode != "none":
                while d.pending:
                    await d.notify(0)
        while d.pending:
            await d.notify(0)
        for _ in range(50):
            rs = d.running_subs()
            if not rs:
                break
            await d.row(*rs[0])
        tr = d.transcripts()
        ops, regs, npending = d.ops, d.registries, len(d.pending)
        health = await d.finish()
        return {"cfg": {"sub_limit": 2, "max_limit": 50, "kv": backend != "sql", "auth": False}, "ops": ops}, \
               {"transcripts": tr, "registries": regs, "pending": npending}, health
    for script in scripts:
        for mode in ("none", "one", "all"):
            case, impl, health = env.run(one(script, mode))
            cases.append(case)
            impls.append(impl)
            healths.append(health)
    outs = model_batch("relay.run", cases, pid=pid)
    for case, impl, health, mo in zip(cases, impls, healths, outs):
        compare(s, case, impl, health, mo)
    return s


# ------------------------------------------------------------------ concurrent duplicate submission
def suite_concurrent_dup(tier, seed, backends=("sql",)):
    """the same event submitted by several connections at the same moment: exactly one submission is
    acknowledged as new and every matching subscription gets the event exactly once"""
    s = Suite("oracle:concurrent-duplicates")
    s.rule = ("k in 2..4 simultaneous add_event calls (asyncio.gather) of one signed event with one matching and one non-matching "
              "subscription open; expected: exactly one True, one live frame for the matching subscription, none for the other, one stored copy")
    rng = rng_for(seed, "condup")

    async def one(backend, k, kind):
        env.load_config()
        env.patch_clock()
        sc = env.Scratch()
        st = await (env.sql_storage(sc) if backend == "sql" else env.kv_storage(sc))
        q1, q2 = asyncio.Queue(), asyncio.Queue()
        await st.subscribe(env.FakeClient("a"), "s", [{"kinds": [kind]}], q1)
        await st.subscribe(env.FakeClient("b"), "t", [{"kinds": [kind + 1]}], q2)
        await env.drain_to_eose(q1)
        await env.drain_to_eose(q2)
        e = env.mk_event(rng.randrange(3), kind, env.NOW - 5, [["t", "x"]], "dup%d" % rng.randrange(10 ** 6))

        async def sub():
            try:
                return bool((await st.add_event(dict(e)))[1])
            except Exception as ex:
                return type(ex).__name__
        res = await asyncio.gather(*[sub() for _ in range(k)])
        await env.quiesce(st)
        for _ in range(5):
            for t in list(st._notify_sub_tasks):
                try:
                    await t
                except Exception:
                    pass
            await asyncio.sleep(0)
        live1 = sum(1 for _ in range(q1.qsize()) if (lambda it: it[1] is not None and it[1].id == e["id"])(q1.get_nowait()))
        live2 = sum(1 for _ in range(q2.qsize()) if (lambda it: it[1] is not None and it[1].id == e["id"])(q2.get_nowait()))
        stored = (await env.stored_ids(st)).count(e["id"])
        await env.close(st)
        sc.close()
        return {"backend": backend, "k": k, "kind": kind, "event": e["id"]}, {"results": res, "live_match": live1, "live_other": live2, "stored": stored}
    for backend in backends:
        for i in range(6 if tier == "quick" else 40):
            k = rng.choice([2, 3, 4])
            case, obs = env.run(one(backend, k, rng.choice([1, 7])))
            s.case(case, nontrivial=True)
            s.count("backend_" + backend)
            ok = obs["results"].count(True) == 1 and obs["live_match"] == 1 and obs["live_other"] == 0 and obs["stored"] == 1
            if not ok:
                s.violate("%s_concurrent_duplicate" % backend, case,
                          "simultaneous submissions of one event: expected one acknowledgement as new and one live delivery",
                          expected={"results_true": 1, "live_match": 1, "live_other": 0, "stored": 1}, observed=obs)
    return s
