"""SQL backend (nostr_relay/storage/db.py on file-backed SQLite): implementation drivers,
generators and correspondence / oracle suites of the SQL halves of C09, C08, C17, C07, C06,
C01, C12, C02, C11.  The model is coq/SQLM (extracted to build/SQLM/modeld).

Public: suites_c09(tier, seed) ... suites_c11(tier, seed) -> [Suite]; replay(payload)."""
import asyncio
import itertools
import json
import re

from . import common, env
from .common import Suite, model_batch, rng_for

PID = "SQLM"
NOW = env.NOW
ASSUMPTIONS = [
    "SQLite's evaluation of a parsed statement (IN, sub-select, ORDER BY/LIMIT, CAST/GLOB, ON DELETE CASCADE, INSERT OR IGNORE, "
    "rollback) is modelled in coq/SQLM/Rel.v, Where.v and pinned by the correspondence suites, not verified",
    "validators and Authenticator.can_do enter the write model as booleans (harness: flag validator / patched can_do)",
    "events submitted to the SQL write model are admitted events (string tags); filters are the fields of the real "
    "NostrQuery.model_validate result",
    "PostgreSQL branches (is_postgres) are never executed",
]

_REJECT = set()


def flag_validator(event, config):
    """validator used by the harness: the abstract boolean `valid` of the write model"""
    from nostr_relay.errors import StorageError
    if event.id in _REJECT:
        raise StorageError("invalid: flagged by the harness")


def m(suite, cases):
    return model_batch(suite, cases, pid=PID)


# ----------------------------------------------------------------------------- driver
STMT_PATTERNS = [
    (re.compile(r"^SELECT events\.id FROM events WHERE events\.id = \?$"), "select_by_id"),
    (re.compile(r"^SELECT events\.id, events\.created_at, events\.tags FROM events WHERE events\.pubkey = \? AND events\.kind = \? AND events\.created_at < \?$"), "select_older"),
    (re.compile(r"^DELETE FROM events WHERE events\.id IN \((\?(, \?)*)\)$"), "delete_ids"),
    (re.compile(r"^DELETE FROM events WHERE events\.id = \?$"), "delete_ids"),
    (re.compile(r"^INSERT OR IGNORE INTO events \(id, created_at, kind, pubkey, tags, sig, content\) VALUES \(\?, \?, \?, \?, \?, \?, \?\)$"), "insert_event"),
    (re.compile(r"^DELETE FROM events WHERE events\.pubkey = \? AND events\.kind = \? AND events\.created_at < \?$"), "delete_older"),
    (re.compile(r"^INSERT OR IGNORE INTO tags \(id, name, value\) VALUES \(\?, \?, \?\)$"), "insert_tags"),
    (re.compile(r"^DELETE FROM events WHERE events\.pubkey = \? AND events\.id = \?$"), "delete_own"),
]


def _b(x):
    return bytes(x) if isinstance(x, (bytes, bytearray, memoryview)) else x


def canon_stmt(stmt, params, many):
    s = " ".join(stmt.split())
    for rx, kind in STMT_PATTERNS:
        if rx.match(s):
            if kind == "select_by_id":
                return [kind, _b(params[0])]
            if kind in ("select_older", "delete_older"):
                return [kind, _b(params[0]), params[1], params[2]]
            if kind == "delete_ids":
                return [kind, sorted(_b(p) for p in params)]
            if kind == "insert_event":
                p = params
                return [kind, [_b(p[0]), p[1], p[2], _b(p[3]), json.loads(p[4]), _b(p[5]), p[6]]]
            if kind == "insert_tags":
                rows = params if many else [params]
                return [kind, sorted([_b(r[0]), r[1], r[2]] for r in rows)]
            if kind == "delete_own":
                return [kind, _b(params[0]), _b(params[1])]
    return ["unknown", s]


def canon_model_trace(tr):
    out = []
    for t in tr:
        if t[0] == "delete_ids":
            out.append([t[0], sorted(t[1])])
        elif t[0] == "insert_tags":
            out.append([t[0], sorted(t[1])])
        else:
            out.append(t)
    return out


def canon_db(d):
    return {"events": sorted(d["events"]), "tags": sorted(d["tags"])}


class SqlDriver:
    """One DBStorage on a scratch SQLite file with SQLAlchemy listeners."""

    def __init__(self):
        self.scratch = None
        self.st = None
        self.trace = []
        self.recording = False
        self.fault_at = None
        self.nstmt = 0
        self.fault_fired = False
        self.sql_log = None          # when a list: raw (statement, params) of every cursor execution
        self._ro = None

    async def open(self, **config):
        import sqlalchemy as sa
        env.load_config(**config)
        env.patch_clock()
        # Event.__init__ (aionostr) replaces created_at == 0 by int(time.time()): same injected clock
        import types
        import aionostr.event as _ae
        _ae.time = types.SimpleNamespace(time=env._now)
        self.scratch = env.Scratch()
        self.st = await env.sql_storage(self.scratch, validators=["harness.sqlm.flag_validator"])
        st = self.st
        eng = st.db.sync_engine
        drv = self

        def before(conn, cur, stmt, params, ctx, many):
            if drv.sql_log is not None:
                drv.sql_log.append((stmt, params))
            if not drv.recording:
                return
            k = drv.nstmt
            drv.nstmt += 1
            drv.trace.append(canon_stmt(stmt, params, many))
            if drv.fault_at is not None and k == drv.fault_at:
                drv.fault_fired = True
                raise sa.exc.OperationalError(stmt, params, Exception("injected by the harness"))

        sa.event.listen(eng, "before_cursor_execute", before)
        sa.event.listen(eng, "begin", lambda conn: drv.recording and drv.trace.append(["begin"]))
        sa.event.listen(eng, "commit", lambda conn: drv.recording and drv.trace.append(["commit"]))
        sa.event.listen(eng, "rollback", lambda conn: drv.recording and drv.trace.append(["rollback"]))
        real_notify = st.notify_all_connected

        async def notify(event):
            if drv.recording:
                drv.trace.append(["notify"])
            return await real_notify(event)
        st.notify_all_connected = notify
        self.can = True

        async def can_do(token, action, target=None):
            return drv.can
        st.authenticator.can_do = can_do
        return self

    async def close(self):
        if self._ro is not None:
            self._ro.close()
        await env.close(self.st)
        self.scratch.close()

    async def reset(self):
        import sqlalchemy as sa
        async with self.st.db.begin() as conn:
            await conn.execute(sa.text("DELETE FROM tags"))
            await conn.execute(sa.text("DELETE FROM events"))

    async def dump(self):
        # a second, synchronous connection to the same database file (committed state only)
        if self._ro is None:
            import sqlite3
            self._ro = sqlite3.connect(self.st.db.url.database, isolation_level=None)
        evr = self._ro.execute("SELECT id, created_at, kind, pubkey, tags, sig, content FROM events").fetchall()
        tgr = self._ro.execute("SELECT id, name, value FROM tags").fetchall()
        ev = [[bytes(r[0]), r[1], r[2], bytes(r[3]), (json.loads(r[4]) if isinstance(r[4], str) else r[4]), bytes(r[5]), r[6]]
              for r in evr]
        tg = [[bytes(r[0]), r[1], r[2]] for r in tgr]
        return canon_db({"events": ev, "tags": tg})

    async def add(self, ev, valid=True, can=True, fault=None):
        """-> (out, trace, faulted)   out: True | False | exception class name"""
        _REJECT.clear()
        if not valid:
            _REJECT.add(ev["id"])
        self.can = can
        self.trace, self.nstmt, self.fault_at, self.fault_fired = [], 0, fault, False
        self.recording = True
        try:
            if getattr(self, "wedged", False):
                raise asyncio.TimeoutError()
            e, changed = await asyncio.wait_for(self.st.add_event(json.loads(json.dumps(ev))), 15)
            out = bool(changed)
        except asyncio.TimeoutError:
            # add_event never returned (e.g. a slot leaked by an earlier failed event): "a failure while applying one
            # event must not prevent later events from being applied" - reported as a different outcome than the model's
            self.wedged = True
            out = "WEDGED: add_event did not return within 15 s"
        except Exception as ex:
            out = type(ex).__name__
        finally:
            self.recording = False
            self.fault_at = None
        return out, self.trace, self.fault_fired

    async def gc(self, now):
        from nostr_relay.storage.db import QueryGarbageCollector
        env.set_clock(now)
        gc = QueryGarbageCollector(self.st)
        await gc.run_once()
        env.set_clock(NOW)


# ----------------------------------------------------------------------------- histories
def step_add(ev, valid=True, can=True, fault=None):
    return {"op": "add", "ev": ev, "valid": valid, "can": can, "fault": fault}


def step_gc(now):
    return {"op": "gc", "now": now}


async def impl_history(drv, steps):
    """Run a history on the implementation: per step {out, trace, db, faulted}."""
    await drv.reset()
    env.set_clock(NOW)
    obs = []
    for s in steps:
        if s["op"] == "gc":
            before = None
            await drv.gc(s["now"])
            obs.append({"out": None, "trace": [["gc", s["now"]]], "db": await drv.dump(), "faulted": False})
        else:
            out, trace, faulted = await drv.add(s["ev"], s["valid"], s["can"], s["fault"])
            obs.append({"out": out, "trace": trace, "db": await drv.dump(), "faulted": faulted})
    return obs


WRITE_CLASS_PROPS = {
    "replace_keeps_older": "C09", "store_frame_broken": "C09", "delete_ineffective": "C08", "tags_incoherent": "C06",
    "non_atomic": "C07", "ack_true_not_stored": "C06", "valid_event_refused": "C06", "refused_left_trace": "C06",
    "resubmission_changed_store": "C06", "accepted_not_notified": "C06", "gc_not_exact": "C17",
    "deleted_still_served": "C08", "notify_before_commit": "C07", "not_one_transaction": "C07",
}


def run_histories(suite, histories, classes=None, nontrivial=None, compare_trace=True):
    """Correspondence of full observations after every step + the executable statements on the
    implementation's observations. `classes`: oracle classes this suite reports (None = all)."""
    async def go():
        drv = await SqlDriver().open()
        try:
            return [await impl_history(drv, h) for h in histories]
        finally:
            await drv.close()
    impl = env.run(go())
    model = m("sqlm.history", [{"now": NOW, "steps": h} for h in histories])
    ocases, oidx = [], []
    for hi, (h, io) in enumerate(zip(histories, impl)):
        before = {"events": [], "tags": []}
        for si, (s, o) in enumerate(zip(h, io)):
            if s["op"] == "gc":
                ocases.append(("sqlm.oracle_gc", {"before": before, "after": o["db"], "now": s["now"]}))
            else:
                ocases.append(("sqlm.oracle_write", {
                    "before": before, "after": o["db"], "ev": s["ev"], "now": NOW, "valid": s["valid"], "can": s["can"],
                    "out": o["out"], "notified": ["notify"] in o["trace"], "faulted": o["faulted"],
                    "trace_kinds": [t[0] if t[0] in ("begin", "commit", "rollback", "notify") else "stmt" for t in o["trace"]]}))
            oidx.append((hi, si))
            before = o["db"]
    verdicts = [None] * len(ocases)
    for name in ("sqlm.oracle_write", "sqlm.oracle_gc"):
        idx = [i for i, c in enumerate(ocases) if c[0] == name]
        for i, v in zip(idx, m(name, [ocases[i][1] for i in idx])):
            verdicts[i] = v
    by_hist = {}
    for (hi, si), v in zip(oidx, verdicts):
        by_hist.setdefault(hi, []).append((si, v))
    for hi, (h, io, mo) in enumerate(zip(histories, impl, model)):
        nt = nontrivial(h, io) if nontrivial else any(o["out"] is True for o in io)
        suite.case({"steps": h[:3], "n_steps": len(h)}, nontrivial=nt)
        suite.count("len_%d" % min(len(h), 20))
        for s, o in zip(h, io):
            if s["op"] == "add":
                suite.count("out_%s" % o["out"])
                suite.count("kind_%s" % kind_class(s["ev"]["kind"]))
                if s["fault"] is not None:
                    suite.count("fault_fired" if o["faulted"] else "fault_beyond_end")
            else:
                suite.count("gc_pass")
        # correspondence, step by step
        for si, (s, o, x) in enumerate(zip(h, io, mo)):
            mdb = canon_db(x["db"])
            mout = x["out"]
            iout = o["out"]
            if s["op"] == "gc":
                mout = iout = None
            mtrace = canon_model_trace(x["trace"])
            if mout != iout or mdb != o["db"] or (compare_trace and mtrace != o["trace"]):
                what = "out" if mout != iout else ("db" if mdb != o["db"] else "trace")
                suite.disagree({"steps": h[: si + 1], "step": si, "differs": what},
                               {"out": mout, "trace": mtrace, "db": mdb} if what != "db" else {"db": mdb},
                               {"out": iout, "trace": o["trace"], "db": o["db"]} if what != "db" else {"db": o["db"]})
                break
        # executable statements on the implementation's observations
        for si, v in by_hist.get(hi, []):
            for cls in v:
                if classes is None or cls in classes:
                    suite.violate(cls, {"steps": h[: si + 1], "step": si},
                                  "%s: %s violated by the SQL backend at step %d" % (WRITE_CLASS_PROPS.get(cls, "?"), cls, si),
                                  observed={"out": io[si]["out"], "stored_ids_after": [r[0].hex()[:8] for r in io[si]["db"]["events"]]})
    return impl


def kind_class(k):
    if k in (0, 3):
        return "meta"
    if k == 5:
        return "delete"
    if 10000 <= k < 20000:
        return "replaceable"
    if 20000 <= k < 30000:
        return "ephemeral"
    if 30000 <= k < 40000:
        return "param"
    return "regular"


# ----------------------------------------------------------------------------- generators (write path)
KINDS = [0, 1, 3, 5, 7, 10000, 19999, 20000, 29999, 30000, 30001, 39999, 40000]
DVALS = [None, "bare", "", "a", "ab", "abc", "ü"]
_EV_CACHE = {}


def ev(who, kind, ts, tags=(), content=""):
    key = (who, kind, ts, json.dumps(tags), content)
    if key not in _EV_CACHE:
        _EV_CACHE[key] = env.mk_event(who, kind, ts, tags=[list(t) for t in tags], content=content, sign=False)
    return dict(_EV_CACHE[key])


def dtag(d):
    if d is None:
        return []
    if d == "bare":
        return [["d"]]
    return [["d", d]]


def gen_event(rng, pool, ts_grid):
    who = rng.randrange(3)
    kind = rng.choice(KINDS)
    ts = rng.choice(ts_grid)
    tags = []
    if 30000 <= kind < 40000 or rng.random() < 0.15:
        tags += dtag(rng.choice(DVALS))
        if rng.random() < 0.2:
            tags += dtag(rng.choice(DVALS))       # a second d tag: only the first one names the address
    r = rng.random()
    if r < 0.25:
        tags.append(["t", rng.choice(["x", "y", "", "it's"])])
    elif r < 0.35:
        tags.append(["p", env.PUBS[rng.randrange(3)], "extra"])
    elif r < 0.40:
        tags.append(["t"])
    elif r < 0.45:
        tags.append(["title", "long name"])
    elif r < 0.50:
        tags.append(["expiration", str(NOW + rng.choice([-5, 5]))])
    if rng.random() < 0.1 and tags:
        tags.append(list(tags[0]))          # duplicate tag
    if kind == 5:
        tags = gen_refs(rng, who, pool)
    return ev(who, kind, ts, tags, content=rng.choice(["", "c", "c2"]))


def gen_refs(rng, who, pool):
    """e tags referencing own / foreign / unknown / malformed / duplicate ids"""
    tags = []
    for _ in range(rng.randint(1, 4)):
        r = rng.random()
        if r < 0.65 and pool:
            x = rng.choice(pool)
            tags.append(["e", x["id"]])
        elif r < 0.72:
            tags.append(["e", "ab" * 32])
        elif r < 0.78:
            tags.append(["e", rng.choice(["zz", "abc", "", "0x12", "éé"])])
        elif r < 0.82:
            tags.append(["e"])
        elif r < 0.88 and pool:
            tags.append(["e", rng.choice(pool)["id"].upper()])
        elif r < 0.92 and pool:
            x = rng.choice(pool)["id"]
            tags.append(["e", x[:32] + " " + x[32:]])
        elif tags:
            tags.append(list(tags[-1]))
        else:
            tags.append(["p", env.PUBS[who]])
    return tags


def gen_history(rng, n, ts_grid=(10, 20, 20, 30, 40)):
    pool, steps = [], []
    for _ in range(n):
        r = rng.random()
        if r < 0.12 and pool:
            e = dict(rng.choice(pool))          # resubmission
        else:
            e = gen_event(rng, pool, ts_grid)
        pool.append(e)
        steps.append(step_add(e, valid=rng.random() > 0.04, can=rng.random() > 0.04))
    return steps


def orders_histories(events_sets, maxlen=4):
    out = []
    for evs in events_sets:
        for perm in itertools.permutations(evs):
            out.append([step_add(e) for e in perm])
    return out


def c09_universe_sets(rng, tier):
    """small subsets sharing author+kind: all arrival orders"""
    sets = []
    # the classical witness 10, 5, 20 for each replaceable class
    for kind in (0, 3, 10000, 19999):
        sets.append([ev(0, kind, t) for t in (10, 5, 20)])
    for kind in (30000, 39999):
        sets.append([ev(0, kind, t, dtag("a")) for t in (10, 5, 20)])
    n = 14 if tier == "quick" else 150
    for _ in range(n):
        kind = rng.choice([0, 3, 1, 10000, 19999, 20000, 30000, 39999, 40000])
        who = rng.randrange(2)
        k = rng.choice([2, 3, 3, 4])
        evs = []
        for i in range(k):
            d = rng.choice(DVALS) if 30000 <= kind < 40000 else rng.choice([None, None, "a"])
            kk = kind if rng.random() < 0.85 else rng.choice([1, 10000, 30000])
            ww = who if rng.random() < 0.85 else 1 - who
            dt = dtag(d)
            if 30000 <= kind < 40000 and rng.random() < 0.25:
                dt = dt + dtag(rng.choice(DVALS))     # a second d tag: only the first one names the address
            evs.append(ev(ww, kk, rng.choice([10, 20, 20, 30]), dt, content="v%d" % i))
        sets.append(evs)
    return sets


def c08_sets(rng, tier):
    """deletion events referencing own older/newer/same-second, foreign, unknown, non-hex, short, duplicate ids"""
    sets = []
    n = 12 if tier == "quick" else 200
    for _ in range(n):
        a, b = rng.sample(range(3), 2)
        own_old, own_new, own_same = ev(a, 1, 10, content="o"), ev(a, 1, 30, content="n"), ev(a, 1, 20, content="s")
        foreign = ev(b, 1, 10, content="f")
        base = rng.sample([own_old, own_new, own_same, foreign], rng.randint(1, 3))
        refs = []
        for x in rng.sample([own_old, own_new, own_same, foreign], rng.randint(1, 4)):
            refs.append(["e", x["id"]])
        extra = rng.choice([[], [["e", "cd" * 32]], [["e", "zz"]], [["e"]], [["e", "abc"]], [list(refs[0])],
                            [["e", refs[0][1].upper()]], [["p", env.PUBS[a]]]])
        d = ev(a, 5, 20, refs + extra, content="del")
        sets.append(base + [d])
    return sets


# ----------------------------------------------------------------------------- suites: write path
def suites_c09(tier, seed):
    rng = rng_for(seed, "sqlm-c09")
    s1 = Suite("corr:sql-submit/replace-orders")
    s1.rule = ("all arrival orders of subsets of 2-4 events sharing author+kind over kinds {0,3,1,10000,19999,20000,30000,39999,40000} x "
               "d in {absent,bare,'',a,ab,abc,u-umlaut} x timestamps with ties (plus the 10,5,20 witness per class); dumps of both tables, "
               "outcome and statement trace compared with the model after every submission; C09 statement evaluated on the "
               "implementation's dumps; non-trivial = a submission removed at least one stored event")
    hs = orders_histories(c09_universe_sets(rng, tier))
    run_histories(s1, hs, classes={"replace_keeps_older", "store_frame_broken", "tags_incoherent"}, nontrivial=removed_something)
    s2 = Suite("corr:sql-submit/replace-random")
    s2.rule = "random histories (8-25 submissions) over 3 authors x 13 kinds x d-values x timestamp grid with resubmissions; as above"
    n = 25 if tier == "quick" else 400
    hs = [gen_history(rng, rng.randint(8, 25)) for _ in range(n)]
    run_histories(s2, hs, classes={"replace_keeps_older", "store_frame_broken", "tags_incoherent"}, nontrivial=removed_something)
    return [s1, s2]


def removed_something(h, io):
    prev = set()
    for o in io:
        cur = {r[0] for r in o["db"]["events"]}
        if prev - cur:
            return True
        prev = cur
    return False


def suites_c08(tier, seed):
    rng = rng_for(seed, "sqlm-c08")
    s1 = Suite("corr:sql-submit/delete-orders")
    s1.rule = ("every arrival order of <= 4 events of 2 authors plus a kind-5 event referencing combinations of own older/newer/"
               "same-second, foreign, unknown, non-hex, short, duplicate, upper-case ids; dumps/outcome/trace vs model; C08 frame and "
               "effectiveness evaluated on the implementation's dumps; removed ids queried through REQ and get_event; "
               "non-trivial = a deletion removed something")
    hs = orders_histories(c08_sets(rng, tier))
    impl = run_histories(s1, hs, classes={"delete_ineffective", "store_frame_broken", "tags_incoherent"}, nontrivial=removed_something)
    s2 = Suite("oracle:sql-deleted-unreachable")
    s2.rule = "after histories with deletions: every id a kind-5 event removed is absent from REQ {ids:[id]} and DBStorage.get_event"
    check_unreachable(s2, [h for h in hs][: (60 if tier == "quick" else 600)])
    s3 = Suite("corr:sql-submit/delete-then-gc")
    s3.rule = ("threads: notes of two authors, replies and reactions of the other author that e-tag them, a kind-5 of one author that references "
               "one of its notes (and a foreign one), then a collector pass, a later reply, another pass: nothing but what the deletion referenced "
               "(and nothing at all during the passes: no event expires) may disappear; dumps vs model; C08 frame on the implementation's dumps; "
               "non-trivial = a deletion removed something and a pass ran afterwards")
    hs3 = []
    for _ in range(12 if tier == "quick" else 150):
        a, b = rng.sample(range(3), 2)
        notes = [ev(a, 1, 10 + i, [["t", "n"]], content="note%d" % i) for i in range(rng.randint(2, 4))]
        other = [ev(b, 1, 20 + i, [], content="other%d" % i) for i in range(rng.randint(1, 2))]
        replies = [ev(rng.choice([a, b]), rng.choice([1, 7]), 30 + i, [["e", rng.choice(notes + other)["id"]], ["p", env.PUBS[a]]], content="re%d" % i)
                   for i in range(rng.randint(2, 5))]
        dele = ev(a, 5, 50, [["e", notes[0]["id"]]] + ([["e", other[0]["id"]]] if rng.random() < 0.5 else []), content="bye")
        late = ev(b, 1, 60, [["e", notes[-1]["id"]]], content="late")
        steps = [step_add(e) for e in notes + other + replies]
        rng.shuffle(steps)
        hs3.append(steps + [step_add(dele), step_gc(NOW), step_add(late), step_gc(NOW + 400)])
    run_histories(s3, hs3, classes={"delete_ineffective", "store_frame_broken", "tags_incoherent", "gc_not_exact"}, nontrivial=removed_something)
    return [s1, s2, s3]


def check_unreachable(suite, histories):
    async def go():
        drv = await SqlDriver().open()
        res = []
        try:
            for h in histories:
                io = await impl_history(drv, h)
                seen, cur = set(), set()
                for o in io:
                    now_ids = {r[0] for r in o["db"]["events"]}
                    seen |= now_ids
                    cur = now_ids
                gone = sorted(seen - cur)
                bad = []
                for i in gone:
                    evs, oc = await env.req(drv.st, [{"ids": [i.hex()]}])
                    g = await drv.st.get_event(i.hex())
                    if evs or g is not None:
                        bad.append(i.hex())
                res.append((len(gone), bad))
        finally:
            await drv.close()
        return res
    for h, (ngone, bad) in zip(histories, env.run(go())):
        suite.case({"steps": h[:2], "n_steps": len(h)}, nontrivial=ngone > 0)
        suite.count("removed_%d" % min(ngone, 5))
        if bad:
            suite.violate("deleted_still_served", {"steps": h}, "C08: a removed event is still served by REQ/get_event", observed=bad)


def suites_c06(tier, seed):
    rng = rng_for(seed, "sqlm-c06")
    s = Suite("corr:sql-submit/ack")
    s.rule = ("random histories incl. resubmissions, refused validators/authorisation, deletions with malformed references, short "
              "delegation/expiration tags, integer extremes; (event, changed)/exception, dumps and traces vs model; C06 (b)-(e) "
              "evaluated on the implementation's observations; non-trivial = at least one accepted and one refused/duplicate submission")
    n = 60 if tier == "quick" else 800
    hs = [gen_history(rng, rng.randint(5, 20)) for _ in range(n)]
    # corner cases
    big = 2 ** 63
    a = ev(0, 1, 10, [["t", "x"]])
    hs += [
        [step_add(ev(0, 30000, 10)), step_add(ev(0, 30000, 20, dtag("a")))],                      # F12
        [step_add(ev(1, 10000, 20)), step_add(ev(1, 10000, 10)), step_add(ev(1, 10000, 20))],     # resubmission removes
        [step_add(a), step_add(ev(0, 5, 20, [["e", a["id"]], ["e", "zz"]]))],                     # malformed reference
        [step_add(ev(0, 1, 10, [["expiration"]])), step_add(ev(0, 1, 11, [["delegation"]]))],
        [step_add(ev(0, 1, big)), step_add(ev(0, big, 10)), step_add(ev(0, 1, -big)), step_add(ev(0, 1, big - 1))],
        [step_add(ev(0, 1, 10, [["t"]])), step_add(ev(0, 1, 11, [["t", ""]])), step_add(ev(0, 1, 12, [[]]))],
        [step_add(ev(0, 0, 0))],
    ]
    run_histories(s, hs, classes={"ack_true_not_stored", "valid_event_refused", "refused_left_trace", "resubmission_changed_store",
                                  "accepted_not_notified", "tags_incoherent"},
                  nontrivial=lambda h, io: any(o["out"] is True for o in io) and any(o["out"] is not True for o in io))
    return [s]


def suites_c07(tier, seed):
    rng = rng_for(seed, "sqlm-c07")
    s = Suite("corr:sql-fault")
    s.rule = ("for generated histories (events with 0-8 indexed tags, superseding 0-3 older versions, deleting 0-3 events): every "
              "statement index k of every event: OperationalError injected at the k-th cursor execution, dump compared with the "
              "model's prediction (= state before), history continued; BEGIN/COMMIT/ROLLBACK/notify order compared; "
              "non-trivial = a fault fired inside a transaction that had already executed a mutation")
    n = 7 if tier == "quick" else 70
    hs = []
    for _ in range(n):
        base = gen_history(rng, rng.randint(4, 9))
        for st in base:
            st["valid"] = st["can"] = True
        # number of statements per step from the model (no fault)
        mo = m("sqlm.history", [{"now": NOW, "steps": base}])[0]
        for i, x in enumerate(mo):
            nst = len([t for t in x["trace"] if t[0] not in ("begin", "commit", "rollback", "notify")])
            for k in range(nst + 1):
                h = [dict(s) for s in base[:i]] + [dict(base[i], fault=k)] + [dict(s) for s in base[i:]]
                hs.append(h)
    run_histories(s, hs, classes={"non_atomic", "tags_incoherent", "refused_left_trace", "notify_before_commit", "not_one_transaction"},
                  nontrivial=lambda h, io: any(o["faulted"] and len(o["trace"]) > 3 for o in io))
    return [s]


def gc_events(rng, T):
    vals = [str(T - 1), str(T), str(T + 1), str(10 ** 9 - 1), str(10 ** 10), "", "abc", "0123", "1e9", "-5", " 5", str(T - 1) + "x",
            "9" * 30, "0", "١٢"]
    evs = []
    for i in range(rng.randint(3, 9)):
        kind = rng.choice([1, 1, 19999, 20000, 29999, 30000])
        r = rng.random()
        if r < 0.55:
            tags = [["expiration", rng.choice(vals)]]
        elif r < 0.7:
            tags = [["expiration", rng.choice(vals)], ["expiration", rng.choice(vals)]]
        elif r < 0.8:
            tags = [["t", "x"], ["expiration", rng.choice(vals), "extra"]]
        else:
            tags = []
        evs.append(ev(rng.randrange(3), kind, 100 + i, tags, content="g%d" % i))
    # replies / reactions that e-tag stored events, and a deletion by some author: a pass must not take any of that for garbage
    for j in range(rng.randint(0, 3)):
        tgt = rng.choice(evs)
        evs.append(ev(rng.randrange(3), rng.choice([1, 7]), 200 + j, [["e", tgt["id"]], ["p", tgt["pubkey"]]], content="re%d" % j))
    if rng.random() < 0.5:
        tgt = rng.choice(evs)
        who = env.PUBS.index(tgt["pubkey"])
        evs.append(ev(who, 5, 300, [["e", tgt["id"]]], content="del"))
    return evs


def suites_c17(tier, seed):
    rng = rng_for(seed, "sqlm-c17")
    s = Suite("corr:sql-gc")
    s.rule = ("QueryGarbageCollector.run_once under the injected clock T on stores mixing kinds {1,19999,20000,29999,30000} with "
              "expiration values {T-1,T,T+1,10^9-1,10^10,'','abc','0123','1e9','-5',' 5',T-1 'x',30 nines,'0',arabic digits, two "
              "expiration tags, absent}; dumps before/after vs model; C17 statement evaluated on the implementation's dumps; "
              "non-trivial = the pass removed some but not all events")
    n = 40 if tier == "quick" else 500
    hs = []
    for _ in range(n):
        T = rng.choice([NOW, NOW, 10 ** 9, 10 ** 10, 5])
        evs = gc_events(rng, T)
        hs.append([step_add(e) for e in evs] + [step_gc(T)] + [step_add(e) for e in evs[:2]] + [step_gc(T + 2)])

    def nt(h, io):
        gi = next(i for i, s in enumerate(h) if s["op"] == "gc")
        return 0 < len(io[gi]["db"]["events"]) < len(io[gi - 1]["db"]["events"])
    run_histories(s, hs, classes={"gc_not_exact", "tags_incoherent"}, nontrivial=nt)
    return [s]


# ----------------------------------------------------------------------------- query path: drivers
def import_time_max_limit():
    from nostr_relay.storage.base import NostrQuery
    return NostrQuery.model_fields["limit"].default


def validate_filter(raw):
    """raw JSON filter -> the fields of the real NostrQuery.model_validate result (None if refused)"""
    from nostr_relay.storage.base import NostrQuery
    from nostr_relay.errors import StorageError
    from pydantic import ValidationError
    try:
        q = NostrQuery.model_validate(json.loads(json.dumps(raw)))
    except (ValidationError, StorageError):
        return None
    except Exception:
        return None
    return {"ids": q.ids, "authors": q.authors, "kinds": q.kinds, "since": q.since, "until": q.until, "limit": q.limit,
            "tags": [[n, list(vs)] for n, vs in (q.tags or [])]}


def word_cps(text):
    return sorted({ord(c) for c in text if re.match(r"\w", c)})


async def impl_req(drv, raw_filters, default_limit):
    """REQ through BaseStorage.subscribe with default_limit (the configured max_limit).
    -> (rows as served [id bytes, created, kind, pubkey bytes, tags, sig, content], outcome, pre_text, post_text)"""
    import asyncio
    st = drv.st
    q = asyncio.Queue()
    client = env.FakeClient()
    pre = {"text": None}
    cls = st.subscription_class
    real_prepare = cls.prepare

    def prepare(self):
        ok = real_prepare(self)
        if ok:
            pre["text"] = self.query.text
        return ok
    cls.prepare = prepare
    drv.sql_log = []
    try:
        try:
            await st.subscribe(client, "s", [json.loads(json.dumps(f)) for f in raw_filters], q, default_limit=default_limit)
        except Exception as e:
            return [], "error:" + type(e).__name__, pre["text"], None
        out = []
        try:
            while True:
                sid, e = await asyncio.wait_for(q.get(), 20)
                if e is None:
                    break
                out.append([bytes.fromhex(e.id), e.created_at, e.kind, bytes.fromhex(e.pubkey), [list(t) for t in e.tags],
                            bytes.fromhex(e.sig), e.content])
            oc = "eose"
        except asyncio.TimeoutError:
            oc = "silence"
        await st.unsubscribe(client, "s")
        sel = [s for s, p in drv.sql_log if "FROM events" in s and "ORDER BY" in s]
        return out, oc, pre["text"], (sel[0] if sel else None)
    finally:
        cls.prepare = real_prepare
        drv.sql_log = None


def canon_split(sp):
    """{head, groups, tail} -> hashable canonical form modulo set order of groups and of literal lists"""
    if sp is None:
        return None

    def canon_toks(toks):
        toks = [tuple(t) for t in toks]
        out, i = [], 0
        while i < len(toks):
            if toks[i] == ("y", "(") :
                # a parenthesised list of literals separated by commas?
                j, items, cur, ok = i + 1, [], [], True
                while j < len(toks) and toks[j] != ("y", ")"):
                    t = toks[j]
                    if t == ("y", ","):
                        items.append(tuple(cur)); cur = []
                    elif t[0] in ("s", "b", "n") or t == ("y", "-"):
                        cur.append(t)
                    else:
                        ok = False
                        break
                    j += 1
                if ok and j < len(toks) and cur:
                    items.append(tuple(cur))
                    out.append(("list", tuple(sorted(items))))
                    i = j + 1
                    continue
            out.append(toks[i])
            i += 1
        return tuple(out)
    return (canon_toks(sp["head"]), tuple(sorted(canon_toks(g) for g in sp["groups"])), canon_toks(sp["tail"]))


def answers_equiv(model, rows):
    """ordered answer modulo order among equal timestamps (and modulo which rows of the cut-off timestamp are kept)"""
    created = {bytes(i): c for i, c in model["matching"]}
    ids = [r[0] for r in rows]
    if len(set(ids)) != len(ids) or any(i not in created for i in ids):
        return False
    return [created[i] for i in ids] == [created[bytes(i)] for i in model["answer"]]


def run_reqs(suite_text, suite_answer, stores, classes=None, default_limit=5, neighbour=None):
    """stores: list of (history steps, [raw filter lists]).  Correspondence of SQL text and answers, oracles."""
    ML = import_time_max_limit()

    async def go():
        drv = await SqlDriver().open()
        res = []
        try:
            for steps, reqs in stores:
                await impl_history(drv, steps)
                dump = await drv.dump()
                rr = []
                for raw in reqs:
                    rr.append(await impl_req(drv, raw, default_limit))
                res.append((dump, rr))
        finally:
            await drv.close()
        return res
    impl = env.run(go())
    build_cases, lex_cases, pre_cases, req_cases, or_cases, meta = [], [], [], [], [], []
    for (steps, reqs), (dump, rr) in zip(stores, impl):
        for raw, (rows, oc, pre, post) in zip(reqs, rr):
            vfs = [v for v in (validate_filter(f) for f in raw) if v is not None]
            meta.append((steps, raw, vfs, dump, rows, oc, pre, post))
            build_cases.append({"filters": vfs, "default_limit": default_limit, "max_limit": ML})
            lex_cases.append(post if post is not None else "\x00")
            pre_cases.append({"text": pre or "", "words": word_cps(pre or "")})
            req_cases.append({"db": dump, "filters": vfs, "default_limit": default_limit, "max_limit": ML})
            or_cases.append({"store": dump, "answer": rows, "filters": vfs, "max_limit": default_limit, "import_max_limit": ML})
    builds = m("sqlm.build", build_cases)
    lexed = m("sqlm.lex", lex_cases)
    mlexed = m("sqlm.lex", [b["text"] for b in builds])
    pres = m("sqlm.sapre", pre_cases)
    mreqs = m("sqlm.req", req_cases)
    verdicts = m("sqlm.oracle_req", or_cases)
    for (steps, raw, vfs, dump, rows, oc, pre, post), b, lx, mlx, pr, mr, vd in zip(meta, builds, lexed, mlexed, pres, mreqs, verdicts):
        case = {"filters": raw, "n_events": len(dump["events"])}
        full = {"steps": steps, "filters": raw, "default_limit": default_limit}
        if not vfs:
            # every filter refused by validation: EOSE, no statement
            if suite_answer is not None:
                suite_answer.case(case, nontrivial=False)
                suite_answer.count("all_filters_refused")
                if rows or oc != "eose":
                    suite_answer.disagree(full, {"answer": [], "outcome": "eose"}, {"answer": rows, "outcome": oc})
            continue
        if suite_text is not None:
            suite_text.case(case, nontrivial=any(f.get("tags") or f.get("ids") or f.get("authors") for f in vfs))
            suite_text.count("filters_%d" % len(vfs))
            suite_text.count("executable" if mlx is not None else "unexecutable")
            # (a) what SQLite received lexes to the model's tokens
            if canon_split(lx) != canon_split(mlx):
                suite_text.disagree(dict(full, what="tokens of the statement SQLite received"), {"text": b["text"]}, {"post": post, "pre": pre})
            # (b) text() preprocessing model: pre -> post
            elif pre is not None and pr != post and not (post is None and pr is None):
                suite_text.disagree(dict(full, what="sqlalchemy.text() preprocessing"), {"post": pr}, {"post": post, "pre": pre})
            elif not b["relex"] and mlx is not None:
                suite_text.disagree(dict(full, what="model text does not lex back to its tokens"), b["text"], None)
        if suite_answer is not None:
            nmatch = len(mr["matching"])
            suite_answer.case(case, nontrivial=0 < nmatch < len(dump["events"]))
            suite_answer.count("filters_%d" % len(vfs))
            suite_answer.count("match_%s" % ("none" if nmatch == 0 else "all" if nmatch == len(dump["events"]) else "some"))
            suite_answer.count("truncated" if nmatch > mr["limit"] else "not_truncated")
            expected = mr if mlx is not None else {"answer": [], "matching": []}
            if oc != "eose" or not answers_equiv(expected, rows):
                suite_answer.disagree(full, {"answer": [bytes(i).hex()[:8] for i in expected["answer"]], "limit": mr["limit"]},
                                      {"answer": [r[0].hex()[:8] for r in rows], "outcome": oc})
            for cls in vd:
                if classes is None or cls in classes:
                    suite_answer.violate(cls, full, "%s violated by the SQL backend's answer" % cls,
                                         observed=[[r[0].hex()[:8], r[1]] for r in rows])
    return impl


# ----------------------------------------------------------------------------- generators (query path)
HOSTILE = ["'", "''", "\\", "\\'", '"', "%", "_", "--", "/*", "*/", ";", ")", "(", "))", "\n", "\r\n", "\t", " ", "‮", "é",
           "\U0001f600", "{", "{0}", "%s", "%d", "!r", "__import__('os')", "9" * 70, ":a", " :a", "(:abc", "\\:esc", ":esc", "a:b",
           "x::y", "\\", "\\\\:", ":", "::", " :1", "\x00", "a\x00b", "' OR 1=1)) --", "') OR ('1'='1", "x' --", "é", "ü"]
HOSTILE_NAMES = ["'", "\\", '"', "%", ":", "\x00", "é", "\U0001f600", "-", ")", "_", " ", "\n", "t"]


def hostile_store():
    """events carrying each hostile string as a tag value / under each hostile tag name"""
    steps = []
    ts = 100
    for i, v in enumerate(HOSTILE):
        steps.append(step_add(ev(i % 3, 1, ts + i, [["t", v]], content="h%d" % i)))
    for i, n in enumerate(HOSTILE_NAMES):
        steps.append(step_add(ev(i % 3, 1, 300 + i, [[n, "v"]], content="n%d" % i)))
    steps.append(step_add(ev(0, 1, 400, [["t"]], content="bare")))
    steps.append(step_add(ev(0, 1, 401, [["t", ""]], content="empty")))
    # tag values that differ in letter case only are different values
    for i, v in enumerate(["Bitcoin", "bitcoin", "BITCOIN", "\u00c4pfel", "\u00e4pfel"]):
        steps.append(step_add(ev(i % 3, 1, 405 + i, [["t", v], ["d", v]], content="case%d" % i)))
    # long tag values (an index that truncates them must not make their prefixes match)
    for i, n in enumerate(LONG_LENGTHS):
        steps.append(step_add(ev(i % 3, 1, 410 + i, [["t", "L" * n]], content="long%d" % n)))
    # events at the far end of the timestamp range (a since / until that is clamped or dropped must not return them)
    for i, ts2 in enumerate(FAR_TIMES):
        steps.append(step_add(ev(i % 3, 1, ts2, [["t", "far"]], content="far%d" % i)))
    return steps


LONG_LENGTHS = [255, 256, 1023, 1024, 1025, 1500, 4000]
FAR_TIMES = [2145934798, 2145934799, 2147483647, 2147483648, 4294967295, 4294967296]
HEX_TAILS = ["' OR 1=1 OR '", "' OR 1=1) OR ('", "%", "_", "'", "\\", "0", "g", " ", "\x00", "--", ")"]


def hostile_reqs(tier):
    reqs = []
    for v in HOSTILE + [""]:
        reqs.append([{"#t": [v]}])
        reqs.append([{"#t": [v], "kinds": [1]}])
    for n in HOSTILE_NAMES:
        reqs.append([{"#" + n: ["v"]}])
        reqs.append([{"#" + n: [" OR 1=1)) --"]}])
        reqs.append([{"#" + n: ["v"], "kinds": [1]}])
    # list shapes
    for shape in ([], ["x"], ["x", "x"], ["x", "y"], ["", "x"], ["", ""]):
        reqs.append([{"#t": shape}])
        reqs.append([{"#t": shape, "kinds": [1]}])
    big = 10 ** 70
    for f in ({"kinds": [-1, 1]}, {"kinds": [big]}, {"kinds": ["1", 1.0, True]}, {"since": -1}, {"since": 0, "until": 2145934799},
              {"until": 2145934800}, {"limit": 0}, {"limit": 1}, {"limit": big}, {"limit": -1}, {"limit": None}, {"kinds": [1], "limit": "3"},
              {"ids": ["AB" * 32]}, {"ids": ["ab" * 33]}, {"ids": ["ab" * 32, "ab" * 33]}, {"ids": ["zz" * 32]}, {"ids": ["ab"]},
              {"authors": ["ab" * 33]}, {"authors": [env.PUBS[0].upper()]}, {"authors": [env.PUBS[0], "cd" * 33]},
              {"unknown": "'x", "kinds": [1]}, {"tags": [["t", ["x"]]], "kinds": [1]}, {"#tt": ["x"], "kinds": [1]}, {"#t": "x", "kinds": [1]},
              {}, {"search": "' OR 1=1"}, {"kinds": []}, {"ids": []}, {"authors": []}):
        reqs.append([f])
    # ids / authors that start with 64 hex digits and carry a tail; prefixes and extensions of stored long tag values;
    # since / until at and beyond the upper bound of the timestamp range
    for tail in HEX_TAILS:
        for base in ("ab" * 32, "ab" * 31 + "a", env.PUBS[0]):
            reqs.append([{"ids": [base + tail]}])
            reqs.append([{"ids": [base + tail], "kinds": [1]}])
            reqs.append([{"authors": [base + tail]}])
            reqs.append([{"authors": [base + tail], "kinds": [1]}])
    for v in ("Bitcoin", "bitcoin", "BITCOIN", "bitCoin", "\u00c4pfel", "\u00e4pfel"):
        reqs.append([{"#t": [v]}])
        reqs.append([{"#d": [v], "kinds": [1]}])
    for n in LONG_LENGTHS:
        for m in (n - 1, n, n + 1):
            reqs.append([{"#t": ["L" * m]}])
    reqs.append([{"#t": ["L" * 1024, "L" * 4000]}])
    for b in (2145934798, 2145934799, 2145934800, 2147483647, 2147483648, 4294967295, 4294967296, 2 ** 63, 1700000000000):
        reqs.append([{"since": b, "kinds": [1]}])
        reqs.append([{"until": b, "kinds": [1]}])
        reqs.append([{"since": b, "#t": ["far"]}])
    if tier == "thorough":
        for a, b in itertools.product(HOSTILE[:24], HOSTILE[24:]):
            reqs.append([{"#t": [a, b]}])
        for n in HOSTILE_NAMES:
            for v in HOSTILE:
                reqs.append([{"#" + n: [v]}])
    else:
        for a, b in zip(HOSTILE, HOSTILE[7:] + HOSTILE[:7]):
            reqs.append([{"#t": [a, b]}, {"#p": [b]}])
    return reqs


def base_store(rng, n):
    """mostly regular events with searchable tags, several authors/kinds, timestamp ties"""
    steps = []
    words = ["a", "ab", "abc", "b", ""]
    for i in range(n):
        who = rng.randrange(3)
        kind = rng.choice([1, 1, 1, 7, 6, 40000])
        ts = rng.choice([10, 20, 20, 30, 40, 50])
        tags = []
        if rng.random() < 0.6:
            tags.append(["t", rng.choice(words)])
        if rng.random() < 0.3:
            tags.append(["p", env.PUBS[rng.randrange(3)]])
        if rng.random() < 0.15:
            tags.append(["t", rng.choice(words)])
        if rng.random() < 0.1:
            tags.append(["delegation", env.PUBS[rng.randrange(3)], "kind=1", "00" * 64])
        if rng.random() < 0.05:
            tags.append(["t"])
        steps.append(step_add(ev(who, kind, ts, tags, content="b%d" % i)))
    return steps


def gen_filter(rng, events, limits):
    f = {}
    e = rng.choice(events)["ev"] if events else None
    fields = rng.sample(["ids", "authors", "kinds", "tags", "since", "until"], rng.randint(1, 3))
    for fld in fields:
        if fld == "ids" and e:
            f["ids"] = [x["ev"]["id"] for x in rng.sample(events, min(len(events), rng.randint(1, 3)))]
        elif fld == "authors":
            f["authors"] = rng.sample(env.PUBS[:4], rng.randint(1, 2))
        elif fld == "kinds":
            f["kinds"] = rng.sample([1, 7, 6, 40000, 2, 0], rng.randint(1, 3))
        elif fld == "tags":
            name = rng.choice(["t", "t", "p", "d"])
            vals = [env.PUBS[rng.randrange(3)]] if name == "p" else rng.sample(["a", "ab", "abc", "b", "", "zz"], rng.randint(1, 3))
            f["#" + name] = vals
        elif fld == "since":
            f["since"] = rng.choice([9, 10, 11, 19, 20, 21, 30, 50, 51])
        elif fld == "until":
            f["until"] = rng.choice([10, 11, 20, 21, 30, 31, 50, 51, 60])
    lim = rng.choice(limits)
    if lim is not None:
        f["limit"] = lim
    return f


def neighbours_for(f, k):
    """non-matching events adjacent to the requested values"""
    out = []
    for kind in (f.get("kinds") or [])[:2]:
        out += [ev(0, kind + 1, 20, [["t", "a"]], content="nk%d" % k), ev(0, kind - 1, 20, [["t", "a"]], content="nl%d" % k)]
    for key, vals in f.items():
        if key.startswith("#") and isinstance(vals, list):
            for v in vals[:2]:
                for nv in (v + "x", v[:-1] if v else "zzz", v + " ", v.upper() if v.upper() != v else v + "A"):
                    if nv not in vals:
                        out.append(ev(1, 1, 20, [[key[1], nv]], content="nt%d%s" % (k, nv)))
                out.append(ev(1, 1, 20, [["x", v]], content="nn%d%s" % (k, v)))
    if "since" in f:
        out.append(ev(2, 1, f["since"] - 1, [["t", "a"]], content="ns%d" % k))
    if "until" in f:
        out.append(ev(2, 1, f["until"] + 1, [["t", "a"]], content="nu%d" % k))
    return out


# ----------------------------------------------------------------------------- suites: query path
def suites_c01(tier, seed):
    rng = rng_for(seed, "sqlm-c01")
    st = Suite("corr:sql-text")
    st.rule = ("hostile matrix: each of %d metacharacter strings as tag value (alone, with a second condition, in pairs), each of %d "
               "hostile one-character tag names, list shapes [], [x], [x,x], [x,y], ['',x]; numeric extremes, over-long / upper-case hex, "
               "unknown keys; the statement captured at the DBAPI cursor is lexed by the model's SQLite lexer and must equal the model's "
               "token list (modulo set order); text() preprocessing model checked on (pre, post); non-trivial = a client string reaches the text"
               % (len(HOSTILE), len(HOSTILE_NAMES)))
    sa = Suite("corr:sql-answer/hostile")
    sa.rule = ("the same requests against a store holding every hostile string as a tag value and every hostile name; ordered answers vs "
               "model; C01 (stored and may-match) and C02 (complete under the limit) evaluated on the implementation's answers; "
               "non-trivial = some but not all stored events match")
    run_reqs(st, sa, [(hostile_store(), hostile_reqs(tier))], default_limit=500,
             classes={"sql_returns_nonmatching", "sql_incomplete", "sql_value_contains_nul", "sql_filter_without_conditions"})
    s2 = Suite("corr:sql-answer/sound")
    s2.rule = "random stores (20-40 events) x random filter lists (1-3 filters); C01 evaluated on every answer"
    stores = []
    for _ in range(6 if tier == "quick" else 60):
        steps = base_store(rng, rng.randint(20, 40))
        reqs = [[gen_filter(rng, steps, [None, None, 3, 100]) for _ in range(rng.randint(1, 3))] for _ in range(25)]
        stores.append((steps, reqs))
    run_reqs(None, s2, stores, default_limit=50, classes={"sql_returns_nonmatching"})
    return [st, sa, s2]


def suites_c12(tier, seed):
    rng = rng_for(seed, "sqlm-c12")
    s = Suite("corr:sql-answer/limit")
    s.rule = ("stores with eff-1, eff, eff+1, 2*eff matching events and timestamp ties, max_limit configured as 5; limits "
              "{absent,0,1,2,4,5,6,100,10^30}; 1-3 filters per REQ; ordered answers vs model (modulo order among equal timestamps); C12 "
              "evaluated on the implementation's answers; non-trivial = the limit truncates")
    stores = []
    for _ in range(8 if tier == "quick" else 80):
        n = rng.choice([4, 5, 6, 10, 12])
        steps = [step_add(ev(rng.randrange(2), 1, rng.choice([10, 20, 20, 30, 30, 30, 40]), [["t", "a"]], content="l%d" % i)) for i in range(n)]
        steps += [step_add(ev(2, 7, rng.choice([15, 25, 35]), [["t", "b"]], content="m%d" % i)) for i in range(rng.randint(0, 7))]
        reqs = []
        for lim in (None, 0, 1, 2, 4, 5, 6, 100, 10 ** 30):
            f = {"kinds": [1]}
            if lim is not None:
                f["limit"] = lim
            reqs.append([f])
            reqs.append([dict(f, **{"#t": ["a"]})])
        for _ in range(8):
            reqs.append([gen_filter(rng, steps, [None, 0, 1, 2, 5, 6]) for _ in range(rng.randint(2, 3))])
        reqs.append([{"kinds": [1], "limit": 1}, {"kinds": [7]}])
        reqs.append([{"kinds": [7]}, {"kinds": [1], "limit": 1}])
        reqs.append([{"kinds": [1], "limit": 1}, {"ids": []}])
        stores.append((steps, reqs))
    run_reqs(None, s, stores, default_limit=5, classes={"sql_limit_not_newest", "sql_multi_filter_limit"})
    return [s]


def suites_c02(tier, seed):
    rng = rng_for(seed, "sqlm-c02")
    s = Suite("corr:sql-answer/complete")
    s.rule = ("random stores (15-40 events over 3 authors, 4 kinds, tag values that are prefixes of one another, timestamp ties, "
              "delegations) x well-formed filters (1-5 per REQ, single and multiple values, conjunctions of up to 3 field kinds, "
              "since/until at bound-1, bound, bound+1); ordered answers vs model; C02 evaluated on the implementation's answers; "
              "non-trivial = some but not all stored events match")
    stores = []
    for _ in range(8 if tier == "quick" else 100):
        steps = base_store(rng, rng.randint(15, 40))
        reqs = [[gen_filter(rng, steps, [None, None, None, 100]) for _ in range(rng.randint(1, 5))] for _ in range(30)]
        stores.append((steps, reqs))
    run_reqs(None, s, stores, default_limit=100, classes={"sql_incomplete", "sql_value_contains_nul", "sql_filter_without_conditions"})
    return [s]


def suites_c11(tier, seed):
    rng = rng_for(seed, "sqlm-c11")
    s = Suite("corr:sql-answer/neighbours")
    s.rule = ("paired runs: (1) the same filter on a store and on the store plus non-matching neighbours (kind+-1, tag values "
              "extended/truncated/other case/other name, timestamps bound+-1) must give the same id set; (2) a filter with one more "
              "condition / a narrower window gives a subset; (3) a multi-valued condition gives the union of its single values; answers "
              "also compared with the model; non-trivial = the base answer is non-empty")
    stores, plan = [], []
    for k in range(4 if tier == "quick" else 60):
        steps = base_store(rng, rng.randint(15, 30))
        fs = [gen_filter(rng, steps, [None]) for _ in range(12)]
        # long tag values: an index that shortens them must not make values with a common head match one another
        for ln in (256, 300, 1100):
            longv = "L" * (ln - 3) + "%03d" % k
            steps.append(step_add(ev(k % 3, 1, 40 + (ln % 7), [["t", longv]], content="long%d-%d" % (ln, k))))
            fs.append({"#t": [longv]})
        nb = []
        for i, f in enumerate(fs):
            nb += neighbours_for(f, i)
        seen, nbs = {x["ev"]["id"] for x in steps}, []
        for e in nb:
            if e["id"] not in seen:
                seen.add(e["id"])
                nbs.append(step_add(e))
        reqs = []
        for f in fs:
            narrowed = dict(f)
            if "kinds" not in narrowed:
                narrowed["kinds"] = [1]
            elif "since" not in narrowed:
                narrowed["since"] = 20
            else:
                narrowed["since"] = narrowed["since"] + 1
            singles = []
            for key, vals in f.items():
                if isinstance(vals, list) and len(vals) > 1:
                    singles = [dict(f, **{key: [v]}) for v in vals]
                    break
            reqs.append([f])
            reqs.append([narrowed])
            for sg in singles:
                reqs.append([sg])
            plan.append((len(stores), f, narrowed, singles))
        # a condition that can match nothing (empty list) stays unsatisfiable whatever is added in front of it
        some = steps[rng.randrange(len(steps))]["ev"]
        for f, narrowed in (({"kinds": []}, {"authors": [some["pubkey"]], "kinds": []}),
                            ({"#e": []}, {"kinds": [some["kind"]], "#e": []}),
                            ({"authors": []}, {"ids": [some["id"]], "authors": []}),
                            ({"#t": []}, {"authors": [some["pubkey"]], "since": 1, "#t": []}),
                            ({"ids": []}, {"ids": [], "kinds": [some["kind"]]})):
            reqs.append([f])
            reqs.append([narrowed])
            fs.append(f)
            plan.append((len(stores), f, narrowed, []))
        stores.append((steps, reqs))
        stores.append((steps + nbs, [[f] for f in fs]))
    impl = run_reqs(None, s, stores, default_limit=1000, classes=set())
    # the three relations on the implementation's own answers
    for si in range(0, len(stores), 2):
        (steps, reqs), (dump, rr) = stores[si], impl[si]
        (_, reqs2), (dump2, rr2) = stores[si + 1], impl[si + 1]
        ans = {json.dumps(q, sort_keys=True): {r[0] for r in res[0]} for q, res in zip(reqs, rr)}
        ans2 = {json.dumps(q, sort_keys=True): {r[0] for r in res[0]} for q, res in zip(reqs2, rr2)}
        base_ids = {r[0] for r in dump["events"]}
        for (sidx, f, narrowed, singles) in [p for p in plan if p[0] == si]:
            a = ans[json.dumps([f], sort_keys=True)]
            a2 = ans2[json.dumps([f], sort_keys=True)]
            full = {"steps": steps, "filter": f}
            if (a2 & base_ids) != a or any(i not in base_ids and not model_may(dump2, i, f) for i in a2):
                s.violate("sql_unrelated_data_changes_answer", dict(full, neighbours=[x["ev"] for x in stores[si + 1][0][len(steps):]]),
                          "C11: adding non-matching events changed the answer", expected=sorted(x.hex()[:8] for x in a),
                          observed=sorted(x.hex()[:8] for x in a2))
            an = ans[json.dumps([narrowed], sort_keys=True)]
            if not an <= a:
                s.violate("sql_not_monotone", dict(full, narrowed=narrowed), "C11: a narrower filter returned additional events",
                          expected=sorted(x.hex()[:8] for x in a), observed=sorted(x.hex()[:8] for x in an))
            if singles:
                u = set()
                for sg in singles:
                    u |= ans[json.dumps([sg], sort_keys=True)]
                if u != a:
                    s.violate("sql_not_union_of_values", dict(full, singles=singles), "C11: multi-value answer differs from the union of its single values",
                              expected=sorted(x.hex()[:8] for x in u), observed=sorted(x.hex()[:8] for x in a))
    return [s]


def model_may(dump, rid, f):
    """may an added neighbour legitimately be in the answer? (it must not: neighbours are built non-matching) -> ask the spec"""
    vf = validate_filter(f)
    row = next(r for r in dump["events"] if r[0] == rid)
    v = m("sqlm.oracle_req", [{"store": dump, "answer": [row], "filters": [vf], "max_limit": 10 ** 6, "import_max_limit": 10 ** 6}])[0]
    return "sql_returns_nonmatching" not in v


# ----------------------------------------------------------------------------- replay
def replay(payload):
    """Re-run a recorded failing input on the implementation and evaluate the executable statement."""
    import logging
    logging.disable(logging.CRITICAL)
    v = payload["violation"]
    case, cls = v["case"], v["cls"]
    s = Suite("replay")
    if "filter" in case:           # C11 relations
        f = case["filter"]
        others = [case[k] for k in ("narrowed",) if k in case] + list(case.get("singles", []))
        nb = [step_add(e) for e in case.get("neighbours", [])]
        stores = [(case["steps"], [[f]] + [[o] for o in others]), (case["steps"] + nb, [[f]])]
        impl = run_reqs(None, s, stores, default_limit=1000, classes=set())
        base = {r[0] for r in impl[0][0]["events"]}
        a = {r[0] for r in impl[0][1][0][0]}
        a2 = {r[0] for r in impl[1][1][0][0]} & base
        bad = (cls == "sql_unrelated_data_changes_answer" and a2 != a)
        if cls == "sql_not_monotone":
            bad = not ({r[0] for r in impl[0][1][1][0]} <= a)
        if cls == "sql_not_union_of_values":
            u = set()
            for res in impl[0][1][1:]:
                u |= {r[0] for r in res[0]}
            bad = u != a
        print("replay:", "FAIL" if bad else "pass", cls)
        return 1 if bad else 0
    if "filters" in case:
        run_reqs(s, s, [(case["steps"], [case["filters"]])], default_limit=case.get("default_limit", 5))
    else:
        run_histories(s, [case["steps"]])
    hit = [x for x in s.violations if x["cls"] == cls]
    for x in hit[:3]:
        print("still failing:", x["cls"], x["what"], "observed:", json.dumps(common.jsonable(x["observed"]))[:300])
    for dgr in s.disagreements[:2]:
        print("model/implementation disagreement:", json.dumps(common.jsonable(dgr["case"]))[:300])
    print("replay:", "FAIL" if hit else "pass", cls)
    return 1 if hit else 0


def write_witnesses():
    """(development helper) write the replay files of the open findings listed in findings.d/SQLM.txt"""
    import os
    W = {
        "SQLM-sql_value_contains_nul": ("sql_value_contains_nul", [step_add(ev(0, 1, 10, [["t", "a\x00b"]]))], [{"#t": ["a\x00b"]}], 100),
        "SQLM-sql_filter_without_conditions": ("sql_filter_without_conditions", [step_add(ev(0, 1, 10))], [{}], 100),
        "SQLM-sql_multi_filter_limit": ("sql_multi_filter_limit", [step_add(ev(0, 1, 10)), step_add(ev(0, 1, 11, content="x"))],
                                        [{"kinds": [1], "limit": 1}, {"kinds": [7]}], 5),
    }
    os.makedirs(common.REPLAYS, exist_ok=True)
    for name, (cls, steps, filters, dl) in W.items():
        payload = {"property": "SQLM", "kind": "failing-input",
                   "violation": {"suite": "witness", "cls": cls, "case": {"steps": steps, "filters": filters, "default_limit": dl},
                                 "what": cls, "expected": None, "observed": None}}
        with open(os.path.join(common.REPLAYS, name + ".json"), "w") as f:
            json.dump(common.jsonable(payload), f, indent=1, sort_keys=True)
