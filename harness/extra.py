"""Multi-step and concurrent oracles added after seeded changes slipped past single-submission suites:
 * C03: a forged copy of an event (same id and sig, other fields changed) submitted after the genuine
        event has left the store must be refused
 * C16: a policy that changed since an event was first accepted is applied when the event is submitted again;
        the homeserver recipe's is_whitelisted_or_tagged decides as documented
 * C14: role assignments read back exactly as last set also when a lookup runs concurrently with an assignment
Each oracle runs the real code only; the expected outcome follows directly from the property text."""
import asyncio

from . import env
from .common import Suite, rng_for


async def _submit(st, ev):
    from nostr_relay.errors import StorageError, AuthenticationError
    try:
        e, changed = await st.add_event(dict(ev))
        return "true" if changed else "duplicate"
    except (StorageError, AuthenticationError) as e:
        return "refused:" + str(e).split(":")[0]
    except Exception as e:
        return "crash:" + type(e).__name__


# ------------------------------------------------------------------------------------ C03
def suite_replay_after_removal(tier, seed):
    s = Suite("oracle:forged-replay-after-removal")
    s.rule = ("a genuine event is accepted and then leaves the store (replaced by a newer version / deleted by its author's kind 5 / "
              "ephemeral on LMDB / deleted through delete_event); a copy with the same id and sig but changed content, created_at, kind "
              "or tags is submitted: it must be refused and must not be stored or pushed; both backends")
    rng = rng_for(seed, "c03replay")

    async def one(backend, how, field):
        env.load_config()
        env.patch_clock()
        sc = env.Scratch()
        st = await (env.sql_storage(sc) if backend == "sql" else env.kv_storage(sc))
        who = rng.randrange(3)
        kind = {"replace": 0, "delete5": 1, "ephemeral": 20001, "delete_event": 1}[how]
        e1 = env.mk_event(who, kind, env.NOW - 100, [["t", "x"]], "genuine %d" % rng.randrange(10 ** 6))
        r1 = await _submit(st, e1)
        if how == "replace":
            await _submit(st, env.mk_event(who, 0, env.NOW - 50, [], "newer"))
        elif how == "delete5":
            await _submit(st, env.mk_event(who, 5, env.NOW - 50, [["e", e1["id"]]], ""))
        elif how == "delete_event":
            await st.delete_event(e1["id"])
        await env.quiesce(st)
        gone = e1["id"] not in await env.stored_ids(st)
        forged = dict(e1)
        if field == "content":
            forged["content"] = "forged"
        elif field == "created_at":
            forged["created_at"] = env.NOW - 1
        elif field == "tags":
            forged["tags"] = [["p", env.PUBS[3]]]
        elif field == "kind":
            forged["kind"] = 1 if kind != 1 else 7
        q = asyncio.Queue()
        await st.subscribe(env.FakeClient("w"), "w", [{"authors": [e1["pubkey"]]}], q)
        while not q.empty():
            q.get_nowait()
        r2 = await _submit(st, forged)
        await env.quiesce(st)
        for t in list(st._notify_sub_tasks):
            try:
                await t
            except Exception:
                pass
        pushed = any(it[1] is not None and it[1].id == e1["id"] for it in [q.get_nowait() for _ in range(q.qsize())])
        stored = e1["id"] in await env.stored_ids(st)
        await env.close(st)
        sc.close()
        return {"backend": backend, "removed_by": how, "changed": field}, {"first": r1, "gone": gone, "forged": r2, "stored": stored, "pushed": pushed}
    combos = [(b, h, f) for b in ("sql", "kv") for h in ("replace", "delete5", "ephemeral", "delete_event")
              for f in ("content", "created_at", "tags", "kind") if not (b == "sql" and h == "ephemeral" and False)]
    if tier == "quick":
        combos = rng.sample(combos, 12)
    for b, h, f in combos:
        case, obs = env.run(one(b, h, f))
        s.case(case, nontrivial=obs["gone"])
        s.count("removed_by_" + h)
        if obs["forged"] == "true" or (obs["gone"] and obs["stored"]) or obs["pushed"]:
            s.violate("forged-replay-admitted", case, "a copy of a once-accepted event with the same id and sig but changed fields was admitted",
                      expected={"forged": "refused", "stored": False, "pushed": False}, observed=obs)
    return s


# ------------------------------------------------------------------------------------ C16
def suite_policy_reapplied(tier, seed):
    s = Suite("oracle:policy-reapplied-on-resubmission")
    s.rule = ("an event passes the configured validators and is stored; then the policy changes (clock advances past oldest_event / the author "
              "is put on the blacklist / the dynamic deny list) and the stored copy is removed; the same event is submitted again: it must "
              "now be refused; both backends")
    rng = rng_for(seed, "c16reapply")

    async def one(backend, how):
        from nostr_relay import dynamic_lists
        cfg = env.load_config(oldest_event=1000, pubkey_blacklist=[])
        env.patch_clock()
        env.set_clock(env.NOW)
        dynamic_lists.ALLOWED_PUBKEYS.clear()
        dynamic_lists.DENIED_PUBKEYS.clear()
        sc = env.Scratch()
        vals = ["nostr_relay.validators.is_signed", "nostr_relay.validators.is_recent", "nostr_relay.validators.is_author_blacklisted",
                "nostr_relay.dynamic_lists.is_pubkey_allowed"]
        st = await (env.sql_storage(sc, validators=vals) if backend == "sql" else env.kv_storage(sc, validators=vals))
        who = rng.randrange(3)
        e = env.mk_event(who, 1, env.NOW - 10, [], "once fine %d" % rng.randrange(10 ** 6))
        r1 = await _submit(st, e)
        await env.quiesce(st)
        await st.delete_event(e["id"])
        await env.quiesce(st)
        if how == "clock":
            env.set_clock(env.NOW + 5000)
        elif how == "blacklist":
            cfg.pubkey_blacklist = [e["pubkey"]]
        else:
            dynamic_lists.DENIED_PUBKEYS.add(bytes.fromhex(e["pubkey"]))
        r2 = await _submit(st, e)
        await env.quiesce(st)
        stored = e["id"] in await env.stored_ids(st)
        dynamic_lists.DENIED_PUBKEYS.clear()
        env.set_clock(env.NOW)
        await env.close(st)
        sc.close()
        return {"backend": backend, "policy_change": how}, {"first": r1, "second": r2, "stored": stored}
    for backend in ("sql", "kv"):
        for how in ("clock", "blacklist", "denylist"):
            for _ in range(1 if tier == "quick" else 5):
                case, obs = env.run(one(backend, how))
                s.case(case, nontrivial=obs["first"] == "true")
                if obs["first"] == "true" and (not obs["second"].startswith("refused") or obs["stored"]):
                    s.violate("policy-not-reapplied", case, "an event violating the current policy was admitted because it had been accepted before",
                              expected={"second": "refused", "stored": False}, observed=obs)
    return s


def suite_recipe_validator(tier, seed):
    """recipe/homeserver.py is_whitelisted_or_tagged: allowed iff kind 10002, or the author is whitelisted, or some
    p tag names a whitelisted key (documented: 'check that event is tagged with a configurable list of users')"""
    from nostr_relay.errors import StorageError
    from aionostr.event import Event
    s = Suite("oracle:recipe-is_whitelisted_or_tagged")
    s.rule = ("events x whitelists: author inside / outside the whitelist, kind 10002 and others, no p tag, bare p tag, p tags naming "
              "whitelisted and non-whitelisted keys in every order; expected verdict computed from the documented rule")
    try:
        from nostr_relay.recipe.homeserver import is_whitelisted_or_tagged
    except Exception as e:          # the recipe imports aionostr.Relay; if that is unavailable the recipe is not loadable at all
        s.case({"import": str(e)}, nontrivial=False)
        s.case({"import": "unavailable"}, nontrivial=False)
        return s
    rng = rng_for(seed, "recipe")

    class Cfg:
        pubkey_whitelist = []
    W = env.PUBS[:2]
    O = env.PUBS[2:]
    n = 0
    for author in W[:1] + O[:1]:
        for kind in (1, 7, 10002):
            for tags in ([], [["p"]], [["p", O[0]]], [["p", W[0]]], [["p", O[0]], ["p", W[1]]], [["p", W[1]], ["p", O[0]]],
                         [["e", W[0]]], [["p", O[1]], ["p", O[0]]], [["p", ""]]):
                for wl in (W, [], [W[1]]):
                    Cfg.pubkey_whitelist = wl
                    ev = Event(pubkey=author, kind=kind, created_at=env.NOW, tags=[list(t) for t in tags], content="")
                    try:
                        is_whitelisted_or_tagged(ev, Cfg)
                        got = True
                    except StorageError:
                        got = False
                    except Exception as e:
                        got = "crash:" + type(e).__name__
                    want = kind == 10002 or author in wl or any(len(t) > 1 and t[0] == "p" and t[1] in wl and t[1] for t in tags)
                    case = {"author_whitelisted": author in wl, "kind": kind, "tags": tags, "whitelist_size": len(wl)}
                    s.case(case, nontrivial=True)
                    n += 1
                    if got != want:
                        s.violate("recipe-validator-deviates", case, "is_whitelisted_or_tagged does not decide as documented", expected=want, observed=got)
    return s


# ------------------------------------------------------------------------------------ C14
def suite_roles_concurrent(tier, seed):
    s = Suite("oracle:roles-readback-concurrent")
    s.rule = ("sequences of role assignments where a lookup of the same pubkey runs concurrently (asyncio.gather) with each assignment; "
              "after every assignment has completed the roles must read back exactly as last set, and a token obtained then carries them; SQL and LMDB")
    rng = rng_for(seed, "c14conc")

    async def one(backend, seq):
        env.load_config(authentication={"enabled": True, "actions": {"save": "aw", "query": "arw"}})
        env.patch_clock()
        sc = env.Scratch()
        st = await (env.sql_storage(sc) if backend == "sql" else env.kv_storage(sc))
        pk = env.PUBS[1]
        bad = None
        t = env.NOW
        for i, roles in enumerate(seq):
            env.set_clock(t + 10 * i)

            async def setter():
                await st.set_auth_roles(pk, roles)
                await env.quiesce(st)

            async def getter():
                out = []
                for _ in range(3):
                    out.append("".join(sorted(await st.get_auth_roles(pk))))
                    await asyncio.sleep(0)
                return out
            await asyncio.gather(setter(), getter())
            await env.quiesce(st)
            got = "".join(sorted(await st.get_auth_roles(pk)))
            if got != "".join(sorted(set(roles.lower()))):
                bad = {"after_assignment": i, "set": roles, "read_back": got}
                break
        env.set_clock(env.NOW)
        await env.close(st)
        sc.close()
        return bad
    for backend in ("sql", "kv"):
        for _ in range(4 if tier == "quick" else 30):
            seq = [rng.choice(["w", "r", "rw", "s", "a", "wr"]) for _ in range(rng.randint(2, 5))]
            seq = [x for i, x in enumerate(seq) if i == 0 or x != seq[i - 1]] or ["w", "r"]
            bad = env.run(one(backend, seq))
            case = {"backend": backend, "assignments": seq}
            s.case(case, nontrivial=len(seq) > 1)
            if bad:
                s.violate("roles-readback-stale", case, "role assignment does not read back as last set when a lookup ran concurrently", observed=bad)
    return s


# ------------------------------------------------------------------------------------ C12
CAP_SCRIPT = r'''
import sys, json, asyncio, logging
logging.disable(logging.CRITICAL)
from nostr_relay.config import Config
Config.load(sys.argv[1], reload=True)
Config.max_limit = 8          # configured BEFORE the storage modules are imported, as a deployment does
sys.path.insert(0, "/verif")
from harness import env
async def main():
    env.load_config(max_limit=8)
    env.patch_clock()
    out = {}
    sc = env.Scratch()
    for backend in ("sql", "kv"):
        st = await (env.sql_storage(sc) if backend == "sql" else env.kv_storage(sc))
        evs = [env.mk_event(i % 3, 1, env.NOW - 100 + i, [["t", "x"]], "cap%d" % i) for i in range(12)]
        for e in evs:
            await st.add_event(dict(e))
        await env.quiesce(st)
        res = {}
        for lim in (None, 0, 1, 7, 8, 9, 100, 10 ** 12):
            f = {"kinds": [1]}
            if lim is not None:
                f["limit"] = lim
            got, outcome = await env.req(st, [f])
            res[str(lim)] = [e.created_at for e in got]
        out[backend] = res
        await env.close(st)
    sc.close()
    print("RESULT " + json.dumps(out))
env.run(main())
'''


def suite_cap_plain_subscribe(tier, seed):
    """max_limit configured before the storage modules are imported; REQs through the plain websocket subscribe path"""
    import json
    import os
    import subprocess
    import sys
    s = Suite("oracle:limit-cap-plain-subscribe")
    s.rule = ("fresh interpreter, Config.max_limit = 8 set before nostr_relay.storage is imported, 12 matching events stored, REQ {kinds:[1]} with "
              "limit in {absent,0,1,7,8,9,100,10^12} through BaseStorage.subscribe without any default_limit argument, both backends: "
              "at most min(limit, 8) events, and they are the newest")
    repo = os.environ.get("VERIF_REPO", "/repo")
    p = subprocess.run([sys.executable, "-c", CAP_SCRIPT, os.path.join(repo, "test", "test_config.yaml")],
                       stdout=subprocess.PIPE, stderr=subprocess.PIPE, timeout=300,
                       env=dict(os.environ, PYTHONPATH="%s:/verif/shims:/verif" % repo))
    line = [l for l in p.stdout.decode().splitlines() if l.startswith("RESULT ")]
    if not line:
        s.case({"subprocess": "failed"}, nontrivial=False)
        s.disagree({"subprocess": "cap script"}, None, p.stderr.decode()[-1500:])
        return s
    out = json.loads(line[0][7:])
    newest = sorted([env.NOW - 100 + i for i in range(12)], reverse=True)
    for backend, res in out.items():
        for lim, got in res.items():
            eff = 8 if lim == "None" else min(int(lim), 8)
            case = {"backend": backend, "limit": lim, "max_limit": 8, "stored_matching": 12}
            s.case(case, nontrivial=True)
            if len(got) > eff or sorted(got, reverse=True) != newest[:len(got)] or len(got) < min(eff, 12):
                s.violate("limit-cap-or-newest", case, "a REQ through the plain subscribe path is not answered with the newest min(limit, max_limit) events",
                          expected=newest[:eff], observed=got)
    return s


# ------------------------------------------------------------------------------------ C20
def suite_announce_all_accepted(tier, seed):
    """the id of EVERY event accepted by a worker is handed to the notifier exactly once (whatever its kind),
    and nothing else is (refused events, duplicates)"""
    s = Suite("oracle:announce-every-accepted-event")
    s.rule = ("a worker with a notifier attached (stub recording NotifyClient.notify calls) accepts events of kinds "
              "{0,1,5,7,10002,19999,20000,20001,29999,30000,30023}, refuses a badly signed one and sees duplicates; the announced ids must be "
              "exactly the ids acknowledged as new, each once; both backends")
    rng = rng_for(seed, "c20announce")

    class StubNotifier:
        def __init__(self):
            self.ids = []

        async def notify(self, event):
            self.ids.append(event.id)

    async def one(backend):
        env.load_config()
        env.patch_clock()
        sc = env.Scratch()
        st = await (env.sql_storage(sc) if backend == "sql" else env.kv_storage(sc))
        st.notifier = StubNotifier()
        kinds = [0, 1, 5, 7, 10002, 19999, 20000, 20001, 29999, 30000, 30023]
        rng.shuffle(kinds)
        expected = []
        sent = []
        for i, k in enumerate(kinds):
            e = env.mk_event(rng.randrange(3), k, env.NOW - 50 + i, [["d", "x"]] if k >= 30000 else [], "n%d" % i)
            r = await _submit(st, e)
            sent.append([k, r])
            if r == "true":
                expected.append(e["id"])
            if rng.random() < 0.3:
                r2 = await _submit(st, e)           # duplicate
                sent.append([k, "dup:" + r2])
                if r2 == "true":
                    expected.append(e["id"])
            await env.quiesce(st)
        bad = env.mk_event(0, 1, env.NOW - 5, [], "bad")
        bad["sig"] = "00" * 64
        sent.append([1, await _submit(st, bad)])
        for _ in range(3):
            for t in list(st._notify_sub_tasks):
                try:
                    await t
                except Exception:
                    pass
            await asyncio.sleep(0)
        got = list(st.notifier.ids)
        await env.close(st)
        sc.close()
        return {"backend": backend, "submissions": sent}, expected, got
    for backend in ("sql", "kv"):
        for _ in range(2 if tier == "quick" else 12):
            case, expected, got = env.run(one(backend))
            s.case(case, nontrivial=len(expected) > 3)
            if sorted(expected) != sorted(got):
                missing = [x for x in expected if x not in got]
                s.violate("accepted-event-not-announced" if missing else "announced-more-than-accepted", case,
                          "the ids handed to the notifier are not exactly the ids of the events accepted as new",
                          expected=len(expected), observed={"announced": len(got), "missing": missing[:3]})
    return s


# ------------------------------------------------------------------------------------ C08 / C09 / C17
def suite_removed_unreachable_after_read(tier, seed, how_list=("delete5", "replace", "gc")):
    """an event that was READ through every access path before it is removed (deleted by its author, superseded,
    garbage-collected) is afterwards absent from every access path - catches caches that are not invalidated"""
    s = Suite("oracle:removed-unreachable-after-read")
    s.rule = ("an event is stored and read through get_event (the /e/<id> path), REQ by id, by author+kind and by tag; then it is removed "
              "(%s); then it is read again through the same paths, twice: it must not be served by any; a control event that is not "
              "removed must still be served; both backends" % ", ".join(how_list))
    rng = rng_for(seed, "unreach-" + "-".join(how_list))

    async def reads(st, ev):
        out = {}
        try:
            g = await st.get_event(ev["id"])
            out["get_event"] = bool(g)
        except Exception as e:
            out["get_event"] = "crash:" + type(e).__name__
        for name, f in (("ids", {"ids": [ev["id"]]}), ("author_kind", {"authors": [ev["pubkey"]], "kinds": [ev["kind"]]}),
                        ("tag", {"#t": ["rr"]})):
            got, _ = await env.req(st, [f])
            out[name] = any(e.id == ev["id"] for e in got)
        return out

    async def one(backend, how):
        from nostr_relay.storage.db import QueryGarbageCollector
        env.load_config()
        env.patch_clock()
        env.set_clock(env.NOW)
        sc = env.Scratch()
        st = await (env.sql_storage(sc) if backend == "sql" else env.kv_storage(sc))
        who = rng.randrange(3)
        kind = {"delete5": 1, "replace": 10002, "gc": 1}[how]
        tags = [["t", "rr"]] + ([["expiration", str(env.NOW + 50)]] if how == "gc" else [])
        victim = env.mk_event(who, kind, env.NOW - 100, tags, "victim %d" % rng.randrange(10 ** 6))
        control = env.mk_event((who + 1) % 3, 1, env.NOW - 90, [["t", "rr"]], "control %d" % rng.randrange(10 ** 6))
        await _submit(st, victim)
        await _submit(st, control)
        await env.quiesce(st)
        before = await reads(st, victim)
        if how == "delete5":
            await _submit(st, env.mk_event(who, 5, env.NOW - 10, [["e", victim["id"]]], ""))
        elif how == "replace":
            await _submit(st, env.mk_event(who, kind, env.NOW - 10, [["t", "rr"]], "newer"))
        else:
            env.set_clock(env.NOW + 100)
            if backend == "sql":
                await QueryGarbageCollector(st).run_once()
            else:
                from nostr_relay.storage.kv import KVGarbageCollector
                await KVGarbageCollector(st).run_once()
            env.set_clock(env.NOW)
        await env.quiesce(st)
        after = await reads(st, victim)
        after2 = await reads(st, victim)
        ctl = await reads(st, control)
        await env.close(st)
        sc.close()
        return {"backend": backend, "removed_by": how}, {"before": before, "after": after, "after_again": after2, "control": ctl}
    for backend in ("sql", "kv"):
        for how in how_list:
            for _ in range(1 if tier == "quick" else 4):
                case, obs = env.run(one(backend, how))
                s.case(case, nontrivial=all(v is True for v in obs["before"].values()))
                served = [k for k, v in list(obs["after"].items()) + list(obs["after_again"].items()) if v is not False]
                lost = [k for k, v in obs["control"].items() if v is not True]
                if served:
                    s.violate("removed-event-still-served", case, "a removed event is still served through: %s" % sorted(set(served)), observed=obs)
                elif lost:
                    s.violate("unrelated-event-lost", case, "an event that was not removed is no longer served through: %s" % lost, observed=obs)
    return s


# ------------------------------------------------------------------------------------ C07: real process kills on SQLite
KILL_SCRIPT = r'''
import sys, json, os, signal, asyncio, logging
logging.disable(logging.CRITICAL)
sys.path.insert(0, "/verif")
from harness import env
import sqlalchemy as sa
from sqlalchemy.engine import Engine
path, history, kill_at = sys.argv[1], json.loads(sys.argv[2]), int(sys.argv[3])
async def main():
    from nostr_relay.storage import get_metadata
    from nostr_relay.storage.db import DBStorage
    env.load_config()
    env.patch_clock()
    o = {"sqlalchemy.url": "sqlite+aiosqlite:///" + path, "validators": ["nostr_relay.validators.is_signed"]}
    from nostr_relay.config import Config
    Config.storage = dict(o)
    st = DBStorage(o)
    await st.setup()
    async with st.db.begin() as conn:
        await conn.run_sync(get_metadata().create_all)
    for ev in history[:-1]:
        await st.add_event(dict(ev))
    n = [0]
    def before(conn, cursor, statement, parameters, context, executemany):
        if statement.lstrip().upper().startswith(("PRAGMA",)):
            return
        if n[0] == kill_at:
            os.kill(os.getpid(), signal.SIGKILL)
        n[0] += 1
    if kill_at >= 0:
        sa.event.listen(Engine, "before_cursor_execute", before)
    try:
        await st.add_event(dict(history[-1]))
    except Exception as e:
        print("EXC", type(e).__name__)
    print("STATEMENTS", n[0])
    await st.close()
env.run(main())
'''


def _sqlite_dump(path):
    import sqlite3
    con = sqlite3.connect(path)
    try:
        ev = sorted(r[0].hex() for r in con.execute("SELECT id FROM events"))
        tg = sorted((r[0].hex(), r[1], r[2]) for r in con.execute("SELECT id, name, value FROM tags"))
        ok = con.execute("PRAGMA integrity_check").fetchone()[0]
    finally:
        con.close()
    return {"events": ev, "tags": [list(t) for t in tg], "integrity": ok}


def suite_sqlite_kill(tier, seed):
    """SIGKILL of the relay process at every statement of the transaction that applies one event, then the
    database file is reopened by another process: it must be exactly the state before or after that event."""
    import json
    import os
    import subprocess
    import sys
    import tempfile
    import shutil
    s = Suite("fault:sqlite-process-kill")
    s.rule = ("a history is applied by a child process to a file-backed SQLite database; while it applies the last event (a replacement that "
              "supersedes older versions and writes tag rows, or a kind-5 deletion with several references) the child SIGKILLs itself just before "
              "its k-th statement, for every k; the parent reopens the file with the sqlite3 module: integrity_check ok and events+tags equal "
              "to the dump without the last event or with it")
    rng = rng_for(seed, "sqlkill")
    repo = os.environ.get("VERIF_REPO", "/repo")
    envv = dict(os.environ, PYTHONPATH="%s:/verif/shims:/verif" % repo)

    def run_child(path, hist, k):
        return subprocess.run([sys.executable, "-c", KILL_SCRIPT, path, json.dumps(hist), str(k)], stdout=subprocess.PIPE,
                              stderr=subprocess.PIPE, timeout=120, env=envv)
    for h in range(1 if tier == "quick" else 8):
        who = rng.randrange(3)
        if rng.random() < 0.5:
            hist = [env.mk_event(who, 10002, env.NOW - 100 + i, [["r", "wss://x%d" % i], ["t", "k"]], "v%d" % i) for i in (0, 2)]
            hist.append(env.mk_event((who + 1) % 3, 1, env.NOW - 50, [["t", "k"]], "other"))
            hist.append(env.mk_event(who, 10002, env.NOW - 10, [["r", "wss://new"], ["t", "k"], ["p", env.PUBS[3]]], "newest"))
            kind = "replacement"
        else:
            hist = [env.mk_event(who, 1, env.NOW - 100 + i, [["t", "k"]], "n%d" % i) for i in range(3)]
            hist.append(env.mk_event(who, 5, env.NOW - 10, [["e", e["id"]] for e in hist[:3]] + [["t", "k"]], "bye"))
            kind = "deletion"
        d = tempfile.mkdtemp(prefix="verif-kill-")
        try:
            pold, pnew = os.path.join(d, "old.sqlite3"), os.path.join(d, "new.sqlite3")
            r = run_child(pold, hist[:-1] + [hist[-2]], -1)     # old state: the last event withheld (a duplicate of the previous is a no-op)
            r2 = run_child(pnew, hist, -1)
            if r.returncode != 0 or r2.returncode != 0:
                s.disagree({"history": kind}, None, (r.stderr.decode()[-500:], r2.stderr.decode()[-500:]))
                continue
            old, new = _sqlite_dump(pold), _sqlite_dump(pnew)
            nstmt = int([l for l in r2.stdout.decode().splitlines() if l.startswith("STATEMENTS")][0].split()[1]) if b"STATEMENTS" in r2.stdout else 12
            for k in range(0, 40):
                pk = os.path.join(d, "k%d.sqlite3" % k)
                rk = run_child(pk, hist, k)
                case = {"history": kind, "kill_before_statement": k}
                if rk.returncode == 0:
                    break                      # k is beyond the transaction: the event was applied without a kill
                got = _sqlite_dump(pk)
                s.case(case, nontrivial=True)
                s.count("killed_" + kind)
                if got["integrity"] != "ok" or {k2: got[k2] for k2 in ("events", "tags")} not in (
                        {k2: old[k2] for k2 in ("events", "tags")}, {k2: new[k2] for k2 in ("events", "tags")}):
                    s.violate("state-in-between-after-kill", case, "after SIGKILL the reopened database is neither the state before nor after the event",
                              expected={"old": old["events"], "new": new["events"]}, observed=got)
        finally:
            shutil.rmtree(d, ignore_errors=True)
    if s.cases < 2:
        s.case({"note": "no kill point reached"}, nontrivial=False)
        s.case({"note": "no kill point reached (2)"}, nontrivial=False)
    return s


# ------------------------------------------------------------------------------------ C16 / C03: every storage built from the configuration validates
def suite_second_instance_policies(tier, seed):
    s = Suite("oracle:policies-on-every-storage-instance")
    s.rule = ("two storages are built one after the other from the SAME Config.storage dict (what get_storage(reload=True) does), with the "
              "validators is_signed + is_recent configured, and once without a validators key; each is offered a forged event (bad sig) and a "
              "validly signed but too old event: every instance must refuse both (the instance without configured validators: the forged one); both backends")
    from nostr_relay.config import Config

    async def one(backend, with_key):
        env.load_config(oldest_event=1000)
        env.patch_clock()
        sc = env.Scratch()
        outs = []
        if backend == "sql":
            from nostr_relay.storage import get_metadata
            from nostr_relay.storage.db import DBStorage
            Config.storage = {"sqlalchemy.url": "sqlite+aiosqlite:///" + sc.path(".sqlite3")}
            mk = DBStorage
        else:
            from nostr_relay.storage import kv
            kv.analyze = lambda *a, **k: None
            Config.storage = {"class": "nostr_relay.storage.kv.LMDBStorage", "path": "second-%d" % id(sc)}
            mk = kv.LMDBStorage
        if with_key:
            Config.storage["validators"] = ["nostr_relay.validators.is_signed", "nostr_relay.validators.is_recent"]
        for inst in range(2):
            st = mk(Config.storage)
            await st.setup()
            if backend == "sql":
                async with st.db.begin() as conn:
                    await conn.run_sync(get_metadata().create_all)
                st._backend = "sql"
            else:
                st._backend = "kv"
                st._submitted = 0
                import lmdb
                st._base_done = lmdb.WRITE_TXNS_DONE[0]
            forged = env.mk_event(0, 1, env.NOW - 5, [], "forged %d" % inst)
            forged["sig"] = "00" * 64
            old = env.mk_event(1, 1, env.NOW - 5000, [], "old %d" % inst)
            r = {"instance": inst, "forged": await _submit(st, forged), "too_old": await _submit(st, old)}
            outs.append(r)
            await asyncio.sleep(0.05)
            await env.close(st)
        sc.close()
        return {"backend": backend, "validators_configured": with_key}, outs
    for backend in ("sql", "kv"):
        for with_key in (True, False):
            case, outs = env.run(one(backend, with_key))
            s.case(case, nontrivial=True)
            for r in outs:
                bad = [k for k in (("forged", "too_old") if with_key else ("forged",)) if not r[k].startswith("refused")]
                if bad:
                    s.violate("storage-instance-without-validators", case,
                              "storage instance %d built from the same configuration admitted: %s" % (r["instance"], bad), observed=outs)
                    break
    return s


# ------------------------------------------------------------------------------------ C03 / C04: what is stored and served is what was signed
def suite_served_is_signed(tier, seed):
    """accepted events over many kinds and tag shapes come back field for field (stored REQ, get_event, live) and still
    verify with the harness's own NIP-01 hash; catches rewriting of an event after verification"""
    s = Suite("oracle:served-event-is-the-signed-event")
    s.rule = ("validly signed events over kinds {0,1,3,5,7,10002,30000,30023} x tag shapes (bare [d], [d,''], upper-case hex in e/p values, integers, "
              "unicode, empty strings, duplicate tags, long values) are submitted; each accepted event is read back through a stored REQ, get_event "
              "and a live push: every field equal to what was sent and id = sha256 of the NIP-01 serialization of the served fields; both backends")
    rng = rng_for(seed, "served")
    H = "AB" * 32
    shapes = [[], [["d"]], [["d", ""]], [["d", "x"], ["d", "y"]], [["e", H], ["p", H.lower()]], [["p", "Ab" * 32]], [["t", ""], ["t", ""]],
              [["expiration", 1822439711]], [["k", 1], ["t", "é😀"]], [["t", "v" * 300]], [["d"], ["t", "x"]], [["e", H, "wss://r", "root"]]]

    async def one(backend):
        env.load_config()
        env.patch_clock()
        sc = env.Scratch()
        st = await (env.sql_storage(sc) if backend == "sql" else env.kv_storage(sc))
        q = asyncio.Queue()
        await st.subscribe(env.FakeClient("live"), "live", [{"authors": env.PUBS[:3]}], q)
        bad = []
        n = 0
        kinds = [0, 1, 3, 5, 7, 10002, 30000, 30023]
        combos = [(k, sh) for k in kinds for sh in shapes]
        if tier == "quick":
            # every tag shape on a regular and on a parameterized replaceable kind, plus a sample of the rest
            core = [(k, sh) for k in (1, 30000) for sh in shapes]
            combos = core + rng.sample([c for c in combos if c not in core], 16)
        for i, (k, sh) in enumerate(combos):
            e = env.mk_event(i % 3, k, env.NOW - 1000 + i, [list(t) for t in sh], "c%d \u0000\"\\ \u00e9\U0001F600" % i)
            r = await _submit(st, e)
            if r != "true":
                continue
            n += 1
            await env.quiesce(st)
            views = {}
            got, _ = await env.req(st, [{"ids": [e["id"]]}])
            views["stored"] = env.ev_obj(got[0]) if got else None
            g = await st.get_event(e["id"])
            views["get_event"] = env.ev_obj(g) if g else None
            for t in list(st._notify_sub_tasks):
                try:
                    await t
                except Exception:
                    pass
            live = [it[1] for it in [q.get_nowait() for _ in range(q.qsize())] if it[1] is not None and it[1].id == e["id"]]
            views["live"] = env.ev_obj(live[0]) if live else None
            for name, v in views.items():
                if v is None:
                    continue            # absence is judged by other properties (replaced / deleted meanwhile)
                same = all(json_eq(v[f], e[f]) for f in ("id", "pubkey", "created_at", "kind", "tags", "content", "sig"))
                rehash = env.compute_id(v["pubkey"], v["created_at"], v["kind"], v["tags"], v["content"]) == v["id"]
                if not same or not rehash:
                    bad.append({"kind": k, "tags": sh, "path": name, "sent_tags": e["tags"], "served_tags": v["tags"], "rehash_ok": rehash})
        await env.close(st)
        sc.close()
        return n, bad
    for backend in ("sql", "kv"):
        n, bad = env.run(one(backend))
        s.case({"backend": backend, "accepted": n}, nontrivial=n > 5)
        s.case({"backend": backend, "shapes": len(shapes)}, nontrivial=True)
        if n == 0:
            s.disagree({"backend": backend}, "some events accepted", "none of the generated events was accepted: the oracle explored nothing")
        if bad:
            s.violate("served-event-differs-from-signed", {"backend": backend, "first": bad[0]},
                      "an accepted event is served with different fields / no longer hashes to its id", observed=bad[:3])
    return s


def json_eq(a, b):
    if isinstance(a, (list, tuple)) and isinstance(b, (list, tuple)):
        return len(a) == len(b) and all(json_eq(x, y) for x, y in zip(a, b))
    return type(a) is type(b) and a == b


# ------------------------------------------------------------------------------------ C04: frames of the rate-limited branch
def suite_limited_frames(tier, seed):
    s = Suite("oracle:rate-limited-frames-wellformed")
    s.rule = ("EVENT / REQ / CLOSE messages refused by the rate limiter (scripted verdict) whose payload ids are hostile strings (quotes, backslashes, "
              "newlines, controls, non-BMP) or non-strings: every frame sent must parse as JSON of shape OK / NOTICE, an OK must echo the id string exactly")
    import json as _json
    from . import relay

    async def one():
        d = relay.Driver("sql")
        await d.start()
        await d.open(0)
        ids = ['abc"def', "abc\\", 'x","y', "line\nbreak", "\u0000\u001f", "😀", "", "é" * 70, 5, None, ["x"], {"a": 1}]
        for i in ids:
            await d.msg(0, ["EVENT", {"id": i}], limited=True)
        await d.msg(0, ["REQ", 'q"', {"kinds": [1]}], limited=True)
        await d.msg(0, ["CLOSE", "q\\"], limited=True)
        sent = list(d.conns[0].sent)
        await d.finish()
        return ids, sent
    ids, sent = env.run(one())
    s.case({"ids": [repr(i) for i in ids]}, nontrivial=True)
    s.case({"frames": len(sent)}, nontrivial=True)
    for k, raw in enumerate(sent):
        try:
            v = _json.loads(raw)
            ok = isinstance(v, list) and v and ((v[0] == "OK" and len(v) == 4 and v[2] is False) or (v[0] == "NOTICE" and len(v) == 2))
            if ok and v[0] == "OK" and k < len(ids) and isinstance(ids[k], str):
                ok = v[1] == ids[k]
        except Exception:
            ok = False
        if not ok:
            s.violate("rate-limited-frame-malformed", {"frame_index": k, "id": repr(ids[k]) if k < len(ids) else None},
                      "a frame sent for a rate-limited message is not well-formed JSON of OK / NOTICE shape echoing the id", observed=raw[:200])
            break
    if len(sent) != len(ids) + 2:
        s.violate("rate-limited-frame-count", {"expected": len(ids) + 2}, "not exactly one frame per rate-limited message", observed=len(sent))
    return s


# ------------------------------------------------------------------------------------ C09 / C06: several d tags - the first one names the address
def suite_multi_d_tags(tier, seed):
    s = Suite("oracle:first-d-tag-names-the-address")
    s.rule = ("parameterized replaceable events carrying two d tags ([d,a],[d,ab] / [d],[d,a] / [d,''],[d,a]); a newer event of the same author and kind "
              "whose d value equals the SECOND d tag of the stored one must not remove it (other address), one whose d value equals the FIRST must; "
              "in-order and out-of-order arrival; both backends")
    rng = rng_for(seed, "multid")
    shapes = [([["d", "a"], ["d", "ab"]], "a", "ab"), ([["d"], ["d", "a"]], "", "a"), ([["d", ""], ["d", "x"]], "", "x"),
              ([["d", "profile"], ["d", "settings"]], "profile", "settings")]

    async def one(backend, tags, first, second, order):
        env.load_config()
        env.patch_clock()
        sc = env.Scratch()
        st = await (env.sql_storage(sc) if backend == "sql" else env.kv_storage(sc))
        who = rng.randrange(3)
        kind = rng.choice([30000, 30023])
        x = env.mk_event(who, kind, env.NOW - 100, [list(t) for t in tags], "two d tags")
        y_other = env.mk_event(who, kind, env.NOW - 50, [["d", second]], "newer, address = second d")
        y_same = env.mk_event(who, kind, env.NOW - 40, [["d", first]] if first else [], "newer, address = first d")
        seq = [x, y_other] if order == "in" else [y_other, x]
        res = []
        for e in seq:
            res.append(await _submit(st, e))
            await env.quiesce(st)
        ids1 = set(await env.stored_ids(st))
        res.append(await _submit(st, y_same))
        await env.quiesce(st)
        ids2 = set(await env.stored_ids(st))
        await env.close(st)
        sc.close()
        return {"backend": backend, "tags": tags, "order": order}, {
            "acks": res, "x_kept_with_other_address": x["id"] in ids1, "other_stored": y_other["id"] in ids1,
            "x_removed_by_same_address": x["id"] not in ids2, "other_still_stored": y_other["id"] in ids2, "same_stored": y_same["id"] in ids2}
    for backend in ("sql", "kv"):
        for tags, first, second in shapes:
            for order in ("in", "out"):
                case, obs = env.run(one(backend, tags, first, second, order))
                s.case(case, nontrivial=True)
                ok = obs["x_kept_with_other_address"] and obs["other_stored"] and obs["x_removed_by_same_address"] and obs["other_still_stored"] and obs["same_stored"]
                if not ok:
                    s.violate("address-not-from-first-d-tag", case, "replacement did not go by the first d tag", observed=obs)
    return s


# ------------------------------------------------------------------------------------ C05 / C19: a stalled reader must not stall the others
def suite_stalled_reader(tier, seed):
    s = Suite("oracle:stalled-reader-does-not-stall-others")
    s.rule = ("three connections through web.start_client: S subscribes to everything and stops reading (its ws_send never completes), H subscribes "
              "to the same and reads normally, P publishes N=1100 accepted events: every EVENT of P is answered by its OK without waiting for S, and "
              "H receives all N as live pushes, in order")
    from . import relay
    import json as _json
    N = 1100 if tier == "quick" else 2500

    async def main():
        from nostr_relay import web
        env.load_config(subscription_limit=5)
        env.patch_clock()
        env.patch_web_sleep()
        sc = env.Scratch()
        st = await env.sql_storage(sc)
        import falcon, logging

        class C:
            def __init__(self, stalled=False):
                self.inbox = asyncio.Queue()
                self.sent = []
                self.stalled = stalled
                self.block = asyncio.Event()

            async def send(self, text):
                if self.stalled and text.startswith('["EVENT"'):
                    await self.block.wait()
                self.sent.append(text)

            async def recv(self):
                item = await self.inbox.get()
                if item is None:
                    raise falcon.WebSocketDisconnected()
                return item

            async def close(self, code=1000):
                pass
        conns = {k: C(stalled=(k == "S")) for k in "SHP"}
        tasks = {k: asyncio.create_task(web.start_client(st, c.send, c.recv, c.close, logging.getLogger("x"), rate_limiter=relay.NullLimiter(),
                                                         remote_addr="10.1.1.%d" % i)) for i, (k, c) in enumerate(conns.items())}
        for k in "SH":
            conns[k].inbox.put_nowait(_json.dumps(["REQ", "all", {"kinds": [1]}]))
        await asyncio.sleep(0.05)
        evs = [env.mk_event(i % 3, 1, env.NOW - 5000 + i, [], "s%d" % i) for i in range(N)]
        wedged_at = None
        for i, e in enumerate(evs):
            before = len([x for x in conns["P"].sent if x.startswith('["OK"')])
            conns["P"].inbox.put_nowait(_json.dumps(["EVENT", e]))
            for _ in range(4000):
                await asyncio.sleep(0)
                if len([x for x in conns["P"].sent[-3:] if x.startswith('["OK"')]) and len(conns["P"].sent) > before:
                    break
                if _ % 200 == 199:
                    await asyncio.sleep(0.01)
            else:
                wedged_at = i
                break
        await asyncio.sleep(0.1)
        got_h = [_json.loads(x)[2]["id"] for x in conns["H"].sent if x.startswith('["EVENT"')]
        oks = len([x for x in conns["P"].sent if x.startswith('["OK"')])
        conns["S"].block.set()
        for c in conns.values():
            c.inbox.put_nowait(None)
        done, pending = await asyncio.wait(list(tasks.values()), timeout=10)
        for t in pending:
            t.cancel()
        await env.close(st)
        sc.close()
        return {"wedged_at": wedged_at, "oks": oks, "healthy_received": len(got_h),
                "healthy_in_order": got_h == [e["id"] for e in evs][:len(got_h)], "handlers_left_running": len(pending)}
    obs = env.run(main())
    s.case({"events": N}, nontrivial=True)
    s.case({"connections": 3}, nontrivial=True)
    if obs["wedged_at"] is not None or obs["oks"] != N or obs["healthy_received"] != N or not obs["healthy_in_order"]:
        s.violate("stalled-reader-stalls-others", {"events": N}, "a connection that stopped reading delays or blocks the publisher / another subscriber",
                  expected={"oks": N, "healthy_received": N}, observed=obs)
    return s


# ------------------------------------------------------------------------------------ C05: pushed live => returned by the same filter afterwards
def suite_live_then_stored(tier, seed):
    s = Suite("oracle:pushed-live-implies-stored-answer")
    s.rule = ("subscriptions with filters (kinds / authors / #t / since) stay open; regular-kind events incl. integer extremes for kind and created_at, "
              "long tag values and odd tag shapes are submitted; every event pushed live under a filter must be returned by the same filter in a "
              "stored query afterwards (timestamps equal to a bound and ephemeral kinds excepted), and vice versa; both backends")
    rng = rng_for(seed, "livestored")

    async def one(backend):
        env.load_config()
        env.patch_clock()
        sc = env.Scratch()
        st = await (env.sql_storage(sc) if backend == "sql" else env.kv_storage(sc))
        filters = {"k": {"kinds": [1, 7, 2 ** 32, 2 ** 63]}, "a": {"authors": [env.PUBS[0]]}, "t": {"#t": ["x", "v" * 500]}, "s": {"since": env.NOW - 500}}
        qs = {}
        for name, f in filters.items():
            qs[name] = asyncio.Queue()
            await st.subscribe(env.FakeClient(name), name, [dict(f)], qs[name])
        evs = []
        for i in range(24 if tier == "quick" else 120):
            kind = rng.choice([1, 1, 7, 2 ** 32 - 1, 2 ** 32, 2 ** 63, 40000])
            ts = rng.choice([env.NOW - 900 + i, env.NOW - 100 + i, 2 ** 32 - 1, 2 ** 32 + 5])
            tags = rng.choice([[], [["t", "x"]], [["t", "v" * 500]], [["t", "x"], ["t", "x"]], [["t"]]])
            e = env.mk_event(rng.randrange(3), kind, ts, tags, "ls%d" % i)
            r = await _submit(st, e)
            evs.append((e, r))
        await env.quiesce(st)
        for _ in range(3):
            for t in list(st._notify_sub_tasks):
                try:
                    await t
                except Exception:
                    pass
            await asyncio.sleep(0)
        bad = []
        for name, f in filters.items():
            live = {it[1].id for it in [qs[name].get_nowait() for _ in range(qs[name].qsize())] if it[1] is not None}
            got, _ = await env.req(st, [dict(f, limit=5000)], sub_id="again-" + name)
            stored = {e.id for e in got}
            for e, r in evs:
                if e["created_at"] == f.get("since"):
                    continue
                if (e["id"] in live) != (e["id"] in stored):
                    bad.append({"filter": name, "kind": e["kind"], "created_at": e["created_at"], "tags": [t[:2] for t in e["tags"]][:2], "ack": r,
                                "live": e["id"] in live, "stored_answer": e["id"] in stored})
        await env.close(st)
        sc.close()
        return len(evs), bad
    for backend in ("sql", "kv"):
        n, bad = env.run(one(backend))
        s.case({"backend": backend, "events": n}, nontrivial=True)
        if bad:
            s.violate("live-and-stored-disagree", {"backend": backend, "first": bad[0]},
                      "an event was pushed live under a filter but is not returned by that filter afterwards (or the reverse)", observed=bad[:3])
    return s
