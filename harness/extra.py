"""Multi-step and concurrent oracles added after seeded changes slipped past single-submission suites:
 * C03: a forged copy of an event (same id and sig, other fields changed) submitted after the genuine
        event has left the store must be refused
 * C16: a policy that changed since an event was first accepted is applied when the event is submitted again;
        the homeserver recipe's is_whitelisted_or_tagged decides as documented
 * C14: role assignments read back exactly as last set also when a lookup runs concurrently with an assignment
Each oracle runs the real code only; the expected outcome follows directly from the property text."""
import asyncio
import json
import logging

from . import env
from .common import Suite, rng_for


async def _submit(st, ev):
    from nostr_relay.errors import StorageError, AuthenticationError
    try:
        e, changed = await st.add_event(dict(ev))
        return "true" if changed else "duplicate"
    except (StorageError, AuthenticationError) as e:
        return "refused:" + str(e).split(":")[0]
    except Exception as e:
        return "crash:" + type(e).__name__


# ------------------------------------------------------------------------------------ C03
def suite_replay_after_removal(tier, seed, only_fields=None):
    s = Suite("oracle:forged-replay-after-removal")
    s.rule = ("a genuine event is accepted and then leaves the store (replaced by a newer version / deleted by its author's kind 5 / "
              "ephemeral on LMDB / deleted through delete_event); a copy with the same id and sig but changed content, created_at, kind "
              "or tags is submitted: it must be refused and must not be stored or pushed; both backends")
    rng = rng_for(seed, "c03replay")

    async def one(backend, how, field):
        env.load_config()
        env.patch_clock()
        sc = env.Scratch()
        st = await (env.sql_storage(sc) if backend == "sql" else env.kv_storage(sc))
        who = rng.randrange(3)
        kind = {"replace": 0, "delete5": 1, "ephemeral": 20001, "delete_event": 1}[how]
        e1 = env.mk_event(who, kind, env.NOW - 100, [["t", "x"]], "genuine %d" % rng.randrange(10 ** 6))
        r1 = await _submit(st, e1)
        if how == "replace":
            await _submit(st, env.mk_event(who, 0, env.NOW - 50, [], "newer"))
        elif how == "delete5":
            await _submit(st, env.mk_event(who, 5, env.NOW - 50, [["e", e1["id"]]], ""))
        elif how == "delete_event":
            await st.delete_event(e1["id"])
        await env.quiesce(st)
        gone = e1["id"] not in await env.stored_ids(st)
        forged = dict(e1)
        if field == "content":
            forged["content"] = "forged"
        elif field == "created_at":
            forged["created_at"] = env.NOW - 1
        elif field == "tags":
            forged["tags"] = [["p", env.PUBS[3]]]
        elif field == "kind":
            forged["kind"] = 1 if kind != 1 else 7
        victim_ev = None
        if field == "deletion-of-a-victim":
            # the id and signature of the (gone) genuine event on a kind-5 event that names another author's pubkey and references that author's note
            victim = (who + 1) % 3
            victim_ev = env.mk_event(victim, 1, env.NOW - 200, [], "victim's note %d" % rng.randrange(10 ** 6))
            await _submit(st, victim_ev)
            forged = dict(e1, kind=5, pubkey=env.PUBS[victim], created_at=env.NOW - 1, tags=[["e", victim_ev["id"]]], content="")
        q = asyncio.Queue()
        await st.subscribe(env.FakeClient("w"), "w", [{"authors": [e1["pubkey"]]}], q)
        while True:                  # the stored answer (which legitimately holds the genuine event while it is stored) comes first
            sid, ev = await asyncio.wait_for(q.get(), 20)
            if ev is None:
                break
        r2 = await _submit(st, forged)
        await env.quiesce(st)
        for t in list(st._notify_sub_tasks):
            try:
                await t
            except Exception:
                pass
        pushed = any(it[1] is not None and it[1].id == e1["id"] for it in [q.get_nowait() for _ in range(q.qsize())])
        ids_now = await env.stored_ids(st)
        stored = e1["id"] in ids_now
        victim_lost = victim_ev is not None and victim_ev["id"] not in ids_now
        await env.close(st)
        sc.close()
        return {"backend": backend, "removed_by": how, "changed": field}, {"first": r1, "gone": gone, "forged": r2, "stored": stored, "pushed": pushed, "victim_lost": victim_lost}
    combos = [(b, h, f) for b in ("sql", "kv") for h in ("replace", "delete5", "ephemeral", "delete_event")
              for f in ("content", "created_at", "tags", "kind", "deletion-of-a-victim") if not (b == "sql" and h == "ephemeral" and False)]
    if only_fields:
        combos = [c for c in combos if c[2] in only_fields]
    if tier == "quick":
        combos = rng.sample(combos, min(len(combos), 12))
    for b, h, f in combos:
        case, obs = env.run(one(b, h, f))
        s.case(case, nontrivial=obs["gone"])
        s.count("removed_by_" + h)
        if obs.get("victim_lost"):
            s.violate("foreign-event-deleted", case, "a kind-5 event that re-uses the id and signature of an event verified earlier, under another author's pubkey, "
                      "removed that author's note", observed=obs)
        elif obs["forged"] == "true" or (obs["gone"] and obs["stored"]) or obs["pushed"]:
            s.violate("forged-replay-admitted", case, "a copy of a once-accepted event with the same id and sig but changed fields was admitted",
                      expected={"forged": "refused", "stored": False, "pushed": False}, observed=obs)
    return s


# ------------------------------------------------------------------------------------ C16
def suite_policy_reapplied(tier, seed):
    s = Suite("oracle:policy-reapplied-on-resubmission")
    s.rule = ("an event passes the configured validators and is stored; then the policy changes (clock advances past oldest_event / the author "
              "is put on the blacklist / the dynamic deny list) and the stored copy is removed; the same event is submitted again: it must "
              "now be refused; both backends")
    rng = rng_for(seed, "c16reapply")

    async def one(backend, how):
        from nostr_relay import dynamic_lists
        cfg = env.load_config(oldest_event=1000, pubkey_blacklist=[])
        env.patch_clock()
        env.set_clock(env.NOW)
        dynamic_lists.ALLOWED_PUBKEYS.clear()
        dynamic_lists.DENIED_PUBKEYS.clear()
        sc = env.Scratch()
        vals = ["nostr_relay.validators.is_signed", "nostr_relay.validators.is_recent", "nostr_relay.validators.is_author_blacklisted",
                "nostr_relay.dynamic_lists.is_pubkey_allowed"]
        st = await (env.sql_storage(sc, validators=vals) if backend == "sql" else env.kv_storage(sc, validators=vals))
        who = rng.randrange(3)
        e = env.mk_event(who, 1, env.NOW - 10, [], "once fine %d" % rng.randrange(10 ** 6))
        r1 = await _submit(st, e)
        await env.quiesce(st)
        await st.delete_event(e["id"])
        await env.quiesce(st)
        if how == "clock":
            env.set_clock(env.NOW + 5000)
        elif how == "blacklist":
            cfg.pubkey_blacklist = [e["pubkey"]]
        else:
            dynamic_lists.DENIED_PUBKEYS.add(bytes.fromhex(e["pubkey"]))
        r2 = await _submit(st, e)
        await env.quiesce(st)
        stored = e["id"] in await env.stored_ids(st)
        dynamic_lists.DENIED_PUBKEYS.clear()
        env.set_clock(env.NOW)
        await env.close(st)
        sc.close()
        return {"backend": backend, "policy_change": how}, {"first": r1, "second": r2, "stored": stored}
    for backend in ("sql", "kv"):
        for how in ("clock", "blacklist", "denylist"):
            for _ in range(1 if tier == "quick" else 5):
                case, obs = env.run(one(backend, how))
                s.case(case, nontrivial=obs["first"] == "true")
                if obs["first"] == "true" and (not obs["second"].startswith("refused") or obs["stored"]):
                    s.violate("policy-not-reapplied", case, "an event violating the current policy was admitted because it had been accepted before",
                              expected={"second": "refused", "stored": False}, observed=obs)
    return s


def suite_unloadable_validator(tier, seed):
    s = Suite("oracle:unloadable-validator-fails-closed")
    s.rule = ("a storage whose `validators` list names, besides is_signed, a validator that cannot be loaded (module missing / attribute "
              "missing / not callable; first, middle or last in the list) is built and set up the way the relay does it; a genuine event is "
              "submitted: either the storage refuses to start, or it refuses the event - it must not run with a shortened pipeline and accept "
              "what the missing validator was configured to judge; SQL and LMDB; non-trivial always")
    bad = ["nostr_relay.no_such_module_verif.check", "nostr_relay.validators.no_such_validator_verif", "harness_no_such_package.validators.check"]

    async def one(backend, names):
        env.load_config(authentication={"enabled": False})
        env.patch_clock()
        sc = env.Scratch()
        st = None
        try:
            try:
                st = await (env.sql_storage(sc, validators=names) if backend == "sql" else env.kv_storage(sc, validators=names))
            except Exception as e:      # noqa
                return "refused-to-start:" + type(e).__name__
            try:
                _, ok = await st.add_event(env.mk_event(1, 1, env.NOW - 3, [], "policy?"))
            except Exception as e:      # noqa
                return "refused-event:" + type(e).__name__
            await env.quiesce(st)
            stored = await st.get_event(env.mk_event(1, 1, env.NOW - 3, [], "policy?")["id"]) is not None
            return "accepted" if (ok or stored) else "refused-event"
        finally:
            if st is not None:
                await env.close(st)
            sc.close()
    for backend in ("sql", "kv"):
        for b in bad:
            for pos in (0, 1, 2):
                names = ["nostr_relay.validators.is_signed", "nostr_relay.validators.is_recent"]
                names.insert(pos, b)
                out = env.run(one(backend, names))
                case = {"backend": backend, "validators": names}
                s.case(case, nontrivial=True)
                s.count(out.split(":")[0])
                if out == "accepted":
                    s.violate("configured-validator-not-applied", case, "the storage started without the validator it could not load and accepted an event", expected="refusal (of the start or of the event)", observed=out)
    return s


def suite_policy_relaxed(tier, seed):
    s = Suite("oracle:refusal-is-not-remembered")
    s.rule = ("the mirror image of policy-reapplied: an event is REFUSED by the pipeline (author on the blacklist / on the dynamic deny list / too old "
              "for oldest_event / a forged copy with the same id and a wrong signature submitted first); then the reason goes away (list entry "
              "removed, oldest_event raised, the genuine event arrives) and it is submitted again: the pipeline must run again and the event be "
              "accepted and stored - a refusal leaves nothing behind that answers for the validators later; both backends")
    rng = rng_for(seed, "c16relax")

    async def one(backend, how):
        from nostr_relay import dynamic_lists
        cfg = env.load_config(oldest_event=1000, pubkey_blacklist=[])
        env.patch_clock()
        env.set_clock(env.NOW)
        dynamic_lists.ALLOWED_PUBKEYS.clear()
        dynamic_lists.DENIED_PUBKEYS.clear()
        sc = env.Scratch()
        vals = ["nostr_relay.validators.is_signed", "nostr_relay.validators.is_recent", "nostr_relay.validators.is_author_blacklisted",
                "nostr_relay.dynamic_lists.is_pubkey_allowed"]
        st = await (env.sql_storage(sc, validators=vals) if backend == "sql" else env.kv_storage(sc, validators=vals))
        try:
            who = rng.randrange(3)
            e = env.mk_event(who, 1, env.NOW - (5000 if how == "too-old" else 10), [], "refused first %d" % rng.randrange(10 ** 6))
            first = dict(e)
            if how == "blacklist":
                cfg.pubkey_blacklist = [e["pubkey"]]
            elif how == "denylist":
                dynamic_lists.DENIED_PUBKEYS.add(bytes.fromhex(e["pubkey"]))
            elif how == "forged-first":
                first = dict(e, sig="00" * 64)
            r1 = await _submit(st, first)
            r1b = await _submit(st, first)
            await env.quiesce(st)
            cfg.pubkey_blacklist = []
            dynamic_lists.DENIED_PUBKEYS.clear()
            if how == "too-old":
                cfg.oldest_event = 100000
            r2 = await _submit(st, e)
            await env.quiesce(st)
            stored = e["id"] in await env.stored_ids(st)
            return {"first": r1, "first_again": r1b, "second": r2, "stored": stored}
        finally:
            dynamic_lists.DENIED_PUBKEYS.clear()
            env.set_clock(env.NOW)
            await env.close(st)
            sc.close()
    for backend in ("sql", "kv"):
        for how in ("blacklist", "denylist", "too-old", "forged-first"):
            for _ in range(1 if tier == "quick" else 4):
                obs = env.run(one(backend, how))
                case = {"backend": backend, "refused_because": how}
                s.case(case, nontrivial=obs["first"].startswith("refused"))
                if not obs["first"].startswith("refused") or not obs["first_again"].startswith("refused"):
                    s.violate("policy-not-applied", case, "an event violating the policy was not refused (both times)", observed=obs)
                elif obs["second"] != "true" or not obs["stored"]:
                    s.violate("refusal-remembered", case, "after the reason for the refusal had gone the event was answered %r and is %sstored: an earlier "
                              "refusal decided instead of the validators" % (obs["second"], "" if obs["stored"] else "not "),
                              expected={"second": "true", "stored": True}, observed=obs)
    return s


def suite_recipe_validator(tier, seed):
    """recipe/homeserver.py is_whitelisted_or_tagged: allowed iff kind 10002, or the author is whitelisted, or some
    p tag names a whitelisted key (documented: 'check that event is tagged with a configurable list of users')"""
    from nostr_relay.errors import StorageError
    from aionostr.event import Event
    s = Suite("oracle:recipe-is_whitelisted_or_tagged")
    s.rule = ("events x whitelists: author inside / outside the whitelist, kind 10002 and others, no p tag, bare p tag, p tags naming "
              "whitelisted and non-whitelisted keys in every order; expected verdict computed from the documented rule")
    try:
        from nostr_relay.recipe.homeserver import is_whitelisted_or_tagged
    except Exception as e:          # the recipe imports aionostr.Relay; if that is unavailable the recipe is not loadable at all
        s.case({"import": str(e)}, nontrivial=False)
        s.case({"import": "unavailable"}, nontrivial=False)
        return s
    rng = rng_for(seed, "recipe")

    class Cfg:
        pubkey_whitelist = []
    W = env.PUBS[:2]
    O = env.PUBS[2:]
    n = 0
    for author in W[:1] + O[:1]:
        for kind in (1, 7, 10002):
            for tags in ([], [["p"]], [["p", O[0]]], [["p", W[0]]], [["p", O[0]], ["p", W[1]]], [["p", W[1]], ["p", O[0]]],
                         [["e", W[0]]], [["p", O[1]], ["p", O[0]]], [["p", ""]]):
                for wl in (W, [], [W[1]]):
                    Cfg.pubkey_whitelist = wl
                    ev = Event(pubkey=author, kind=kind, created_at=env.NOW, tags=[list(t) for t in tags], content="")
                    try:
                        is_whitelisted_or_tagged(ev, Cfg)
                        got = True
                    except StorageError:
                        got = False
                    except Exception as e:
                        got = "crash:" + type(e).__name__
                    want = kind == 10002 or author in wl or any(len(t) > 1 and t[0] == "p" and t[1] in wl and t[1] for t in tags)
                    case = {"author_whitelisted": author in wl, "kind": kind, "tags": tags, "whitelist_size": len(wl)}
                    s.case(case, nontrivial=True)
                    n += 1
                    if got != want:
                        s.violate("recipe-validator-deviates", case, "is_whitelisted_or_tagged does not decide as documented", expected=want, observed=got)
    return s


# ------------------------------------------------------------------------------------ C14
def suite_roles_concurrent(tier, seed):
    s = Suite("oracle:roles-readback-concurrent")
    s.rule = ("sequences of role assignments where a lookup of the same pubkey runs concurrently (asyncio.gather) with each assignment; "
              "after every assignment has completed the roles must read back exactly as last set, and a token obtained then carries them; SQL and LMDB")
    rng = rng_for(seed, "c14conc")

    async def one(backend, seq):
        env.load_config(authentication={"enabled": True, "actions": {"save": "aw", "query": "arw"}})
        env.patch_clock()
        sc = env.Scratch()
        st = await (env.sql_storage(sc) if backend == "sql" else env.kv_storage(sc))
        pk = env.PUBS[1]
        bad = None
        t = env.NOW
        for i, roles in enumerate(seq):
            env.set_clock(t + 10 * i)

            async def setter():
                await st.set_auth_roles(pk, roles)
                await env.quiesce(st)

            async def getter():
                out = []
                for _ in range(3):
                    out.append("".join(sorted(await st.get_auth_roles(pk))))
                    await asyncio.sleep(0)
                return out
            await asyncio.gather(setter(), getter())
            await env.quiesce(st)
            got = "".join(sorted(await st.get_auth_roles(pk)))
            if got != "".join(sorted(set(roles.lower()))):
                bad = {"after_assignment": i, "set": roles, "read_back": got}
                break
        env.set_clock(env.NOW)
        await env.close(st)
        sc.close()
        return bad
    for backend in ("sql", "kv"):
        for _ in range(4 if tier == "quick" else 30):
            seq = [rng.choice(["w", "r", "rw", "s", "a", "wr"]) for _ in range(rng.randint(2, 5))]
            seq = [x for i, x in enumerate(seq) if i == 0 or x != seq[i - 1]] or ["w", "r"]
            bad = env.run(one(backend, seq))
            case = {"backend": backend, "assignments": seq}
            s.case(case, nontrivial=len(seq) > 1)
            if bad:
                s.violate("roles-readback-stale", case, "role assignment does not read back as last set when a lookup ran concurrently", observed=bad)
    return s


def suite_roles_burst(tier, seed):
    s = Suite("oracle:roles-readback-burst")
    s.rule = ("bursts of 2-6 role assignments for one or two pubkeys issued back to back (one await after the other, nothing waits for the LMDB "
              "writer in between, one second apart on the injected clock, repeated values A,B,A included); once everything is written the roles "
              "of every pubkey must read back exactly as LAST set; SQL and LMDB; non-trivial = some pubkey is assigned a value, another one, and "
              "the first again")
    rng = rng_for(seed, "c14burst")

    async def one(backend, seq):
        import types
        import aionostr.event as ae
        env.load_config(authentication={"enabled": True, "actions": {"save": "aw", "query": "arw"}})
        env.patch_clock()
        sc = env.Scratch()
        st = await (env.sql_storage(sc) if backend == "sql" else env.kv_storage(sc))
        saved = ae.time
        ae.time = types.SimpleNamespace(time=env._now)
        bad = None
        try:
            last = {}
            for i, (pk, roles) in enumerate(seq):
                env.set_clock(env.NOW + i)
                await st.set_auth_roles(pk, roles)
                last[pk] = roles
            await env.quiesce(st)
            for pk, roles in last.items():
                got = "".join(sorted(await st.get_auth_roles(pk)))
                if got != "".join(sorted(set(roles.lower()))):
                    bad = {"pubkey": pk[:8], "last_set": roles, "read_back": got}
                    break
        finally:
            ae.time = saved
            env.set_clock(env.NOW)
            await env.close(st)
            sc.close()
        return bad
    directed = [[(env.PUBS[1], "w"), (env.PUBS[1], "rw"), (env.PUBS[1], "w")],
                [(env.PUBS[1], "r"), (env.PUBS[2], "w"), (env.PUBS[1], ""), (env.PUBS[1], "r"), (env.PUBS[2], "w")]]
    for backend in ("sql", "kv"):
        for k_ in range(6 if tier == "quick" else 60):
            pks = [env.PUBS[1]] if rng.random() < 0.6 else [env.PUBS[1], env.PUBS[2]]
            n = rng.randint(2, 6)
            seq = []
            for i in range(n):
                pk = rng.choice(pks)
                prev = [r for p, r in seq if p == pk]
                if len(prev) >= 2 and rng.random() < 0.6:
                    roles = prev[-2]                       # A, B, A
                else:
                    roles = rng.choice(["w", "r", "rw", "s", "a", ""])
                seq.append((pk, roles))
            if k_ < len(directed):
                seq = list(directed[k_])                   # A, B, A is always among the cases
            bad = env.run(one(backend, seq))
            case = {"backend": backend, "assignments": [[p[:8], r] for p, r in seq]}
            aba = any(seq[i][0] == seq[j][0] == seq[k][0] and seq[i][1] == seq[k][1] != seq[j][1]
                      for i in range(len(seq)) for j in range(i + 1, len(seq)) for k in range(j + 1, len(seq)))
            s.case(case, nontrivial=aba)
            if bad:
                s.violate("roles-readback-stale", dict(case, full=seq), "a burst of role assignments does not read back as last set", observed=bad)
    return s


# ------------------------------------------------------------------------------------ C14: output validator that reads its context
OV_CALLS = []


def members_only(event, context):
    """output validator: events tagged t=members go to connections holding role 'a' only; records the context it was given"""
    tok = context.get("auth_token") or {}
    OV_CALLS.append((str(context.get("client_id")), "".join(sorted(tok.get("roles", ()))), event.id))
    if any(len(t) > 1 and t[0] == "t" and t[1] == "members" for t in event.tags):
        return "a" in tok.get("roles", ())
    return True


def suite_output_validator_context(tier, seed, backends=("sql", "kv")):
    s = Suite("oracle:output-validator-own-context")
    s.rule = ("2-4 connections with different tokens (none, roles r, roles a, roles ar) in random order hold live subscriptions under an output "
              "validator whose verdict depends on context['auth_token'] (members-only events need role 'a'); 3-6 events (members / public) are "
              "accepted; every connection must receive, live and again from storage on a later REQ, exactly the events the validator admits for "
              "ITS OWN token, and the validator must have been called with that connection's client_id and token; SQL and LMDB; non-trivial = a "
              "members-only event is delivered to one connection and withheld from another")
    rng = rng_for(seed, "c14ovctx")

    async def one(backend, toks, evs):
        env.load_config(authentication={"enabled": True, "actions": {"save": "arw", "query": "arw"}, "default_roles": ["r"]},
                        output_validator="harness.extra.members_only")
        env.patch_clock()
        sc = env.Scratch()
        st = await (env.sql_storage(sc) if backend == "sql" else env.kv_storage(sc))
        del OV_CALLS[:]
        out = {"live": [], "stored": [], "ctx": []}
        try:
            conns = []
            for i, roles in enumerate(toks):
                q = asyncio.Queue()
                c = env.FakeClient("conn%d" % i)
                tok = {} if roles is None else {"pubkey": env.PUBS[2], "roles": set(roles), "now": env.NOW}
                await st.subscribe(c, "live", [{"kinds": [1]}], q, auth_token=tok)
                conns.append((c, q, tok))
            for c, q, tok in conns:            # the (empty) stored answer must be complete before anything is published
                while True:
                    sid, ev = await asyncio.wait_for(q.get(), 20)
                    if ev is None:
                        break
            for e in evs:
                await st.add_event(e, auth_token={"pubkey": env.PUBS[0], "roles": set("arw"), "now": env.NOW})
                await env.quiesce(st)
                for _ in range(3):
                    if st._notify_sub_tasks:
                        await asyncio.wait(st._notify_sub_tasks)
                    await asyncio.sleep(0)
            for i, (c, q, tok) in enumerate(conns):
                got = []
                while not q.empty():
                    sid, ev = q.get_nowait()
                    if ev is not None:
                        got.append(ev.id)
                out["live"].append(sorted(got))
            for i, (c, q, tok) in enumerate(conns):
                evs2, oc = await env.req(st, [{"kinds": [1]}], sub_id="again", auth_token=tok, client=c)
                out["stored"].append(sorted(e.id for e in evs2))
            out["ctx"] = list(OV_CALLS)
        finally:
            await env.close(st)
            sc.close()
        return out
    for backend in backends:
        for _ in range(5 if tier == "quick" else 40):
            toks = [rng.choice([None, "r", "a", "ar"]) for _ in range(rng.randint(2, 4))]
            if len(set(toks)) == 1:
                toks[0] = "a" if toks[0] != "a" else None
            evs = [env.mk_event(0, 1, env.NOW - 5 + i, [["t", rng.choice(["members", "public", "members"])]], "ov%d" % i) for i in range(rng.randint(3, 6))]
            out = env.run(one(backend, toks, evs))
            case = {"backend": backend, "tokens": toks, "events": [[e["id"][:8], e["tags"][0][1]] for e in evs]}
            want = []
            for roles in toks:
                want.append(sorted(e["id"] for e in evs if e["tags"][0][1] != "members" or (roles and "a" in roles)))
            members = [e["id"] for e in evs if e["tags"][0][1] == "members"]
            s.case(case, nontrivial=bool(members) and any(r and "a" in r for r in toks) and any(not r or "a" not in r for r in toks))
            for path in ("live", "stored"):
                for i, roles in enumerate(toks):
                    if out[path][i] != want[i]:
                        leaked = sorted(set(out[path][i]) - set(want[i]))
                        s.violate("output-validator-foreign-context", dict(case, full_events=evs, path=path, connection=i),
                                  "%s delivery to connection %d (roles %r) is not what the output validator admits for that connection's own token%s"
                                  % (path, i, roles, " (members-only event leaked)" if leaked else " (admissible event withheld)"),
                                  expected=[x[:8] for x in want[i]], observed=[x[:8] for x in out[path][i]])
                        break
            names = {"conn%d" % i: "".join(sorted(r or "")) for i, r in enumerate(toks)}
            for cid, roles, eid in out["ctx"]:
                if cid in names and names[cid] != roles:
                    s.violate("output-validator-foreign-context", dict(case, full_events=evs, path="context"),
                              "the output validator was called for %s with the token of another connection (roles %r instead of %r)" % (cid, roles, names[cid]))
                    break
    return s


# ------------------------------------------------------------------------------------ C17: the collector as the relay runs it
def suite_gc_lifecycle(tier, seed, backends=("sql", "kv")):
    s = Suite("oracle:gc-periodic-passes")
    s.rule = ("the garbage collector started the way the relay starts it (storage.start_garbage_collector -> Periodic loop, ONE collector object "
              "for the whole run; only Periodic.wait_function is replaced by a harness tick) over 3-7 rounds of [0-3 accepted kind-1 events with "
              "expiration in {T-50..T+200, malformed, none}; clock step in {1,30,100,300}; one pass], including quiet rounds with no submission; "
              "after every pass at time T the store must hold exactly the accepted events whose expiration is not a well-formed timestamp < T; "
              "SQL and LMDB; non-trivial = an event expires during a round in which nothing is submitted and a later pass has to remove it")
    rng = rng_for(seed, "c17life")

    async def one(backend, rounds):
        from nostr_relay import util
        from nostr_relay.config import Config
        env.load_config()
        env.patch_clock()
        Config.garbage_collector = {"collect_interval": 300}
        sc = env.Scratch()
        st = await (env.sql_storage(sc) if backend == "sql" else env.kv_storage(sc))
        tick, idle = asyncio.Event(), asyncio.Event()
        orig_wait = util.Periodic.wait_function

        async def wait_function(self):
            idle.set()
            await tick.wait()
            tick.clear()
        util.Periodic.wait_function = wait_function
        trace = []
        try:
            st.start_garbage_collector()
            await asyncio.wait_for(idle.wait(), 10)
            T = env.NOW
            accepted = []
            reader = None
            if backend == "sql":
                # a client is half-way through a stored answer while the passes run: the collector works on another pooled connection
                for i in range(3):
                    await st.add_event(env.mk_event(2, 7, env.NOW - 500 - i, [["t", "keep"]], "reader%d" % i))
                    accepted.append(env.mk_event(2, 7, env.NOW - 500 - i, [["t", "keep"]], "reader%d" % i))
                reader = st.run_single_query([{"kinds": [7]}])
                await reader.__anext__()
            for step, evs in rounds:
                for e in evs:
                    env.set_clock(T)
                    ev = env.mk_event(e["who"], 1, T - 1, ([["expiration", e["exp"] if isinstance(e["exp"], str) else str(T + e["exp"])]] if e["exp"] is not None else []), e["c"])
                    try:
                        _, ok = await st.add_event(ev)
                    except Exception:
                        ok = False
                    if ok:
                        accepted.append(ev)
                await env.quiesce(st)
                T += step
                env.set_clock(T)
                idle.clear()
                tick.set()
                await asyncio.wait_for(idle.wait(), 20)
                await env.quiesce(st)
                dangling = 0
                if backend == "sql":
                    d = await env.dump(st)
                    have = {r[0] for r in d["events"]}
                    dangling = sum(1 for r in d["tags"] if r[0] not in have)
                trace.append({"T": T, "stored": await env.stored_ids(st), "accepted": [[x["id"], x["tags"]] for x in accepted], "dangling_tag_rows": dangling})
            if reader is not None:
                await reader.aclose()
        finally:
            util.Periodic.wait_function = orig_wait
            util.Periodic.cancel_running()
            env.set_clock(env.NOW)
            Config.garbage_collector = None
            await env.close(st)
            sc.close()
        return trace

    def expired(tags, T):
        for tg in tags:
            if tg[0] == "expiration" and len(tg) > 1 and tg[1].isascii() and tg[1].isdigit() and int(tg[1]) < T:
                return True
        return False
    for backend in backends:
        for _ in range(5 if tier == "quick" else 40):
            rounds, k = [], 0
            for r in range(rng.randint(3, 7)):
                evs = []
                for _ in range(rng.choice([0, 0, 1, 2, 3])):
                    k += 1
                    evs.append({"who": rng.randrange(3), "c": "gc%d" % k,
                                "exp": rng.choice([-50, -1, 0, 1, 20, 50, 99, 150, 200, None, None, "abc", "", "1e9"])})
                rounds.append((rng.choice([1, 30, 100, 300]), evs))
            if rng.random() < 0.7:
                # an event that survives the pass of its own round and expires during the next, quiet, round
                j = rng.randrange(len(rounds) - 1)
                k += 1
                rounds[j][1].append({"who": 0, "c": "gc%d" % k, "exp": rounds[j][0] + rng.randrange(rounds[j + 1][0])})
                rounds[j + 1] = (rounds[j + 1][0], [])
            trace = env.run(one(backend, rounds))
            case = {"backend": backend, "rounds": rounds}
            quiet_expiry = False
            gone = set()
            bad = None
            for i, tr in enumerate(trace):
                want = sorted(x for x, tags in tr["accepted"] if not expired(tags, tr["T"]))
                if i > 0 and not rounds[i][1]:
                    prevT = trace[i - 1]["T"]
                    quiet_expiry = quiet_expiry or any(expired(tags, tr["T"]) and not expired(tags, prevT) for _, tags in tr["accepted"])
                if tr.get("dangling_tag_rows") and bad is None:
                    bad = ("gc-left-index-rows", i, [], [])
                if tr["stored"] != want and bad is None:
                    left = sorted(set(tr["stored"]) - set(want))
                    lost = sorted(set(want) - set(tr["stored"]))
                    bad = ("gc-pass-left-expired" if left else "gc-pass-removed-live", i, left, lost)
            s.case(case, nontrivial=quiet_expiry)
            s.count("rounds_%d" % len(rounds))
            s.count("quiet_expiry" if quiet_expiry else "no_quiet_expiry")
            if bad:
                cls, i, left, lost = bad
                s.violate(cls, case, "after pass %d (T=%d) of the running collector: %d expired events still stored, %d unexpired events missing, %d tag rows "
                          "of removed events left" % (i, trace[i]["T"], len(left), len(lost), trace[i].get("dangling_tag_rows", 0)),
                          expected="stored = accepted minus well-formed expirations < T, no tag row without its event",
                          observed={"still_stored": [x[:8] for x in left], "missing": [x[:8] for x in lost]})
    return s


# ------------------------------------------------------------------------------------ C13 / C19: REQ bursts on LMDB with the statistics path in place
def suite_kv_req_burst(tier, seed):
    s = Suite("oracle:kv-req-burst-every-req-answered")
    s.rule = ("LMDB backend with the REAL kv.analyze / analysis thread (the other suites run without the statistics thread): one connection sends a "
              "burst of 35-60 REQs (distinct ids, some with junk filters) through web.start_client faster than the analysis queue (30 entries, "
              "0.5 s each) drains, then an ordinary REQ on the same and on a second connection; every REQ with a usable filter must get exactly "
              "one EOSE, the others a NOTICE; non-trivial = the burst is longer than the analysis queue")
    rng = rng_for(seed, "kvburst")

    async def one(n, junk):
        from nostr_relay import web
        from nostr_relay.storage import kv
        from nostr_relay.config import Config
        from . import relay
        env.load_config(subscription_limit=200)
        env.patch_clock()
        sc = env.Scratch()
        st = await env.kv_storage(sc)
        kv.analyze = kv._verif_real_analyze
        Config.analysis_delay = 0.5
        try:
            for i in range(3):
                await st.add_event(env.mk_event(0, 1, env.NOW - i, [], "b%d" % i))
            await env.quiesce(st)
            out = []
            for cid, msgs in ((0, [["REQ", "r%d" % i, ({"kinds": [1], "limit": 2} if i not in junk else {"kinds": "x"})] for i in range(n)] + [["REQ", "probe", {"kinds": [1]}]]),
                              (1, [["REQ", "other", {"kinds": [1]}]])):
                sent, inbox = [], asyncio.Queue()

                async def ws_send(text, sent=sent):
                    sent.append(json.loads(text))

                async def ws_recv(inbox=inbox):
                    import falcon
                    item = await inbox.get()
                    if item is None:
                        raise falcon.WebSocketDisconnected()
                    return item

                async def ws_close(code=1000):
                    sent.append(["CLOSED", code])
                task = asyncio.create_task(web.start_client(st, ws_send, ws_recv, ws_close, logging.getLogger("verif.burst"),
                                                            rate_limiter=relay.NullLimiter(), remote_addr="10.0.0.%d" % cid))
                for m in msgs:
                    inbox.put_nowait(json.dumps(m))
                want = {m[1] for m in msgs}
                for _ in range(1500):
                    await asyncio.sleep(0.004)
                    done = {f[1] for f in sent if f[0] == "EOSE"}
                    notices = sum(1 for f in sent if f[0] == "NOTICE")
                    if len(done) + notices >= len(want) or task.done():
                        break
                inbox.put_nowait(None)
                try:
                    await asyncio.wait_for(task, 10)
                except Exception as e:      # noqa
                    sent.append(["ESCAPED", repr(e)])
                out.append((msgs, sent))
            return out
        finally:
            env.stub_analyze(kv)
            Config.analysis_delay = 0.0
            await env.close(st)
            sc.close()
    for _ in range(1 if tier == "quick" else 6):
        n = rng.randint(35, 60)
        junk = set(rng.sample(range(n), 3))
        res = env.run(one(n, junk))
        case = {"burst": n, "junk_filters_at": sorted(junk)}
        s.case(case, nontrivial=n > 31)
        for msgs, sent in res:
            eose = [f[1] for f in sent if f[0] == "EOSE"]
            for m in msgs:
                usable = isinstance(m[2].get("kinds"), list)
                k = eose.count(m[1])
                if usable and k != 1:
                    s.violate("req-met-with-silence" if k == 0 else "eose-repeated", dict(case, sub_id=m[1]),
                              "REQ %s of the burst got %d EOSE frames" % (m[1], k), observed=[f for f in sent if f[0] != "EVENT"][-6:])
                    break
            if any(f[0] in ("ESCAPED", "CLOSED") for f in sent):
                s.violate("handler-exception-escaped", case, "the connection was closed / an exception left the handler during a REQ burst",
                          observed=[f for f in sent if f[0] in ("ESCAPED", "CLOSED")])
    return s


# ------------------------------------------------------------------------------------ C13 / C19: a REQ whose query fails inside the engine
def suite_failing_query_answered(tier, seed):
    s = Suite("oracle:failing-query-still-answered")
    s.rule = ("SQL backend through web.start_client: REQs whose statement fails when it is executed - a NUL inside a tag value, 1100 over-long ids "
              "(expression depth), or an OperationalError injected at the SELECT of the k-th REQ by a SQLAlchemy listener - interleaved with "
              "ordinary REQs; every REQ must be answered (exactly one EOSE, or a NOTICE), ordinary REQs keep returning the stored events, the "
              "connection stays usable; non-trivial = an engine error really occurred while the REQ was served")
    rng = rng_for(seed, "failq")

    async def one(script):
        import sqlalchemy as sa
        import falcon
        from nostr_relay import web
        from . import relay
        env.load_config(subscription_limit=50)
        env.patch_clock()
        env.patch_web_sleep()
        sc = env.Scratch()
        st = await env.sql_storage(sc)
        state = {"inject": False, "errors": 0}

        def before(conn, cur, stmt, params, ctx, many):
            if state["inject"] and stmt.lstrip().upper().startswith("SELECT") and " events" in stmt:
                state["inject"] = False
                state["errors"] += 1
                raise sa.exc.OperationalError(stmt, params, Exception("injected by the harness"))
        sa.event.listen(st.db.sync_engine, "before_cursor_execute", before)

        def on_error(ctx):
            state["errors"] += 1
        sa.event.listen(st.db.sync_engine, "handle_error", on_error)
        try:
            for i in range(3):
                await st.add_event(env.mk_event(0, 1, env.NOW - i, [["t", "x"]], "f%d" % i))
            sent, inbox = [], asyncio.Queue()

            async def ws_send(text):
                sent.append(json.loads(text))

            async def ws_recv():
                item = await inbox.get()
                if item is None:
                    raise falcon.WebSocketDisconnected()
                return item

            async def ws_close(code=1000):
                sent.append(["CLOSED", code])
            task = asyncio.create_task(web.start_client(st, ws_send, ws_recv, ws_close, logging.getLogger("verif.failq"),
                                                        rate_limiter=relay.NullLimiter(), remote_addr="10.0.0.9"))
            out = []
            for sid, kind, flt in script:
                n0 = len(sent)
                if kind == "inject":
                    state["inject"] = True
                inbox.put_nowait(json.dumps(["REQ", sid, flt]))
                for _ in range(2500):
                    await asyncio.sleep(0.004)
                    if any((f[0] == "EOSE" and f[1] == sid) or f[0] in ("NOTICE", "CLOSED") for f in sent[n0:]) or task.done():
                        break
                await asyncio.sleep(0.02)
                new = sent[n0:]
                out.append({"sid": sid, "kind": kind, "eose": sum(1 for f in new if f[0] == "EOSE" and f[1] == sid),
                            "notice": sum(1 for f in new if f[0] == "NOTICE"), "events": sum(1 for f in new if f[0] == "EVENT" and f[1] == sid),
                            "closed": any(f[0] == "CLOSED" for f in new) or task.done()})
                state["inject"] = False
            inbox.put_nowait(None)
            try:
                await asyncio.wait_for(task, 10)
                escaped = None
            except Exception as e:      # noqa
                escaped = repr(e)
            return out, state["errors"], escaped
        finally:
            await env.close(st)
            sc.close()
    hostile = [("nul-in-value", {"#t": ["a\u0000b"]}), ("nul-in-second-value", {"#t": ["x", "\u0000"]}),
               ("many-long-ids", {"ids": ["%065x" % i for i in range(1100)]}), ("inject", {"kinds": [1]}), ("inject", {"#t": ["x"]})]
    for _ in range(3 if tier == "quick" else 20):
        script = []
        for i in range(rng.randint(4, 8)):
            if rng.random() < 0.5:
                kind, flt = rng.choice(hostile)
            else:
                kind, flt = "plain", {"kinds": [1]}
            script.append(("q%d" % i, kind, flt))
        script.append(("last", "plain", {"#t": ["x"]}))
        out, errors, escaped = env.run(one(script))
        case = {"script": [[a, b] for a, b, _ in script]}
        s.case(case, nontrivial=errors > 0)
        s.count("engine_errors", errors)
        for o in out:
            s.count("kind_" + o["kind"])
            if o["closed"]:
                s.violate("handler-exception-escaped", dict(case, at=o), "the connection was closed while serving REQ %s (%s)" % (o["sid"], o["kind"]), observed=o)
                break
            if o["eose"] + o["notice"] == 0:
                s.violate("req-met-with-silence", dict(case, at=o), "REQ %s (%s) got neither EOSE nor NOTICE" % (o["sid"], o["kind"]), observed=o)
                break
            if o["eose"] > 1:
                s.violate("eose-repeated", dict(case, at=o), "REQ %s got %d EOSE frames" % (o["sid"], o["eose"]), observed=o)
                break
            if o["kind"] == "plain" and o["events"] != 3:
                s.violate("plain-req-disturbed", dict(case, at=o), "an ordinary REQ after failing ones returned %d of 3 stored events" % o["events"], observed=o)
                break
        if escaped:
            s.violate("handler-exception-escaped", case, "an exception left the connection handler: " + escaped)
    return s


# ------------------------------------------------------------------------------------ C20: workers as the relay assembles them
def suite_two_workers(tier, seed):
    s = Suite("oracle:workers-share-accepted-events")
    s.rule = ("2-3 DBStorage workers on one SQLite file, assembled the way the relay does it (run_notifier: true in the configuration -> "
              "Config.should_run_notifier -> storage.setup() starts a NotifyClient, web.start_mainprocess_tasks starts the NotifyServer; only the "
              "port and the 2 s start-up sleep are replaced), one live subscriber per worker; a worker accepts an event before its notifier is "
              "connected (that announcement fails), then 4-10 events are accepted by random workers; every subscriber of EVERY worker must be "
              "pushed each event accepted after the workers were connected exactly once; non-trivial = events accepted by at least two different workers")
    rng = rng_for(seed, "c20workers")

    async def one(nworkers, script):
        import socket
        from nostr_relay import notifier, web
        from nostr_relay.config import Config
        from nostr_relay.storage import get_metadata
        from nostr_relay.storage.db import DBStorage
        env.load_config(run_notifier=True, output_validator="harness.extra.public_only")
        env.patch_clock()
        sock = socket.socket()
        sock.bind(("127.0.0.1", 0))
        port = sock.getsockname()[1]
        sock.close()
        saved = (notifier.NotifyClient.__init__, notifier.NotifyServer.__init__, notifier.asyncio)
        ci, si = saved[0], saved[1]

        def client_init(self, storage, port_=None, address="127.0.0.1"):
            ci(self, storage, port=port, address=address)

        servers = []
        ready = asyncio.Event()
        gate = asyncio.Event()          # held while the last worker accepts its early event: its notifier is not connected yet
        gate.set()

        class Remembering(dict):
            """the server's connection table, remembering every writer ever registered: a handler that ends on a peer's
            EOF does not close its writer, and NotifyServer.run cannot leave `async with server` before it is closed"""
            ever = []

            def __setitem__(self, k, v):
                Remembering.ever.append(v)
                dict.__setitem__(self, k, v)

        def server_init(self, port_=None):
            si(self, port=port)
            self.connections = Remembering()
            servers.append(self)

        async def start_server(*a, **k):
            srv = await asyncio.start_server(*a, **k)
            ready.set()
            return srv

        class NotifierAsyncio:
            def __getattr__(self, name):
                if name == "sleep":
                    return wait_for_server
                if name == "start_server":
                    return start_server
                return getattr(asyncio, name)

        async def wait_for_server(delay, result=None):
            # stands for the 2 s a worker waits before it connects: long enough for the main process to be listening
            try:
                await asyncio.wait_for(ready.wait(), 5)
                await asyncio.wait_for(gate.wait(), 5)
            except asyncio.TimeoutError:
                pass
            return result
        notifier.NotifyClient.__init__ = client_init
        notifier.NotifyServer.__init__ = server_init
        notifier.asyncio = NotifierAsyncio()
        sc = env.Scratch()
        url = "sqlite+aiosqlite:///" + sc.path(".sqlite3")
        workers, queues = [], []
        try:
            for i in range(nworkers):
                o = {"sqlalchemy.url": url, "validators": ["nostr_relay.validators.is_signed"]}
                Config.storage = dict(o)
                if i == nworkers - 1:
                    gate.clear()
                st = DBStorage(o)
                await st.setup()
                st._backend = "sql"
                if i == 0:
                    async with st.db.begin() as conn:
                        await conn.run_sync(get_metadata().create_all)
                    web.is_main_process.clear()
                    await web.start_mainprocess_tasks(st)
                q = asyncio.Queue()
                await st.subscribe(env.FakeClient("w%d" % i), "s", [{"kinds": [1, 20001]}], q)
                while True:                      # the stored answer (empty) is complete before anything is accepted
                    sid, ev = await asyncio.wait_for(q.get(), 20)
                    if ev is None:
                        break
                workers.append(st)
                queues.append(q)
            # the last worker accepts an event before its notifier is connected
            early = env.mk_event(0, 1, env.NOW - 100, [], "early")
            await workers[-1].add_event(early)
            await asyncio.sleep(0.02)
            early_failed = getattr(workers[-1].notifier, "writer", None) is None
            gate.set()
            for _ in range(600):
                await asyncio.sleep(0.01)
                if all(getattr(w.notifier, "writer", None) is not None for w in workers):
                    break
            await asyncio.sleep(0.05)
            connected = [w.notifier is not None and w.notifier.writer is not None for w in workers]
            for q in queues:
                while not q.empty():
                    q.get_nowait()
            accepted, raised = [], []          # accepted: ids every subscriber has to be pushed (events the output validator admits)
            import sqlalchemy as sa
            import time as _time
            slow = workers[script[0][0]]
            # the commits of one worker take a while (busy disk): its announcements must not overtake them
            # (the hook runs in SQLAlchemy's greenlet on the event-loop thread: await_only hands control back to the loop, as a
            # commit that waits for the disk does)
            from sqlalchemy.util import await_only
            sa.event.listen(slow.db.sync_engine, "commit", lambda conn: await_only(asyncio.sleep(0.05)))
            alive = list(range(len(workers)))

            async def submit(w, e, visible=True, probe=True):
                # somebody asks the other workers for the id before the event exists (a dead /e/<id> link that is followed early):
                # that must not keep the announcement from being delivered there later
                if probe and rng.random() < 0.5:
                    for o in alive:
                        if o != w:
                            try:
                                await workers[o].get_event(e["id"])
                            except Exception:      # noqa
                                pass
                try:
                    _, ok = await workers[w].add_event(e)
                except Exception as ex:      # noqa
                    raised.append("worker %d: %r" % (w, ex))
                    ok = await workers[w].get_event(e["id"]) is not None
                if ok and visible:
                    accepted.append(e["id"])
                await asyncio.sleep(0.01)
                return ok
            got = [[] for _ in workers]

            async def collect(expect_from):
                for _ in range(1500):
                    for i, q in enumerate(queues):
                        while not q.empty():
                            sid, ev = q.get_nowait()
                            if ev is not None:
                                got[i].append(ev.id)
                    if all(len(got[i]) >= len(accepted) for i in expect_from):
                        break
                    await asyncio.sleep(0.01)
                await asyncio.sleep(0.1)
                for i, q in enumerate(queues):
                    while not q.empty():
                        sid, ev = q.get_nowait()
                        if ev is not None:
                            got[i].append(ev.id)
            # a second process starting its own hub on the same port must not succeed (all workers have to meet at ONE hub)
            second = notifier.NotifyServer()
            second.start()
            await asyncio.sleep(0.2)
            second_hub_listening = not second._task.done()
            # phase 1: events accepted by random workers; some are for members only (the output validator withholds them from everybody here)
            for k, (w, c) in enumerate(script):
                secret = c.endswith("s")
                kind = 20001 if (k % 4 == 3 and not secret) else 1         # ephemeral events cross workers like any other (SQL keeps them until a pass)
                await submit(w, env.mk_event(k % 3, kind, env.NOW - 50 + k, [["t", "secret" if secret else "public"]], c), visible=not secret)
            # phase 2: an event, its author's deletion, and the same event again (accepted again once it is gone): E, D, E everywhere
            w2 = script[-1][0]
            E = env.mk_event(1, 1, env.NOW - 20, [["t", "public"]], "again")
            D = env.mk_event(1, 5, env.NOW - 10, [["e", E["id"]]], "bye")
            await submit(w2, E)
            await collect(alive)
            await submit(w2, D, visible=False)           # kind 5 does not match the subscribers' filter
            await asyncio.sleep(0.05)
            await submit(w2, E)
            await collect(alive)
            phase2 = [list(g) for g in got]
            # phase 2b: a receiving worker is busy (every query slot taken by long-running REQs) for 1.3 s while an id arrives:
            # the announcement has to wait for a slot, not to be dropped
            rcv = workers[-1]
            nslots = rcv.query_slot._value
            for _ in range(nslots):
                await rcv.query_slot.acquire()
            await submit(0 if len(workers) > 1 else 0, env.mk_event(2, 1, env.NOW - 8, [["t", "public"]], "while-busy"), probe=False)   # (a look-up would wait for a slot too)
            await asyncio.sleep(1.3)
            for _ in range(nslots):
                rcv.query_slot.release()
            await collect(alive)
            left = None
            if len(workers) >= 3:
                # phase 3: a worker that has announced events leaves; the others go on exchanging events
                left = next((w for w, _ in script if w != len(workers) - 1), 0)
                try:
                    workers[left].notifier._task.cancel()
                except Exception:
                    pass
                await asyncio.sleep(0.1)
                alive = [i for i in alive if i != left]
                for k in range(3):
                    await submit(alive[k % len(alive)], env.mk_event(k % 3, 1, env.NOW - 5 + k, [["t", "public"]], "after-leave%d" % k))
                await collect(alive)
            return accepted, got, connected, bool(Config.should_run_notifier), early_failed, raised, left, second_hub_listening
        finally:
            notifier.NotifyClient.__init__, notifier.NotifyServer.__init__, notifier.asyncio = saved
            web.is_main_process.clear()
            # the server's side of every connection is closed first: NotifyServer.run leaves `async with server`
            # only when no connection is left open (Server.wait_closed, Python 3.12)
            for wr in list(Remembering.ever):
                try:
                    wr.close()
                except Exception:
                    pass
            await asyncio.sleep(0.05)
            for w in workers:
                try:
                    if w.notifier is not None and w.notifier._task is not None:
                        w.notifier._task.cancel()
                except Exception:
                    pass
            await asyncio.sleep(0.05)
            for srv in servers:
                if srv._task is not None:
                    srv._task.cancel()
            await asyncio.sleep(0.05)
            for w in workers:
                await env.close(w)
            sc.close()
    for _ in range(2 if tier == "quick" else 12):
        n = rng.choice([2, 2, 3])
        script = [(rng.randrange(n), "w%d%s" % (k, "s" if rng.random() < 0.3 else "p")) for k in range(rng.randint(4, 10))]
        accepted, got, connected, should, early_failed, raised, left, second_hub = env.run(one(n, script))
        s.count("early_announcement_failed" if early_failed else "early_announcement_sent")
        case = {"workers": n, "accepted_by": [w for w, _ in script]}
        s.case(case, nontrivial=len({w for w, _ in script}) > 1)
        s.count("workers_%d" % n)
        if not should or not all(connected):
            s.violate("workers-not-connected", case, "run_notifier is configured but Config.should_run_notifier is %r / notifier connections: %r" % (should, connected))
            continue
        if second_hub:
            s.violate("second-hub-listening", case, "a second NotifyServer started on the port of the running hub and keeps serving: workers that connect to it "
                      "never hear from the workers on the first hub")
        if raised:
            s.violate("worker-add-event-raised", case, "accepting an event raised on a worker whose earlier announcement had failed: " + raised[0], observed=raised[:3])
        for i, g in enumerate(got):
            if i == left:
                continue                      # the worker that left is judged up to its departure by the others' view only
            if sorted(g) != sorted(accepted):
                missing = [x[:8] for x in accepted if x not in g]
                dup = sorted({x[:8] for x in g if g.count(x) > 1})
                s.violate("worker-missed-or-repeated-event", dict(case, worker=i),
                          "the subscriber of worker %d was pushed %d of %d accepted events (%d missing, %d repeated)" % (i, len(set(g) & set(accepted)), len(accepted), len(missing), len(dup)),
                          expected=len(accepted), observed={"missing": missing[:4], "repeated": dup[:4]})
                break
    return s


# ------------------------------------------------------------------------------------ C19: the idle timeout is a clean close
def suite_idle_timeout(tier, seed):
    s = Suite("oracle:idle-timeout-closes-cleanly")
    s.rule = ("web.start_client with message_timeout 0.6-1.0 s (real time): a connection with 1-3 subscriptions falls silent; it must be closed "
              "(code 1013) once, its handler must return without an exception, its registrations must be gone and its query / sender tasks "
              "finished, while a second connection (default timeout) keeps receiving live events; a connection that keeps sending is not closed; "
              "non-trivial = the idle connection held subscriptions when it timed out")
    rng = rng_for(seed, "idle")

    async def one(timeout_s, nsubs, backend):
        import falcon
        from nostr_relay import web
        from . import relay
        env.load_config(subscription_limit=10)
        env.patch_clock()
        sc = env.Scratch()
        st = await (env.sql_storage(sc) if backend == "sql" else env.kv_storage(sc))
        saved_async = web.asyncio
        web.asyncio = asyncio                      # real sleeps: the timeout is about real time
        obs = {}
        try:
            class C:
                def __init__(self):
                    self.inbox, self.sent, self.closed = asyncio.Queue(), [], []

                async def send(self, text):
                    self.sent.append(json.loads(text))

                async def recv(self):
                    item = await self.inbox.get()
                    if item is None:
                        raise falcon.WebSocketDisconnected()
                    return item

                async def close(self, code=1000):
                    self.closed.append(code)
            idle, busy, other = C(), C(), C()
            lim = relay.NullLimiter()
            tasks = {}
            for name, c, to in (("idle", idle, timeout_s), ("busy", busy, timeout_s), ("other", other, 1800)):
                tasks[name] = asyncio.create_task(web.start_client(st, c.send, c.recv, c.close, logging.getLogger("verif.idle"), rate_limiter=lim,
                                                                   remote_addr="10.2.0.1", message_timeout=to))
            for i in range(nsubs):
                idle.inbox.put_nowait(json.dumps(["REQ", "i%d" % i, {"kinds": [1]}]))
            other.inbox.put_nowait(json.dumps(["REQ", "o", {"kinds": [1]}]))
            t0 = asyncio.get_running_loop().time()
            k = 0
            while asyncio.get_running_loop().time() - t0 < timeout_s * 3 + 0.5:
                await asyncio.sleep(timeout_s / 4)
                k += 1
                busy.inbox.put_nowait(json.dumps(["CLOSE", "nothing%d" % k]))
            await st.add_event(env.mk_event(0, 1, env.NOW - 1, [], "after-timeout"))
            await env.quiesce(st)
            await asyncio.sleep(0.1)
            obs["idle_closed"] = idle.closed
            obs["idle_done"] = tasks["idle"].done()
            obs["idle_exc"] = repr(tasks["idle"].exception()) if tasks["idle"].done() and not tasks["idle"].cancelled() and tasks["idle"].exception() else None
            obs["busy_closed"] = busy.closed
            obs["busy_done"] = tasks["busy"].done()
            obs["registrations"] = sorted(len(v) for v in st.clients.values())
            obs["other_live"] = sum(1 for f in other.sent if f[0] == "EVENT")
            obs["idle_live_after_close"] = sum(1 for f in idle.sent if f[0] == "EVENT")
            for c in (idle, busy, other):
                c.inbox.put_nowait(None)
            await asyncio.wait(list(tasks.values()), timeout=5)
            obs["left_running"] = sum(1 for x in tasks.values() if not x.done())
        finally:
            web.asyncio = saved_async
            await env.close(st)
            sc.close()
        return obs
    for _ in range(2 if tier == "quick" else 8):
        timeout_s = rng.choice([0.6, 0.8, 1.0])
        nsubs = rng.randint(1, 3)
        backend = rng.choice(["sql", "kv"])
        obs = env.run(one(timeout_s, nsubs, backend))
        case = {"message_timeout": timeout_s, "subscriptions": nsubs, "backend": backend}
        s.case(case, nontrivial=nsubs > 0)
        want = {"idle_closed": [1013], "idle_done": True, "idle_exc": None, "busy_closed": [], "busy_done": False, "registrations": [1],
                "other_live": 1, "idle_live_after_close": 0, "left_running": 0}
        if obs != want:
            diff = {k: obs[k] for k in want if obs.get(k) != want[k]}
            cls = "handler-exception-escaped" if obs.get("idle_exc") else ("registrations-leaked" if "registrations" in diff else "idle-timeout-not-clean")
            s.violate(cls, case, "idle timeout: %r (expected %r)" % (diff, {k: want[k] for k in diff}), expected=want, observed=obs)
    return s


# ------------------------------------------------------------------------------------ C14: the output validator the relay ships
def suite_homeserver_output(tier, seed, backends=("sql", "kv")):
    s = Suite("oracle:recipe-whitelist_output_validator")
    s.rule = ("recipe.homeserver.whitelist_output_validator as documented (an event is sent iff its author is whitelisted, or the connection is "
              "authenticated as a whitelisted pubkey, or it is a kind-10002 relay list): (1) the full decision table author in/out x token "
              "none / {} / whitelisted / outsider x kind {1, 10002}; (2) configured as output_validator on a real storage with an anonymous, a "
              "whitelisted and an outsider connection holding live subscriptions: live pushes and a later stored answer per connection; SQL and "
              "LMDB; non-trivial = an outsider's event is delivered to the whitelisted connection and withheld from the others")
    rng = rng_for(seed, "c14home")
    from nostr_relay.recipe.homeserver import whitelist_output_validator
    import types
    wl = [env.PUBS[0]]
    cfg = types.SimpleNamespace(pubkey_whitelist=wl)
    for author in (0, 1):
        for tok in (None, {}, {"pubkey": env.PUBS[0], "roles": set("a")}, {"pubkey": env.PUBS[2], "roles": set("a")}):
            for kind in (1, 10002):
                from aionostr.event import Event
                ev = Event(**env.mk_event(author, kind, env.NOW - 5, [], "h"))
                got = bool(whitelist_output_validator(ev, {"config": cfg, "auth_token": tok, "client_id": "x"}))
                want = (author == 0) or bool(tok and tok.get("pubkey") in wl) or kind == 10002
                case = {"author_whitelisted": author == 0, "token": None if tok is None else tok.get("pubkey", "")[:8], "kind": kind}
                s.case(case, nontrivial=True)
                if got != want:
                    s.violate("recipe-validator-deviates", case, "whitelist_output_validator returned %r, documented behaviour is %r" % (got, want))

    async def one(backend, order, evs):
        env.load_config(authentication={"enabled": True, "actions": {"save": "arw", "query": "arw"}, "default_roles": ["r"]},
                        output_validator="nostr_relay.recipe.homeserver.whitelist_output_validator", pubkey_whitelist=wl)
        env.patch_clock()
        sc = env.Scratch()
        st = await (env.sql_storage(sc) if backend == "sql" else env.kv_storage(sc))
        toks = {"anon": {}, "member": {"pubkey": env.PUBS[0], "roles": set("a"), "now": env.NOW}, "outsider": {"pubkey": env.PUBS[2], "roles": set("a"), "now": env.NOW}}
        out = {"live": {}, "stored": {}}
        try:
            conns = {}
            for name in order:
                q = asyncio.Queue()
                c = env.FakeClient(name)
                await st.subscribe(c, "live", [{"kinds": [1, 10002]}], q, auth_token=toks[name])
                conns[name] = (c, q)
            for c, q in conns.values():        # the (empty) stored answer must be complete before anything is published
                while True:
                    sid, ev = await asyncio.wait_for(q.get(), 20)
                    if ev is None:
                        break
            for e in evs:
                await st.add_event(e, auth_token={"pubkey": env.PUBS[0], "roles": set("arw"), "now": env.NOW})
                await env.quiesce(st)
                for _ in range(3):
                    if st._notify_sub_tasks:
                        await asyncio.wait(st._notify_sub_tasks)
                    await asyncio.sleep(0)
            for name, (c, q) in conns.items():
                got = []
                while not q.empty():
                    sid, ev = q.get_nowait()
                    if ev is not None:
                        got.append(ev.id)
                out["live"][name] = sorted(got)
            for name, (c, q) in conns.items():
                evs2, oc = await env.req(st, [{"kinds": [1, 10002]}], sub_id="again", auth_token=toks[name], client=c)
                out["stored"][name] = sorted(e.id for e in evs2)
        finally:
            await env.close(st)
            sc.close()
        return out
    for backend in backends:
        for _ in range(2 if tier == "quick" else 15):
            order = ["anon", "member", "outsider"]
            rng.shuffle(order)
            evs = []
            for i in range(rng.randint(3, 6)):
                who = rng.choice([0, 1, 1])
                kind = rng.choice([1, 1, 10002]) if i else 1
                evs.append(env.mk_event(who, kind, env.NOW - 20 + i, [["r", "wss://x%d" % i]] if kind == 10002 else [], "hs%d" % i))
            evs.append(env.mk_event(1, 1, env.NOW - 1, [], "hs-outsider"))
            # replaceable kind 10002: only the newest per author stays stored
            out = env.run(one(backend, order, evs))
            case = {"backend": backend, "order": order, "events": [[e["id"][:8], e["pubkey"] == env.PUBS[0], e["kind"]] for e in evs]}
            s.case(case, nontrivial=True)

            def visible(name, e):
                return e["pubkey"] in wl or name == "member" or e["kind"] == 10002
            newest_list = {}
            for e in evs:
                if e["kind"] == 10002:
                    cur = newest_list.get(e["pubkey"])
                    if cur is None or e["created_at"] > cur["created_at"]:
                        newest_list[e["pubkey"]] = e
            for name in order:
                want_live = sorted(e["id"] for e in evs if visible(name, e))
                want_stored = sorted(e["id"] for e in evs if visible(name, e) and (e["kind"] != 10002 or newest_list[e["pubkey"]] is e))
                for path, want in (("live", want_live), ("stored", want_stored)):
                    if out[path][name] != want:
                        leaked = sorted(set(out[path][name]) - set(want))
                        s.violate("output-validator-foreign-context" if leaked else "output-validator-withholds", dict(case, full_events=evs, path=path, connection=name),
                                  "%s delivery to the %s connection differs from what whitelist_output_validator admits for it (%d leaked, %d withheld)"
                                  % (path, name, len(leaked), len(set(want) - set(out[path][name]))),
                                  expected=[x[:8] for x in want], observed=[x[:8] for x in out[path][name]])
                        break
    return s


# ------------------------------------------------------------------------------------ C07: two events in flight, one of them fails
def suite_concurrent_fault(tier, seed):
    s = Suite("fault:sql-concurrent-transactions")
    s.rule = ("file-backed SQLite (a real connection pool): a replacement A (supersedes two older versions, writes tag rows) and a kind-5 deletion B "
              "with three references by another author are submitted at the same time (asyncio.gather) while an OperationalError is injected at the "
              "k-th statement the engine executes, for every k until both complete untouched; afterwards the database (read with the sqlite3 module) "
              "must be one of: neither applied, only A, only B, both - each event wholly or not at all - and a refused event must not have been "
              "acknowledged; non-trivial = the fault hit one event while the other was in flight")
    import os
    import shutil
    import tempfile
    rng = rng_for(seed, "sqlconc")

    async def apply(path, evs, fault_at=None, concurrent=False):
        import sqlalchemy as sa
        from nostr_relay.config import Config
        from nostr_relay.storage import get_metadata
        from nostr_relay.storage.db import DBStorage
        env.load_config()
        env.patch_clock()
        o = {"sqlalchemy.url": "sqlite+aiosqlite:///" + path, "validators": ["nostr_relay.validators.is_signed"]}
        Config.storage = dict(o)
        st = DBStorage(o)
        await st.setup()
        async with st.db.begin() as conn:
            await conn.run_sync(get_metadata().create_all)
        n = [0]
        fired = [False]

        def before(conn, cur, stmt, params, ctx, many):
            if stmt.lstrip().upper().startswith("PRAGMA"):
                return
            k = n[0]
            n[0] += 1
            if fault_at is not None and k == fault_at:
                fired[0] = True
                raise sa.exc.OperationalError(stmt, params, Exception("injected by the harness"))
        sa.event.listen(st.db.sync_engine, "before_cursor_execute", before)

        async def add(e):
            try:
                _, ok = await st.add_event(dict(e))
                return bool(ok)
            except Exception as ex:      # noqa
                return type(ex).__name__
        try:
            if concurrent:
                res = await asyncio.gather(*[add(e) for e in evs])
            else:
                res = [await add(e) for e in evs]
        finally:
            await st.close()
        return res, n[0], fired[0]
    for h in range(1 if tier == "quick" else 6):
        wa, wb = rng.sample(range(3), 2)
        base = [env.mk_event(wa, 10002, env.NOW - 100 + i, [["r", "wss://x%d" % i], ["t", "k"]], "v%d" % i) for i in (0, 2)]
        notes = [env.mk_event(wb, 1, env.NOW - 100 + i, [["t", "k"]], "n%d" % i) for i in range(3)]
        A = env.mk_event(wa, 10002, env.NOW - 10, [["r", "wss://new"], ["t", "k"], ["p", env.PUBS[3]]], "newest")
        B = env.mk_event(wb, 5, env.NOW - 10, [["e", e["id"]] for e in notes] + [["t", "k"]], "bye")
        d = tempfile.mkdtemp(prefix="verif-conc-")
        try:
            p0 = os.path.join(d, "base.sqlite3")
            env.run(apply(p0, base + notes))
            refs = {}
            for name, evs in (("none", []), ("A", [A]), ("B", [B]), ("AB", [A, B])):
                pk = os.path.join(d, "ref-%s.sqlite3" % name)
                shutil.copy(p0, pk)
                env.run(apply(pk, evs))
                dump = _sqlite_dump(pk)
                refs[name] = {k2: dump[k2] for k2 in ("events", "tags")}
            for k in range(0, 60):
                pk = os.path.join(d, "k%d.sqlite3" % k)
                shutil.copy(p0, pk)
                for suffix in ("-wal", "-shm"):
                    if os.path.exists(p0 + suffix):
                        shutil.copy(p0 + suffix, pk + suffix)
                res, nstmt, fired = env.run(apply(pk, [A, B], fault_at=k, concurrent=True))
                if not fired:
                    break
                got = _sqlite_dump(pk)
                state = {k2: got[k2] for k2 in ("events", "tags")}
                which = [name for name, r in refs.items() if r == state]
                case = {"history": h, "fault_at_statement": k, "acks": res}
                s.case(case, nontrivial=True)
                s.count("state_" + (which[0] if which else "in-between"))
                if got["integrity"] != "ok" or not which:
                    s.violate("state-in-between-after-fault", case, "with two events in flight and an engine error in one of them the database is no combination of "
                              "wholly applied / not applied events", expected={n2: r["events"] for n2, r in refs.items()}, observed=got)
                    continue
                applied = {"none": (False, False), "A": (True, False), "B": (False, True), "AB": (True, True)}[which[0]]
                for name, ack, ap in (("A", res[0], applied[0]), ("B", res[1], applied[1])):
                    if ack is True and not ap:
                        s.violate("acked-but-not-applied", case, "%s was acknowledged as stored but is not in the database" % name, observed=which[0])
                    if ack is not True and ap:
                        s.violate("refused-but-applied", case, "%s was refused (%r) but is in the database" % (name, ack), observed=which[0])
        finally:
            shutil.rmtree(d, ignore_errors=True)
    return s


# ------------------------------------------------------------------------------------ C06: acknowledgements when a broadcast / announcement task fails
def suite_ack_with_failing_broadcast(tier, seed, backends=("sql", "kv")):
    s = Suite("oracle:ack-agrees-despite-failed-broadcast")
    s.rule = ("EVENT messages through web.start_client while earlier broadcast work FAILS: (a) a notifier whose announcement raises (worker not "
              "connected / peer gone), (b) an output validator that raises for one marked event while a live subscription matches it; 4-8 further "
              "valid events, a duplicate and a badly signed one follow; every EVENT gets exactly one OK, OK true <=> the event is stored afterwards, "
              "OK false => not stored, and later events are not refused because an earlier broadcast failed; SQL and LMDB; non-trivial = a broadcast "
              "task had failed before a later event was acknowledged")
    rng = rng_for(seed, "c06bcast")

    class DeadNotifier:
        def __init__(self):
            self.calls = 0

        async def notify(self, event):
            self.calls += 1
            raise ConnectionResetError("announcement failed (injected by the harness)")

    async def one(backend, mode, n):
        import falcon
        from nostr_relay import web
        from . import relay
        env.load_config(output_validator=("harness.extra.raise_for_marked" if mode == "validator" else None))
        env.patch_clock()
        env.patch_web_sleep()
        sc = env.Scratch()
        st = await (env.sql_storage(sc) if backend == "sql" else env.kv_storage(sc))
        if mode == "notifier":
            st.notifier = DeadNotifier()
        try:
            q = asyncio.Queue()
            await st.subscribe(env.FakeClient("watch"), "w", [{"kinds": [1]}], q)
            await env.drain_to_eose(q)
            evs = [env.mk_event(i % 3, 1, env.NOW - 50 + i, [["t", "marked" if i == 0 else "plain"]], "fb%d %d" % (i, rng.randrange(10 ** 6))) for i in range(n)]
            bad = dict(env.mk_event(0, 1, env.NOW - 5, [], "badsig"), sig="00" * 64)
            script = evs[:2] + [evs[0]] + evs[2:] + [bad]
            sent, inbox = [], asyncio.Queue()

            async def ws_send(text):
                sent.append(json.loads(text))

            async def ws_recv():
                item = await inbox.get()
                if item is None:
                    raise falcon.WebSocketDisconnected()
                return item

            async def ws_close(code=1000):
                sent.append(["CLOSED", code])
            task = asyncio.create_task(web.start_client(st, ws_send, ws_recv, ws_close, logging.getLogger("verif.fb"), rate_limiter=relay.NullLimiter(),
                                                        remote_addr="10.3.0.1"))
            acks = []
            for e in script:
                n0 = len(sent)
                inbox.put_nowait(json.dumps(["EVENT", e]))
                for _ in range(3000):
                    await asyncio.sleep(0.002)
                    if any(f[0] in ("OK", "CLOSED") for f in sent[n0:]) or task.done():
                        break
                await env.quiesce(st)
                oks = [f for f in sent[n0:] if f[0] == "OK"]
                acks.append({"id": e["id"], "oks": [[f[2], f[3]] for f in oks], "closed": any(f[0] == "CLOSED" for f in sent[n0:]) or task.done()})
            inbox.put_nowait(None)
            try:
                await asyncio.wait_for(task, 10)
                escaped = None
            except Exception as ex:      # noqa
                escaped = repr(ex)
            stored = set(await env.stored_ids(st))
            return acks, stored, escaped, [e["id"] for e in script], bad["id"]
        finally:
            await env.close(st)
            sc.close()
    for backend in backends:
        for mode in ("notifier", "validator"):
            for _ in range(1 if tier == "quick" else 5):
                n = rng.randint(4, 8)
                acks, stored, escaped, ids, bad_id = env.run(one(backend, mode, n))
                case = {"backend": backend, "failing": mode, "events": n}
                s.case(case, nontrivial=True)
                seen = set()
                for a in acks:
                    first = a["id"] not in seen
                    seen.add(a["id"])
                    if a["closed"]:
                        s.violate("handler-exception-escaped", dict(case, at=a), "the connection was closed while an EVENT was handled after a failed broadcast", observed=a)
                        break
                    if len(a["oks"]) != 1:
                        s.violate("ok-count", dict(case, at=a), "an EVENT message got %d OK frames" % len(a["oks"]), observed=a)
                        break
                    ok, reason = a["oks"][0]
                    if a["id"] == bad_id:
                        if ok or a["id"] in stored:
                            s.violate("ack:forged-acked", dict(case, at=a), "the badly signed event was acknowledged / stored", observed=a)
                        continue
                    if ok is not True and first:
                        s.violate("ack:valid-event-refused-after-failed-broadcast", dict(case, at=a),
                                  "a valid new event was answered OK false (%r) - and is %s - after an earlier broadcast / announcement had failed"
                                  % (reason, "stored all the same" if a["id"] in stored else "not stored"), observed=a)
                        break
                    if ok is True and a["id"] not in stored:
                        s.violate("ack:true-but-not-stored", dict(case, at=a), "OK true but the event is not stored", observed=a)
                        break
                    if ok is True and not first:
                        s.violate("ack:duplicate-acked-true-and-rebroadcast", dict(case, at=a), "a resubmitted event was acknowledged as new", observed=a)
                        break
                if escaped:
                    s.violate("handler-exception-escaped", case, "an exception left the connection handler: " + escaped)
    return s


def public_only(event, context):
    """output validator of the worker suites: events tagged t=secret are for members only - and nobody here is a member"""
    return not any(len(tg) > 1 and tg[0] == "t" and tg[1] == "secret" for tg in event.tags)


def raise_for_marked(event, context):
    """output validator used above: raises for the event tagged t=marked (a validator with a bug / an unreachable service), admits the rest"""
    if any(len(t) > 1 and t[0] == "t" and t[1] == "marked" for t in event.tags):
        raise RuntimeError("output validator failed (injected by the harness)")
    return True


# ------------------------------------------------------------------------------------ C06: LMDB shutdown with acknowledged events still queued
def suite_close_drains_queue(tier, seed):
    s = Suite("oracle:kv-close-writes-acknowledged-events")
    s.rule = ("LMDB backend: 3-8 events are acknowledged (OK true) while the harness holds the environment's write lock (so they only queue behind the "
              "writer thread); the lock is released and the storage closed at once (the relay's shutdown); a new storage on the same directory must "
              "hold every acknowledged event (by id and by a kinds query); non-trivial = at least two events were still queued at close()")
    rng = rng_for(seed, "kvclose")

    async def one(n):
        import lmdb
        env.load_config()
        env.patch_clock()
        env._KV_SEQ[0] += 1
        import os
        path = "shim-close-%d-%d" % (os.getpid(), env._KV_SEQ[0])
        lmdb.wipe(path)
        st = await env.kv_storage(None, path=path)
        evs = [env.mk_event(i % 3, 1, env.NOW - 20 + i, [["t", "q"]], "close%d %d" % (i, rng.randrange(10 ** 6))) for i in range(n)]
        # ... the last one is its author's deletion of the first event (acknowledged like the others, applied by the writer)
        doomed = evs[0]
        evs.append(env.mk_event(0, 5, env.NOW - 1, [["e", doomed["id"]], ["t", "q"]], "bye %d" % rng.randrange(10 ** 6)))
        acks = []
        st.db._wlock.acquire()
        try:
            for e in evs:
                acks.append(await _submit(st, e))
            queued = st.writer_queue.qsize()
        finally:
            st.db._wlock.release()
        await st.close()
        st2 = await env.kv_storage(None, path=path)
        try:
            found = []
            for e in evs:
                g = await st2.get_event(e["id"])
                found.append(g is not None)
            got, oc = await env.req(st2, [{"kinds": [1, 5], "#t": ["q"]}])
            byq = {x.id for x in got}
            # the deletion was acknowledged: after the restart it is stored and carried out
            found[0] = not found[0]
            if doomed["id"] not in byq:
                byq.add(doomed["id"])
            else:
                byq.discard(doomed["id"])
        finally:
            await env.close(st2)
            lmdb.wipe(path)
        return acks, found, [e["id"] in byq for e in evs], queued
    for _ in range(2 if tier == "quick" else 10):
        n = rng.randint(3, 8)
        acks, found, byq, queued = env.run(one(n))
        case = {"events": n, "queued_at_close": queued}
        s.case(case, nontrivial=queued >= 2)
        lost = [i for i, (a, f, q2) in enumerate(zip(acks, found, byq)) if a == "true" and not (f and q2)]
        if lost:
            s.violate("kv_acked_event_lost_at_close", case, "%d of %d acknowledged events are missing after close() and reopen" % (len(lost), n),
                      expected="every OK true event stored", observed={"acks": acks, "found_by_id": found, "found_by_query": byq})
    return s


# ------------------------------------------------------------------------------------ C09: hundreds of older versions of one address
def suite_many_versions(tier, seed, backends=("sql", "kv")):
    s = Suite("oracle:many-older-versions-superseded")
    s.rule = ("N in {520 (quick), 501, 620, 1100} older versions of one replaceable address (kind 10002, or kind 30023 with d='ab') arrive newest "
              "first - each is stored, as an import does - next to three bystanders (another author's version, the same author's other kind, the "
              "same author's d='a'); then the newest version arrives: exactly that version of the address may remain and the bystanders are "
              "untouched; SQL and LMDB; non-trivial = more than 500 versions were stored when the newest arrived")
    rng = rng_for(seed, "c09many")

    async def one(backend, kind, n):
        env.load_config()
        env.patch_clock()
        sc = env.Scratch()
        st = await (env.sql_storage(sc) if backend == "sql" else env.kv_storage(sc))
        try:
            d = [["d", "ab"]] if kind >= 30000 else []
            by = [env.mk_event(1, kind, env.NOW - 5, d, "other author"), env.mk_event(0, 1, env.NOW - 5, d, "other kind")]
            if kind >= 30000:
                by.append(env.mk_event(0, kind, env.NOW - 5, [["d", "a"]], "other d"))
            for e in by:
                await st.add_event(e)
            olds = [env.mk_event(0, kind, env.NOW - 10 - i, d + [["t", "v"]], "v%d" % i) for i in range(n)]
            acks = 0
            for e in olds:
                try:
                    _, ok = await st.add_event(e)
                    acks += bool(ok)
                except Exception:
                    pass
            await env.quiesce(st)
            before = len(await env.stored_ids(st))
            newest = env.mk_event(0, kind, env.NOW, d, "newest")
            _, ok = await st.add_event(newest)
            await env.quiesce(st)
            ids = set(await env.stored_ids(st))
            return {"stored_before": before, "acked_old": acks, "newest_ok": bool(ok), "left_old": sum(1 for e in olds if e["id"] in ids),
                    "newest_stored": newest["id"] in ids, "bystanders_left": sum(1 for e in by if e["id"] in ids), "bystanders": len(by)}
        finally:
            await env.close(st)
            sc.close()
    sizes = [520] if tier == "quick" else [501, 620, 1100]
    for backend in backends:
        for n in sizes:
            kind = rng.choice([10002, 30023]) if tier == "quick" else None
            for k in ([kind] if kind else [10002, 30023]):
                obs = env.run(one(backend, k, n))
                case = {"backend": backend, "kind": k, "older_versions": n}
                s.case(case, nontrivial=obs["stored_before"] > 500)
                if obs["left_old"] or not obs["newest_stored"] or obs["bystanders_left"] != obs["bystanders"]:
                    s.violate("older-version-survives" if obs["left_old"] else "replace-frame-broken", case,
                              "after the newest version arrived %d older versions are still stored; newest stored: %s; bystanders left: %d of %d"
                              % (obs["left_old"], obs["newest_stored"], obs["bystanders_left"], obs["bystanders"]), observed=obs)
    return s


# ------------------------------------------------------------------------------------ C05 / C13 / C19: connections whose id strings coincide
def suite_colliding_client_ids(tier, seed, backends=("sql",)):
    s = Suite("oracle:connections-with-equal-id-strings-stay-apart")
    s.rule = ("util.ClientID is '<address>-<2 random bytes>': behind a proxy two open connections get the same string once in a while. The random "
              "part is pinned (secrets.token_hex patched) so that 2-3 connections through web.start_client carry EQUAL id strings; each sends REQ "
              "'feed' (same subscription id), one sends CLOSE 'feed', one disconnects, events are published in between; every connection must get "
              "its own stored answer + EOSE, live events as long as ITS subscription is open, and nothing after its own CLOSE; non-trivial always")
    rng = rng_for(seed, "collide")

    async def one(backend, n):
        import falcon
        from nostr_relay import web, util
        from . import relay
        env.load_config(subscription_limit=10)
        env.patch_clock()
        env.patch_web_sleep()
        sc = env.Scratch()
        st = await (env.sql_storage(sc) if backend == "sql" else env.kv_storage(sc))
        real_hex = util.secrets.token_hex

        class PinnedSecrets:
            def __getattr__(self, name):
                if name == "token_hex":
                    return lambda nbytes=2: "ab" * nbytes
                return getattr(real_secrets, name)
        real_secrets = util.secrets
        util.secrets = PinnedSecrets()
        try:
            for i in range(3):
                await st.add_event(env.mk_event(i, 1, env.NOW - 100 + i, [], "stored%d" % i))
            await env.quiesce(st)

            class C:
                def __init__(self):
                    self.inbox, self.sent = asyncio.Queue(), []

                async def send(self, text):
                    self.sent.append(json.loads(text))

                async def recv(self):
                    item = await self.inbox.get()
                    if item is None:
                        raise falcon.WebSocketDisconnected()
                    return item

                async def close(self, code=1000):
                    self.sent.append(["CLOSED", code])
            conns = [C() for _ in range(n)]
            tasks = [asyncio.create_task(web.start_client(st, c.send, c.recv, c.close, logging.getLogger("verif.collide"), rate_limiter=relay.NullLimiter(),
                                                          remote_addr="10.9.9.9")) for c in conns]

            async def wait_for(c, pred, what):
                for _ in range(3000):
                    await asyncio.sleep(0.002)
                    if pred(c.sent):
                        return True
                return False
            ok = True
            for c in conns:
                c.inbox.put_nowait(json.dumps(["REQ", "feed", {"kinds": [1]}]))
                ok = await wait_for(c, lambda sent: any(f[0] == "EOSE" for f in sent), "eose") and ok
            e1 = env.mk_event(0, 1, env.NOW - 5, [], "live1")
            await st.add_event(e1)
            await env.quiesce(st)
            await asyncio.sleep(0.05)
            conns[0].inbox.put_nowait(json.dumps(["CLOSE", "feed"]))
            await asyncio.sleep(0.05)
            e2 = env.mk_event(1, 1, env.NOW - 4, [], "live2")
            await st.add_event(e2)
            await env.quiesce(st)
            await asyncio.sleep(0.05)
            conns[-1].inbox.put_nowait(None)
            await asyncio.wait([tasks[-1]], timeout=10)
            e3 = env.mk_event(2, 1, env.NOW - 3, [], "live3")
            await st.add_event(e3)
            await env.quiesce(st)
            await asyncio.sleep(0.05)
            obs = []
            for c in conns:
                obs.append({"eose": sum(1 for f in c.sent if f[0] == "EOSE"),
                            "stored": sum(1 for f in c.sent if f[0] == "EVENT" and f[2]["content"].startswith("stored")),
                            "live": sorted(f[2]["content"] for f in c.sent if f[0] == "EVENT" and f[2]["content"].startswith("live"))})
            for c in conns:
                c.inbox.put_nowait(None)
            await asyncio.wait(tasks, timeout=10)
            return obs, len({id(c) for c in conns})
        finally:
            util.secrets = real_secrets
            await env.close(st)
            sc.close()
    for backend in backends:
        for n in ((2,) if tier == "quick" else (2, 3, 3)):
            obs, _ = env.run(one(backend, n))
            case = {"backend": backend, "connections": n}
            s.case(case, nontrivial=True)
            want = []
            for i in range(n):
                live = ["live1"] if i == 0 else (["live1", "live2"] if i == n - 1 else ["live1", "live2", "live3"])
                want.append({"eose": 1, "stored": 3, "live": live})
            if obs != want:
                s.violate("connections-share-state", case, "connections whose ClientID strings coincide are not served independently",
                          expected=want, observed=obs)
    return s


# ------------------------------------------------------------------------------------ C16: values derived from the configuration follow a reload
def suite_config_reload(tier, seed):
    s = Suite("oracle:config-derived-values-follow-reload")
    s.rule = ("the relay's service key decides which kind-31494 events validators.is_service_event admits: Config.service_pubkey must be the "
              "public key of the CURRENT Config.service_privatekey after every Config.load(reload=True) / assignment (keys A, B, A, none), and a "
              "storage built after the reload admits service events of the new key and refuses those of the retired key")
    import coincurve
    from nostr_relay.config import Config
    keys = [env.SECRETS[0], env.SECRETS[1], env.SECRETS[0], None, env.SECRETS[2]]
    env.load_config()
    seen = []
    for k in keys:
        Config.service_privatekey = k
        got = Config.service_pubkey
        want = coincurve.PrivateKey(bytes.fromhex(k)).public_key.format()[1:].hex() if k else None
        seen.append((k[:6] if k else None, got == want))
        s.case({"key": k[:6] if k else None}, nontrivial=True)
        if got != want:
            s.violate("config-value-stale", {"sequence": [x[:6] if x else None for x in keys], "at": len(seen) - 1},
                      "Config.service_pubkey is %r after the service key was changed, expected %r" % (got and got[:8], want and want[:8]))
            break

    async def storage_follows():
        from nostr_relay.errors import StorageError
        out = []
        sc = env.Scratch()
        try:
            for k in (env.SECRETS[0], env.SECRETS[1]):
                env.load_config(service_privatekey=k)
                st = await env.sql_storage(sc, validators=["nostr_relay.validators.is_signed", "nostr_relay.validators.is_service_event"])
                try:
                    row = []
                    for who in (0, 1):
                        e = env.mk_event(who, 31494, env.NOW - 5, [["d", "auth:x%d" % who]], "svc by %d under %s" % (who, k[:4]))
                        try:
                            await st.add_event(e)
                            row.append(True)
                        except StorageError:
                            row.append(False)
                    out.append(row)
                finally:
                    await env.close(st)
        finally:
            sc.close()
        return out
    rows = env.run(storage_follows())
    s.case({"storages": 2}, nontrivial=True)
    if rows != [[True, False], [False, True]]:
        s.violate("config-value-stale", {"storages": "service key A then B"}, "after the service key changed, kind-31494 events are admitted by key: %r "
                  "(expected only the current key's: [[True, False], [False, True]])" % rows, observed=rows)
    return s


# ------------------------------------------------------------------------------------ C05 / C19: publishing while other connections come and go
def suite_publish_during_churn(tier, seed, backends=("sql",)):
    s = Suite("oracle:publishing-while-connections-churn")
    s.rule = ("a publisher sends N=150 (quick) / 400 events through web.start_client, waiting for each OK, while three other tasks keep opening "
              "connections, subscribing (first REQ of a fresh connection) and disconnecting as fast as the event loop lets them, and one subscriber "
              "stays; every EVENT must be answered OK true, the staying subscriber must receive every event exactly once and in order, no handler may "
              "let an exception escape, and no registration may be left at the end; non-trivial = at least 20 connections came and went meanwhile")
    rng = rng_for(seed, "churnpub")

    async def one(backend, N):
        import falcon
        from nostr_relay import web
        from . import relay
        env.load_config(subscription_limit=5)
        env.patch_clock()
        env.patch_web_sleep()
        sc = env.Scratch()
        st = await (env.sql_storage(sc) if backend == "sql" else env.kv_storage(sc))
        escaped = []

        class C:
            def __init__(self, addr):
                self.inbox, self.sent, self.addr = asyncio.Queue(), [], addr
                self.task = asyncio.create_task(self.run())

            async def run(self):
                try:
                    await web.start_client(st, self.send, self.recv, self.close, logging.getLogger("verif.churnpub"), rate_limiter=relay.NullLimiter(),
                                           remote_addr=self.addr)
                except BaseException as e:      # noqa
                    escaped.append(repr(e))

            async def send(self, text):
                self.sent.append(text)

            async def recv(self):
                item = await self.inbox.get()
                if item is None:
                    raise falcon.WebSocketDisconnected()
                return item

            async def close(self, code=1000):
                self.sent.append('["CLOSED", %d]' % code)
        try:
            H, P = C("10.4.0.1"), C("10.4.0.2")
            H.inbox.put_nowait(json.dumps(["REQ", "all", {"kinds": [1]}]))
            for _ in range(2000):
                await asyncio.sleep(0.005)
                if any(x.startswith('["EOSE"') for x in H.sent):
                    break
            stop = [False]
            churned = [0]

            async def churner(k):
                while not stop[0]:
                    c = C("10.4.1.%d" % k)
                    c.inbox.put_nowait(json.dumps(["REQ", "x", {"kinds": [1], "limit": 0}]))
                    await asyncio.sleep(0)
                    if rng.random() < 0.5:
                        await asyncio.sleep(0)
                    c.inbox.put_nowait(None)
                    await asyncio.wait([c.task], timeout=10)
                    churned[0] += 1
                    await asyncio.sleep(0.001)       # a few hundred connections per second, not as many as the loop can spin
            churners = [asyncio.create_task(churner(k)) for k in range(3)]
            evs = [env.mk_event(i % 3, 1, env.NOW - 5000 + i, [], "cp%d" % i) for i in range(N)]
            oks = []
            for e in evs:
                n0 = len(P.sent)
                P.inbox.put_nowait(json.dumps(["EVENT", e]))
                deadline = asyncio.get_running_loop().time() + 90
                while len(P.sent) == n0 and asyncio.get_running_loop().time() < deadline and not P.task.done():
                    await asyncio.sleep(0)
                oks.append(json.loads(P.sent[n0]) if len(P.sent) > n0 else None)
            stop[0] = True
            await asyncio.wait(churners, timeout=20)
            for _ in range(600):
                await asyncio.sleep(0.005)
                if sum(1 for x in H.sent if x.startswith('["EVENT"')) >= N:
                    break
            await asyncio.sleep(0.05)
            got = [json.loads(x)[2]["id"] for x in H.sent if x.startswith('["EVENT"')]
            for c in (H, P):
                c.inbox.put_nowait(None)
            await asyncio.wait([H.task, P.task], timeout=10)
            left = sum(len(v) for v in st.clients.values())
            bad_ok = [o for o in oks if not (o and o[0] == "OK" and o[2] is True)]
            return {"ok_true": len(oks) - len(bad_ok), "first_bad_ok": bad_ok[:1], "received": len(got), "in_order_once": got == [e["id"] for e in evs],
                    "escaped": escaped[:2], "registrations_left": left}, churned[0]
        finally:
            await env.close(st)
            sc.close()
    for backend in backends:
        N = 150 if tier == "quick" else 400
        obs, churned = env.run(one(backend, N))
        case = {"backend": backend, "events": N, "connections_churned": churned}
        s.case(case, nontrivial=churned >= 20)
        s.count("churned_%d+" % (churned // 50 * 50))
        want = {"ok_true": N, "first_bad_ok": [], "received": N, "in_order_once": True, "escaped": [], "registrations_left": 0}
        if obs != want:
            cls = "handler-exception-escaped" if obs["escaped"] else ("publisher-disturbed-by-other-connections" if obs["ok_true"] != N else "subscriber-disturbed-by-other-connections")
            s.violate(cls, case, "while other connections came and went: %r" % {k: v for k, v in obs.items() if v != want[k]}, expected=want, observed=obs)
    return s


# ------------------------------------------------------------------------------------ C06: integer tag items (admitted by is_signed)
def suite_int_tag_items(tier, seed, backends=("sql", "kv")):
    s = Suite("oracle:ack-agrees-for-integer-tag-items")
    s.rule = ("is_signed admits tag items that are integers; events whose e / p / t / d / expiration tags carry an integer where the backends expect "
              "a string (a kind-5 deletion with [\"e\", 5] next to a real reference, [\"p\", 7], [\"d\", 3] on a parameterized kind, ...) are "
              "submitted on both backends: whatever a backend decides, OK true <=> the event is stored afterwards, a refusal leaves no trace, and "
              "a deletion that is accepted is carried out for its well-formed references; non-trivial = the item sits in a tag the backend interprets")
    rng = rng_for(seed, "inttags")

    async def one(backend):
        env.load_config()
        env.patch_clock()
        sc = env.Scratch()
        st = await (env.sql_storage(sc) if backend == "sql" else env.kv_storage(sc))
        out = []
        try:
            own = [env.mk_event(0, 1, env.NOW - 60 - i, [], "own %d %d" % (i, rng.randrange(10 ** 6))) for i in range(4)]
            for e in own:
                await st.add_event(dict(e))
            await env.quiesce(st)
            shapes = [(5, [["e", 5], ["e", own[0]["id"]]]), (5, [["e", own[1]["id"]], ["e", 5]]), (5, [["e", 5]]), (1, [["p", 7]]), (1, [["t", 7], ["t", "x"]]),
                      (30000, [["d", 3]]), (30000, [["d", 3], ["t", "again"]]), (1, [["expiration", 5]]), (1, [["e", 12345], ["p", env.PUBS[1]]]),
                      (10002, [["r", 9]]), (5, [["e", own[2]["id"], 7]]), (1, [["delegation", 1, 2, 3]])]
            for k, (kind, tags) in enumerate(shapes):
                d = env.mk_event(0, kind, env.NOW - 10 + k, tags, "int item %d %d" % (k, rng.randrange(10 ** 6)))
                before = set(await env.stored_ids(st))
                r = await _submit(st, d)
                await env.quiesce(st)
                after = set(await env.stored_ids(st))
                refs = [tg[1] for tg in tags if tg[0] == "e" and isinstance(tg[1], str)]
                out.append({"kind": kind, "tags": tags, "ack": r, "stored": d["id"] in after, "removed_others": sorted(x[:8] for x in (before - after)),
                            "refs_gone": [x not in after for x in refs]})
            # after a series of events the backend could not store, an ordinary event must still be accepted - promptly
            for k in range(6):
                await _submit(st, env.mk_event(1, 1, env.NOW - 5, [[7, "int tag name %d" % k]], "unstorable %d %d" % (k, rng.randrange(10 ** 6))))
            plain = env.mk_event(1, 1, env.NOW - 4, [["t", "after"]], "plain after failures %d" % rng.randrange(10 ** 6))
            try:
                r = await asyncio.wait_for(_submit(st, plain), 15)
            except asyncio.TimeoutError:
                r = "WEDGED"
            await env.quiesce(st)
            out.append({"kind": 1, "tags": [["t", "after"]], "ack": r, "stored": plain["id"] in set(await env.stored_ids(st)) if r != "WEDGED" else False,
                        "removed_others": [], "refs_gone": [], "must_accept": True})
            # the same events as the TEXT a websocket client sends (the JSON decoder is part of the admission path): the answer must be
            # the one the storage gives for the decoded object
            if r != "WEDGED":
                big = [env.mk_event(2, 1, env.NOW - 3, [["nonce", "1", v]], "big %d %d" % (i, rng.randrange(10 ** 6))) for i, v in enumerate([2 ** 63 - 1, 2 ** 63, 2 ** 64 - 1, 2 ** 64, 10 ** 21, -(2 ** 63) - 1])]
                twin = [dict(e, content=e["content"] + " twin") for e in big]
                twin = [env.mk_event(2, 1, e["created_at"], e["tags"], e["content"]) for e in twin]
                direct = [await _submit(st, e) for e in twin]
                frames = await _frames_for_messages(st, [json.dumps(["EVENT", e]) for e in big])
                oks = [f for f in frames if isinstance(f, list) and f and f[0] == "OK"]
                for e, dr, okf in zip(big, direct, oks + [None] * len(big)):
                    wsr = ("true" if okf[2] is True else "refused") if okf else "no-ok-frame"
                    out.append({"kind": 1, "tags": e["tags"], "ack": wsr, "stored": True if wsr == "true" else False, "removed_others": [], "refs_gone": [],
                                "ws_vs_direct": [wsr, "true" if dr == "true" else "refused"]})
        finally:
            await env.close(st)
            sc.close()
        return out
    for backend in backends:
        for o in env.run(one(backend)):
            case = {"backend": backend, "kind": o["kind"], "tags": o["tags"]}
            s.case(case, nontrivial=o["tags"][0][0] in ("e", "d", "expiration", "delegation"))
            s.count("%s_%s" % (backend, o["ack"].split(":")[0]))
            if o.get("must_accept") and o["ack"] != "true":
                s.violate("ack:valid-event-refused-after-failures", case, "after six events the backend could not store, an ordinary valid event was answered %r" % o["ack"], observed=o)
            elif o.get("ws_vs_direct") and o["ws_vs_direct"][0] != o["ws_vs_direct"][1]:
                s.violate("ack:websocket-text-differs-from-object", case, "an event sent as websocket text was %s, the same event handed to the storage as an object "
                          "is %s" % tuple(o["ws_vs_direct"]), observed=o)
            elif o.get("ws_vs_direct"):
                pass
            elif o["ack"] == "true" and not o["stored"]:
                s.violate("ack:true-but-not-stored", case, "OK true but the event is not stored", observed=o)
            elif o["ack"] != "true" and (o["stored"] or o["removed_others"]):
                s.violate("ack:refused-left-trace", case, "the event was refused (%s) but left a trace" % o["ack"], observed=o)
            elif o["ack"] == "true" and o["kind"] == 5 and not all(o["refs_gone"]):
                s.violate("delete_ineffective", case, "the accepted deletion did not remove its author's older event it references", observed=o)
    return s


# ------------------------------------------------------------------------------------ C12 / C13: limits the configuration file does not mention
def suite_config_defaults(tier, seed, which=("subscription_limit", "max_limit")):
    s = Suite("oracle:limits-default-when-not-configured")
    s.rule = ("the configuration file names neither subscription_limit nor max_limit (test_config.yaml does not): the defaults of ConfigClass apply. "
              "(a) one connection sends 36 REQs with distinct ids: exactly the first 32 (the built-in subscription_limit) are accepted, the others "
              "refused with a NOTICE; (b) with the built-in max_limit (lowered for the test at CLASS level, as a different release default would be, "
              "never assigned to the Config object) 45 matching events are stored and REQs with limit 100 / 41 / none are answered with the newest "
              "40 (LMDB backend, which reads the cap when the REQ is planned)")
    from nostr_relay.config import Config

    async def subs():
        import falcon
        from nostr_relay import web
        from . import relay
        env.load_config()
        assert "subscription_limit" not in Config.__dict__
        env.patch_clock()
        env.patch_web_sleep()
        sc = env.Scratch()
        st = await env.sql_storage(sc)
        try:
            sent, inbox = [], asyncio.Queue()

            async def ws_send(text):
                sent.append(json.loads(text))

            async def ws_recv():
                item = await inbox.get()
                if item is None:
                    raise falcon.WebSocketDisconnected()
                return item

            async def ws_close(code=1000):
                sent.append(["CLOSED", code])
            task = asyncio.create_task(web.start_client(st, ws_send, ws_recv, ws_close, logging.getLogger("verif.defaults"), rate_limiter=relay.NullLimiter(),
                                                        remote_addr="10.5.0.1"))
            outcome = []
            for i in range(36):
                n0 = len(sent)
                inbox.put_nowait(json.dumps(["REQ", "sub%d" % i, {"kinds": [1], "limit": 0}]))
                for _ in range(3000):
                    await asyncio.sleep(0.002)
                    if any(f[0] in ("EOSE", "NOTICE", "CLOSED") for f in sent[n0:]) or task.done():
                        break
                outcome.append(next((f[0] for f in sent[n0:] if f[0] in ("EOSE", "NOTICE", "CLOSED")), "SILENCE"))
            inbox.put_nowait(None)
            await asyncio.wait([task], timeout=10)
            return outcome
        finally:
            await env.close(st)
            sc.close()

    async def cap(backend):
        env.load_config()
        assert "max_limit" not in Config.__dict__
        env.patch_clock()
        sc = env.Scratch()
        st = await (env.sql_storage(sc) if backend == "sql" else env.kv_storage(sc))
        try:
            evs = [env.mk_event(i % 3, 1, env.NOW - 100 + i, [], "dflt%d" % i) for i in range(45)]
            for e in evs:
                await st.add_event(dict(e))
            await env.quiesce(st)
            out = {}
            for lim in (100, 41, None):
                f = {"kinds": [1]}
                if lim is not None:
                    f["limit"] = lim
                got, oc = await env.req(st, [f])
                out[str(lim)] = sorted(e.created_at for e in got)
            return out
        finally:
            await env.close(st)
            sc.close()
    if "subscription_limit" in which:
        outcome = env.run(subs())
        case = {"reqs": 36, "configured": "nothing"}
        s.case(case, nontrivial=True)
        want = ["EOSE"] * 32 + ["NOTICE"] * 4
        if outcome != want:
            firstbad = next(i for i, (a, b) in enumerate(zip(outcome, want)) if a != b)
            s.violate("subscription-limit-default-ignored", case, "REQ number %d on one connection was answered %s; with the built-in limit of 32 subscriptions it "
                      "must be %s" % (firstbad + 1, outcome[firstbad], want[firstbad]), expected=want, observed=outcome)
    if "max_limit" in which:
        cls = type(Config)
        saved = cls.max_limit
        cls.max_limit = 40
        try:
            for backend in ("kv",):       # the SQL backend binds its cap when storage/base.py is imported (covered by the fresh-interpreter oracles)
                out = env.run(cap(backend))
                newest = sorted(env.NOW - 100 + i for i in range(45))[-40:]
                for lim, got in out.items():
                    case = {"backend": backend, "limit": lim, "built_in_max_limit": 40, "stored_matching": 45}
                    s.case(case, nontrivial=True)
                    if got != newest:
                        s.violate("limit-cap-or-newest", case, "with the built-in max_limit the REQ is not answered with the newest 40 events (%d sent)" % len(got),
                                  expected=newest[:3] + ["..."], observed=got[:3] + ["... %d" % len(got)])
        finally:
            cls.max_limit = saved
    return s


# ------------------------------------------------------------------------------------ C14: only the relay's own assignments count as roles
def suite_roles_forged(tier, seed, backends=("sql", "kv")):
    s = Suite("oracle:roles-only-from-the-relay")
    s.rule = ("role assignments read back exactly as last SET: after set_auth_roles(P, r) a client that may save publishes - under its own key, "
              "or under a third key - an event shaped like the relay's role record (kind 31494, d=auth:<P>, t=auth, p=<P>, content 'rws'), newer than "
              "the assignment; the roles of P (get_auth_roles, get_all_auth_roles, and the token a NIP-42 login of P obtains) must still be {r}; the "
              "same for a pubkey that was never assigned anything (default roles); SQL and LMDB; non-trivial always")
    rng = rng_for(seed, "c14forged")

    async def one(backend, signer, assigned):
        import types
        import aionostr.event as ae
        env.load_config(authentication={"enabled": True, "actions": {"save": "arw", "query": "r"}})
        env.patch_clock()
        sc = env.Scratch()
        st = await (env.sql_storage(sc) if backend == "sql" else env.kv_storage(sc))
        saved = ae.time
        ae.time = types.SimpleNamespace(time=env._now)
        try:
            P = env.PUBS[1]
            env.set_clock(env.NOW)
            if assigned:
                await st.set_auth_roles(P, "r")
                await env.quiesce(st)
            env.set_clock(env.NOW + 10)
            forged = env.mk_event(signer, 31494, env.NOW + 10, [["t", "auth"], ["d", "auth:" + P], ["p", P]], "rws")
            r = await _submit(st, forged)
            await env.quiesce(st)
            roles = "".join(sorted(await st.get_auth_roles(P)))
            allr = {}
            async for pk, rs in st.get_all_auth_roles():
                allr[pk] = "".join(sorted(rs))
            return {"forged_submission": r, "roles": roles, "all": allr.get(P)}
        finally:
            ae.time = saved
            env.set_clock(env.NOW)
            await env.close(st)
            sc.close()
    for backend in backends:
        for signer in (1, 2):
            for assigned in (True, False):
                obs = env.run(one(backend, signer, assigned))
                case = {"backend": backend, "forged_by": "the pubkey itself" if signer == 1 else "a third key", "assigned_before": assigned}
                s.case(case, nontrivial=True)
                want_roles = "r" if assigned else "a"
                want_all = "r" if assigned else None
                if obs["roles"] != want_roles or obs["all"] != want_all:
                    s.violate("roles-readback-stale", case, "a client's kind-31494 event changed what the relay reads back as the roles of a pubkey: %r / %r "
                              "(expected %r / %r)" % (obs["roles"], obs["all"], want_roles, want_all), observed=obs)
    return s


# ------------------------------------------------------------------------------------ C15: the accepted relay URLs are the configured ones, for good
def suite_recipe_relay_urls(tier, seed, backends=("sql", "kv")):
    s = Suite("oracle:accepted-relay-urls-stay-as-configured")
    s.rule = ("the homeserver recipe storage (recipe.homeserver.Private*Storage with forward_events, forwarding itself stubbed out) with NIP-42 enabled "
              "and relay_urls given as a list: a stranger publishes a relay list (kind 10002) naming its own relay, a whitelisted user mentions the "
              "stranger (which forwards the note to that relay); afterwards an AUTH answer made out to the stranger's relay, correctly signed and "
              "carrying this connection's challenge, must still be refused, the configured list and Authenticator.valid_urls must be unchanged, and an "
              "answer made out to the configured URL must still be accepted; non-trivial always")
    rng = rng_for(seed, "c15urls")

    async def one(backend):
        from nostr_relay.recipe import homeserver
        from nostr_relay.config import Config
        from nostr_relay.errors import AuthenticationError
        url = "ws://relay.example/"
        evil = "wss://evil.example/"
        urls = [url]
        env.load_config(authentication={"enabled": True, "relay_urls": urls, "actions": {"save": "a", "query": "a"}},
                        pubkey_whitelist=[env.PUBS[0]], forward_events=True)
        env.patch_clock()
        sc = env.Scratch()
        calls = []
        saved = homeserver.PostSaveForward._bounce_to_relay

        async def bounce(self, relay_url, event):
            calls.append(relay_url)
            return True
        homeserver.PostSaveForward._bounce_to_relay = bounce
        try:
            if backend == "sql":
                from nostr_relay.storage import get_metadata
                o = {"sqlalchemy.url": "sqlite+aiosqlite:///" + sc.path(".sqlite3"), "validators": ["nostr_relay.validators.is_signed"]}
                Config.storage = dict(o)
                st = homeserver.PrivateDBStorage(o)
                await st.setup()
                async with st.db.begin() as conn:
                    await conn.run_sync(get_metadata().create_all)
                st._backend = "sql"
            else:
                import lmdb
                import os
                from nostr_relay.storage import kv
                env.stub_analyze(kv)
                env._KV_SEQ[0] += 1
                path = "shim-recipe-%d-%d" % (os.getpid(), env._KV_SEQ[0])
                lmdb.wipe(path)
                o = {"class": "nostr_relay.recipe.homeserver.PrivateLMDBStorage", "path": path, "validators": ["nostr_relay.validators.is_signed"]}
                Config.storage = dict(o)
                st = homeserver.PrivateLMDBStorage(o)
                await st.setup()
                from . import app as _app
                _app.instrument(st, "kv")
            try:
                await st.add_event(env.mk_event(2, 10002, env.NOW - 20, [["r", evil]], "stranger's relays"))
                await env.quiesce(st)
                await st.add_event(env.mk_event(0, 1, env.NOW - 10, [["p", env.PUBS[2]]], "hello stranger %d" % rng.randrange(10 ** 6)))
                await env.quiesce(st)
                await asyncio.sleep(0.05)
                ch = st.authenticator.get_challenge("9.9.9.9")
                out = {"forwarded_to": sorted(set(calls)), "configured_after": list(Config.authentication.get("relay_urls")), "valid_urls_after": list(st.authenticator.valid_urls)}
                for name, relay in (("foreign", evil), ("configured", url)):
                    a = env.mk_event(2, 22242, env.NOW, [["relay", relay], ["challenge", ch]], "")
                    try:
                        tok = await st.authenticator.authenticate(a, challenge=ch)
                        out[name] = "accepted:" + str(tok.get("pubkey"))[:8]
                    except AuthenticationError as ex:
                        out[name] = "refused"
                    except Exception as ex:      # noqa
                        out[name] = "error:" + type(ex).__name__
                return out
            finally:
                await env.close(st)
        finally:
            homeserver.PostSaveForward._bounce_to_relay = saved
            sc.close()
    for backend in backends:
        obs = env.run(one(backend))
        case = {"backend": backend}
        s.case(case, nontrivial=bool(obs["forwarded_to"]))
        s.count("forwarded" if obs["forwarded_to"] else "not_forwarded")
        if obs["foreign"] != "refused" or not obs["configured"].startswith("accepted") or obs["configured_after"] != ["ws://relay.example/"] or obs["valid_urls_after"] != ["ws://relay.example/"]:
            s.violate("auth:foreign-relay-accepted", case, "after client activity the set of relay URLs an AUTH answer may name is no longer the configured one", observed=obs,
                      expected={"foreign": "refused", "configured": "accepted", "valid_urls_after": ["ws://relay.example/"]})
    return s


# ------------------------------------------------------------------------------------ C03: a forged copy racing the genuine event
def suite_forged_concurrent(tier, seed, backends=("sql", "kv")):
    s = Suite("oracle:forged-copy-racing-the-genuine-event")
    s.rule = ("the genuine event and 1-3 forged copies that claim its id (other content / another pubkey / a zero signature) are submitted at the same "
              "moment (asyncio.gather, genuine first, last or in the middle): every forged copy must be refused, exactly the genuine event is stored "
              "under that id, and subscribers are pushed the genuine fields only; SQL and LMDB")
    rng = rng_for(seed, "c03race")

    async def one(backend, pos, nforged):
        env.load_config()
        env.patch_clock()
        sc = env.Scratch()
        st = await (env.sql_storage(sc) if backend == "sql" else env.kv_storage(sc))
        try:
            q = asyncio.Queue()
            await st.subscribe(env.FakeClient("watch"), "w", [{"kinds": [1]}], q)
            await env.drain_to_eose(q)
            g = env.mk_event(0, 1, env.NOW - 5, [["t", "race"]], "genuine %d" % rng.randrange(10 ** 6))
            forged = []
            for k in range(nforged):
                f = dict(g)
                how = rng.choice(["content", "pubkey", "sig"])
                if how == "content":
                    f["content"] = "forged %d" % k
                elif how == "pubkey":
                    f["pubkey"] = env.PUBS[1]
                else:
                    f["sig"] = "00" * 64
                forged.append(f)
            batch = forged[:pos] + [g] + forged[pos:]
            res = await asyncio.gather(*[_submit(st, e) for e in batch])
            await env.quiesce(st)
            for _ in range(3):
                for tsk in list(st._notify_sub_tasks):
                    try:
                        await tsk
                    except Exception:
                        pass
                await asyncio.sleep(0)
            pushed = []
            while not q.empty():
                sid, ev = q.get_nowait()
                if ev is not None:
                    pushed.append(env.ev_obj(ev))
            got, oc = await env.req(st, [{"ids": [g["id"]]}])
            stored = [env.ev_obj(e) for e in got]
            return {"results": res, "genuine_at": pos, "pushed": pushed, "stored": stored}, g
        finally:
            await env.close(st)
            sc.close()
    for backend in backends:
        for _ in range(4 if tier == "quick" else 30):
            nforged = rng.randint(1, 3)
            pos = rng.randint(0, nforged)
            obs, g = env.run(one(backend, pos, nforged))
            case = {"backend": backend, "forged_copies": nforged, "genuine_at": pos}
            s.case(case, nontrivial=True)
            bad = [r for i, r in enumerate(obs["results"]) if i != pos and r in ("true", "duplicate")]
            wrong_fields = [e for e in obs["pushed"] + obs["stored"] if any(e[k] != g[k] for k in ("pubkey", "content", "sig", "tags", "kind", "created_at"))]
            if [r for i, r in enumerate(obs["results"]) if i != pos and r == "true"] or wrong_fields or len(obs["stored"]) != 1:
                s.violate("forged-replay-admitted", case, "a forged copy submitted together with the genuine event was acknowledged / stored / pushed: results %r, "
                          "%d stored under the id, %d pushed or stored with forged fields" % (obs["results"], len(obs["stored"]), len(wrong_fields)), observed=obs["results"])
    return s


# ------------------------------------------------------------------------------------ C05 / C19: the peer is gone while the relay answers it
def suite_peer_gone(tier, seed, backends=("sql",)):
    s = Suite("oracle:registrations-dropped-when-the-peer-vanishes")
    s.rule = ("a connection holds 1-2 subscriptions; then (a) it sends a REQ the relay refuses (too many subscriptions) and its socket raises "
              "WebSocketDisconnected when the NOTICE is written, or (b) it falls silent, message_timeout fires and ws_close raises because the socket "
              "is already dead, or (c) its handler task is cancelled by the server; afterwards no registration of that connection may be left "
              "and a later matching event is delivered to nobody; non-trivial always")
    rng = rng_for(seed, "peergone")

    async def one(backend, how, nsubs):
        import falcon
        from nostr_relay import web
        from . import relay
        env.load_config(subscription_limit=nsubs)
        env.patch_clock()
        sc = env.Scratch()
        st = await (env.sql_storage(sc) if backend == "sql" else env.kv_storage(sc))
        saved_async = web.asyncio
        web.asyncio = asyncio
        try:
            inbox, sent, dead = asyncio.Queue(), [], [False]

            async def ws_send(text):
                if dead[0]:
                    raise falcon.WebSocketDisconnected()
                sent.append(json.loads(text))

            async def ws_recv():
                item = await inbox.get()
                if item is None:
                    raise falcon.WebSocketDisconnected()
                return item

            async def ws_close(code=1000):
                if dead[0]:
                    raise falcon.WebSocketDisconnected()
                sent.append(["CLOSED", code])
            task = asyncio.create_task(web.start_client(st, ws_send, ws_recv, ws_close, logging.getLogger("verif.gone"), rate_limiter=relay.NullLimiter(),
                                                        remote_addr="10.7.0.1", message_timeout=(0.4 if how == "timeout" else 1800)))
            for i in range(nsubs):
                inbox.put_nowait(json.dumps(["REQ", "g%d" % i, {"kinds": [1]}]))
            for _ in range(2000):
                await asyncio.sleep(0.003)
                if sum(1 for f in sent if f[0] == "EOSE") >= nsubs:
                    break
            registered_before = sum(len(v) for v in st.clients.values())
            dead[0] = True
            if how == "refused-req":
                inbox.put_nowait(json.dumps(["REQ", "one-too-many", {"kinds": [1]}]))
            elif how == "cancel":
                await asyncio.sleep(0.05)
                task.cancel()
            try:
                await asyncio.wait_for(asyncio.gather(task, return_exceptions=True), 8)
                ended = True
            except asyncio.TimeoutError:
                ended = False
            left = sum(len(v) for v in st.clients.values())
            q = asyncio.Queue()
            await st.add_event(env.mk_event(0, 1, env.NOW - 1, [], "after %d" % rng.randrange(10 ** 6)))
            await env.quiesce(st)
            return {"registered_before": registered_before, "handler_ended": ended, "registrations_left": left}
        finally:
            web.asyncio = saved_async
            await env.close(st)
            sc.close()
    for backend in backends:
        for how in ("refused-req", "timeout", "cancel"):
            nsubs = rng.randint(1, 2)
            obs = env.run(one(backend, how, nsubs))
            case = {"backend": backend, "peer_vanishes_during": how, "subscriptions": nsubs}
            s.case(case, nontrivial=obs["registered_before"] == nsubs)
            if not obs["handler_ended"] or obs["registrations_left"]:
                s.violate("registrations-leaked", case, "after the peer vanished (%s): handler ended: %s, registrations left: %d" % (how, obs["handler_ended"], obs["registrations_left"]), observed=obs)
    return s


# ------------------------------------------------------------------------------------ C14: partial configurations, non-ASCII role letters, overlapping service writes
def suite_authz_corners(tier, seed, backends=("sql", "kv")):
    s = Suite("oracle:authorization-corner-cases")
    s.rule = ("(1) authentication.actions naming only `save` or only `query`: the action that is not named keeps its built-in requirement (the anonymous "
              "role), checked for tokens with and without that role through Authenticator.can_do; (2) role strings with letters whose lower-case and "
              "case-folded forms differ (sharp s, long s, micro sign, dotted capital I): set_auth_roles then get_auth_roles gives exactly set(x.lower()) on "
              "both backends - in particular never the admin role 's'; (3) two role assignments written at the same moment (asyncio.gather) while an "
              "anonymous client submits an EVENT and a REQ to a relay whose save / query need a role: both refused, and enforcement still on afterwards")
    rng = rng_for(seed, "c14corners")
    from nostr_relay.auth import Authenticator

    class S:
        pass
    for only, roles in (("save", "w"), ("query", "r"), ("save", "rw"), ("query", "s")):
        a = Authenticator(S(), {"enabled": True, "actions": {only: roles}})
        other = "query" if only == "save" else "save"
        for tok_roles in ("w", "r", "a", "aw", "s", ""):
            tok = {"pubkey": env.PUBS[1], "roles": set(tok_roles), "now": env.NOW}
            got = bool(env.run(a.can_do(tok, other, None)))
            want = "a" in tok_roles
            case = {"configured": {only: roles}, "asked": other, "token_roles": tok_roles}
            s.case(case, nontrivial=True)
            if got != want:
                s.violate("restricted-but-something-happened" if got else "permitted-but-refused", case,
                          "with only %r configured, %r for a token with roles %r is %s; the action keeps its built-in requirement (role 'a')" % (only, other, tok_roles, "allowed" if got else "refused"))

    async def uni(backend):
        import types
        import aionostr.event as ae
        env.load_config(authentication={"enabled": True, "actions": {"save": "s", "query": "s"}})
        env.patch_clock()
        sc = env.Scratch()
        st = await (env.sql_storage(sc) if backend == "sql" else env.kv_storage(sc))
        saved = ae.time
        ae.time = types.SimpleNamespace(time=env._now)
        out = []
        try:
            for k, x in enumerate(["\u00df", "\u017fx", "\u00b5", "w", "\u0130r", "S\u00df"]):
                env.set_clock(env.NOW + k)
                await st.set_auth_roles(env.PUBS[1], x)
                await env.quiesce(st)
                out.append((x, "".join(sorted(await st.get_auth_roles(env.PUBS[1])))))
        finally:
            ae.time = saved
            env.set_clock(env.NOW)
            await env.close(st)
            sc.close()
        return out

    async def overlap(backend):
        env.load_config(authentication={"enabled": True, "actions": {"save": "w", "query": "r"}})
        env.patch_clock()
        sc = env.Scratch()
        st = await (env.sql_storage(sc) if backend == "sql" else env.kv_storage(sc))
        try:
            ev = env.mk_event(2, 1, env.NOW - 5, [], "anonymous %d" % rng.randrange(10 ** 6))

            async def anon():
                await asyncio.sleep(0)
                r1 = await _submit(st, ev)
                _, oc = await env.req(st, [{"kinds": [1]}], auth_token={})
                return r1, oc
            res = await asyncio.gather(st.set_auth_roles(env.PUBS[0], "w"), st.set_auth_roles(env.PUBS[1], "r"), anon(), return_exceptions=True)
            await env.quiesce(st)
            after_ev = await _submit(st, env.mk_event(2, 1, env.NOW - 4, [], "anonymous later %d" % rng.randrange(10 ** 6)))
            _, after_req = await env.req(st, [{"kinds": [1]}], auth_token={})
            return {"during": res[2] if not isinstance(res[2], Exception) else repr(res[2]), "enabled_after": bool(st.authenticator.is_enabled),
                    "event_after": after_ev, "req_after": after_req, "stored": ev["id"] in await env.stored_ids(st)}
        finally:
            await env.close(st)
            sc.close()
    for backend in backends:
        for x, got in env.run(uni(backend)):
            want = "".join(sorted(set(x.lower())))
            case = {"backend": backend, "assigned": x}
            s.case(case, nontrivial=x.lower() != x.casefold())
            if got != want:
                s.violate("roles-readback-stale", case, "roles assigned as %r read back as %r (expected %r)" % (x, got, want), observed=got)
        obs = env.run(overlap(backend))
        case = {"backend": backend, "overlapping_service_writes": 2}
        s.case(case, nontrivial=True)
        dur = obs["during"]
        ok = (isinstance(dur, (tuple, list)) and str(dur[0]).startswith("refused") and str(dur[1]).startswith("notice") and obs["enabled_after"]
              and str(obs["event_after"]).startswith("refused") and str(obs["req_after"]).startswith("notice") and not obs["stored"])
        if not ok:
            s.violate("restricted-but-something-happened", case, "while / after the relay wrote its own role records an anonymous client was not refused: %r" % (obs,), observed=obs)
    return s


# ------------------------------------------------------------------------------------ C11: asking twice with the same filter object
def suite_filter_object_reuse(tier, seed, backends=("sql", "kv")):
    s = Suite("oracle:same-filter-object-same-answer")
    s.rule = ("the internal callers (dynamic lists, service look-ups, run_single_query users) keep their filter dicts and ask again later: validating a "
              "filter must not change the caller's object, and the same dict asked twice - also after non-matching neighbours were stored in between - "
              "gives the same answer; filters with #tag conditions, tags + since, ids + kinds; both backends")
    rng = rng_for(seed, "c11reuse")

    async def one(backend):
        import copy
        from nostr_relay.storage.base import NostrQuery
        env.load_config()
        env.patch_clock()
        sc = env.Scratch()
        st = await (env.sql_storage(sc) if backend == "sql" else env.kv_storage(sc))
        out = []
        try:
            evs = [env.mk_event(i % 3, 1, env.NOW - 50 + i, [["t", "apple" if i % 2 else "pear"], ["p", env.PUBS[i % 3]]], "reuse %d %d" % (i, rng.randrange(10 ** 6))) for i in range(6)]
            for e in evs:
                await st.add_event(dict(e))
            await env.quiesce(st)
            filters = [{"kinds": [1], "#t": ["apple"]}, {"#t": ["pear"], "since": env.NOW - 49}, {"#p": [env.PUBS[1]], "#t": ["apple", "pear"]}, {"ids": [evs[0]["id"]], "kinds": [1]}]
            for f in filters:
                before = copy.deepcopy(f)
                first = sorted([e.id async for e in st.run_single_query([f])])
                unchanged1 = f == before
                for k in range(3):
                    await st.add_event(env.mk_event(k, 7, env.NOW - 10 + k, [["t", "plum"]], "neighbour %d %d" % (k, rng.randrange(10 ** 6))))
                    await st.add_event(env.mk_event(k, 1, env.NOW - 10 + k, [["t", "plum"]], "neighbour1 %d %d" % (k, rng.randrange(10 ** 6))))
                await env.quiesce(st)
                second = sorted([e.id async for e in st.run_single_query([f])])
                NostrQuery.model_validate(f)
                out.append({"filter": before, "object_unchanged": unchanged1 and f == before, "first": first, "second": second})
        finally:
            await env.close(st)
            sc.close()
        return out
    for backend in backends:
        for o in env.run(one(backend)):
            case = {"backend": backend, "filter": o["filter"]}
            s.case(case, nontrivial=bool(o["first"]))
            s.count("object_left_alone" if o["object_unchanged"] else "object_rewritten")
            if o["first"] != o["second"]:
                s.violate("c11:frame", case, "asking twice with the same filter object (non-matching events stored in between): answers of %d then %d events; "
                          "the relay %s the caller's object" % (len(o["first"]), len(o["second"]), "left alone" if o["object_unchanged"] else "rewrote"), observed=o)
    return s


# ------------------------------------------------------------------------------------ C02 / C12 / C13: many REQs at the same moment
def suite_simultaneous_reqs(tier, seed, backends=("sql", "kv")):
    s = Suite("oracle:simultaneous-reqs-all-answered-in-full")
    s.rule = ("14-30 REQs (more than num_concurrent_reqs) for the same and for different filters are opened at the same moment on 3 connections "
              "(asyncio.gather over BaseStorage.subscribe); every one must receive exactly the answer the same REQ receives alone, followed by its "
              "EOSE - none may be shed, truncated or answered empty; SQL and LMDB; non-trivial = more REQs in flight than query slots")
    rng = rng_for(seed, "simreq")

    async def one(backend, n):
        env.load_config(subscription_limit=64)
        env.patch_clock()
        sc = env.Scratch()
        st = await (env.sql_storage(sc) if backend == "sql" else env.kv_storage(sc))
        try:
            evs = [env.mk_event(i % 3, rng.choice([1, 1, 7]), env.NOW - 100 + i, [["t", rng.choice(["x", "y"])]], "sim %d %d" % (i, rng.randrange(10 ** 6))) for i in range(12)]
            for e in evs:
                await st.add_event(dict(e))
            await env.quiesce(st)
            pool = [{"kinds": [1], "limit": 50}, {"kinds": [7], "limit": 50}, {"#t": ["x"], "limit": 50}, {"authors": [env.PUBS[0]], "limit": 3}, {"kinds": [1, 7], "limit": 2}]
            alone = {}
            for k, f in enumerate(pool):
                got, oc = await env.req(st, [f], sub_id="alone%d" % k)
                alone[k] = (sorted(e.id for e in got), oc)
            clients = [env.FakeClient("sim%d" % i) for i in range(3)]
            picks = [rng.randrange(len(pool)) for _ in range(n)]
            res = await asyncio.gather(*[env.req(st, [pool[k]], sub_id="r%d" % i, client=clients[i % 3], timeout=90) for i, k in enumerate(picks)])
            diag = {}
            if any(oc == "silence" for _, oc in res):
                import threading
                try:
                    diag = {"threads": threading.active_count(), "pool": st.db.pool.status() if backend == "sql" else None,
                            "free_query_slots": getattr(getattr(st, "query_slot", None), "_value", None)}
                except Exception as e:      # noqa
                    diag = {"diag_error": repr(e)}
            return picks, alone, [(sorted(e.id for e in got), oc) for got, oc in res], diag
        finally:
            await env.close(st)
            sc.close()
    for backend in backends:
        for n in ((14,) if tier == "quick" else (14, 22, 30)):
            picks, alone, res, diag = env.run(one(backend, n))
            case = {"backend": backend, "simultaneous": n}
            s.case(case, nontrivial=n > 10)
            wrong = [(i, k) for i, (k, r) in enumerate(zip(picks, res)) if r != alone[k]]
            if wrong and all(res[i][1] == "silence" for i, _ in wrong):
                # "silence" is the one verdict that depends on real time (90 s without an answer): it is reported when it shows again
                # on a second, fresh relay with as many simultaneous REQs (DESIGN 11.4: seen once, on a machine running ten checks and two Coq builds)
                first = {"silent": len(wrong), "diag": diag}
                picks, alone, res, diag = env.run(one(backend, n))
                case = dict(case, first_attempt=first)
                wrong = [(i, k) for i, (k, r) in enumerate(zip(picks, res)) if r != alone[k]]
            if wrong:
                i, k = wrong[0]
                s.violate("req-shed-or-truncated", dict(case, first_wrong=i), "%d of %d simultaneous REQs were not answered like the same REQ alone (REQ %d: %d events, %s; alone: %d events, %s)"
                          % (len(wrong), n, i, len(res[i][0]), res[i][1], len(alone[k][0]), alone[k][1]), observed={"answers": [(len(r[0]), r[1]) for r in res], "diag": diag})
    return s


# ------------------------------------------------------------------------------------ C13 / C19: big answers abandoned mid-stream
def suite_abandoned_big_queries(tier, seed, backends=("sql",)):
    s = Suite("oracle:abandoned-big-answers-do-not-starve-later-reqs")
    s.rule = ("320 matching events are stored; 12 connections (more than num_concurrent_reqs) each send a REQ for all of them and go away at once, "
              "without reading; afterwards a fresh connection's REQ must be answered (its events and EOSE) within 20 s; non-trivial always")
    rng = rng_for(seed, "abandon")

    async def one(backend):
        import falcon
        from nostr_relay import web
        from . import relay
        env.load_config(subscription_limit=10)
        env.patch_clock()
        env.patch_web_sleep()
        sc = env.Scratch()
        st = await (env.sql_storage(sc) if backend == "sql" else env.kv_storage(sc))
        try:
            for i in range(320):
                await st.add_event(env.mk_event(i % 3, 1, env.NOW - 1000 + i, [], "big %d %d" % (i, rng.randrange(10 ** 6))))
            await env.quiesce(st)

            async def conn(messages, wait_eose=None, hang_up=True):
                sent, inbox = [], asyncio.Queue()

                async def ws_send(text):
                    sent.append(text[:12])

                async def ws_recv():
                    item = await inbox.get()
                    if item is None:
                        raise falcon.WebSocketDisconnected()
                    return item

                async def ws_close(code=1000):
                    sent.append("CLOSED")
                task = asyncio.create_task(web.start_client(st, ws_send, ws_recv, ws_close, logging.getLogger("verif.abandon"), rate_limiter=relay.NullLimiter(),
                                                            remote_addr="10.8.0.1"))
                for m in messages:
                    inbox.put_nowait(json.dumps(m))
                if wait_eose:
                    for _ in range(4000):
                        await asyncio.sleep(0.005)
                        if any(x.startswith('["EOSE"') for x in sent) or task.done():
                            break
                else:
                    await asyncio.sleep(0)
                inbox.put_nowait(None)
                try:
                    await asyncio.wait_for(task, 15)
                except Exception:
                    pass
                return sent
            for k in range(12):
                await conn([["REQ", "all", {"kinds": [1], "limit": 400}]])
            await asyncio.sleep(0.3)
            probe = await conn([["REQ", "probe", {"kinds": [1], "limit": 5}]], wait_eose=True)
            pending = [t for t in asyncio.all_tasks() if not t.done() and "run_query" in repr(t.get_coro())]
            return {"probe_events": sum(1 for x in probe if x.startswith('["EVENT"')), "probe_eose": any(x.startswith('["EOSE"') for x in probe), "query_tasks_pending": len(pending)}
        finally:
            await env.close(st)
            sc.close()
    for backend in backends:
        obs = env.run(one(backend))
        case = {"backend": backend, "abandoned_connections": 12, "stored_matching": 320}
        s.case(case, nontrivial=True)
        if not obs["probe_eose"] or obs["probe_events"] != 5:
            s.violate("req-met-with-silence", case, "after 12 connections abandoned a big answer, a fresh REQ got %d of 5 events and %s EOSE" % (obs["probe_events"], "an" if obs["probe_eose"] else "no"), observed=obs)
    return s


# ------------------------------------------------------------------------------------ C12
CAP_SCRIPT = r'''
import sys, json, asyncio, logging
logging.disable(logging.CRITICAL)
from nostr_relay.config import Config
Config.load(sys.argv[1], reload=True)
Config.max_limit = 8          # configured BEFORE the storage modules are imported, as a deployment does
sys.path.insert(0, "/verif")
from harness import env
async def main():
    env.load_config(max_limit=8)
    env.patch_clock()
    out = {}
    sc = env.Scratch()
    for backend in ("sql", "kv"):
        st = await (env.sql_storage(sc) if backend == "sql" else env.kv_storage(sc))
        evs = [env.mk_event(i % 3, 1, env.NOW - 100 + i, [["t", "x"]], "cap%d" % i) for i in range(12)]
        for e in evs:
            await st.add_event(dict(e))
        await env.quiesce(st)
        res = {}
        for lim in (None, 0, 1, 7, 8, 9, 100, 10 ** 12):
            f = {"kinds": [1]}
            if lim is not None:
                f["limit"] = lim
            got, outcome = await env.req(st, [f])
            res[str(lim)] = [e.created_at for e in got]
        out[backend] = res
        await env.close(st)
    sc.close()
    print("RESULT " + json.dumps(out))
env.run(main())
'''


ASGI_SCRIPT = r'''
import sys, json, asyncio, logging, os
logging.disable(logging.CRITICAL)
# the order a deployment follows (asgi.py / gunicorn): the web module first, the configuration file is read inside create_app()
import nostr_relay.web as web
import yaml
conf_src, workdir = sys.argv[1], sys.argv[2]
conf = yaml.safe_load(open(conf_src))
conf["logging"] = None
conf["garbage_collector"] = None
conf["max_limit"] = 8
conf["storage"] = {"sqlalchemy.url": "sqlite+aiosqlite:///" + os.path.join(workdir, "asgi.sqlite3"), "validators": ["nostr_relay.validators.is_signed"]}
conf.pop("rate_limits", None)
path = os.path.join(workdir, "asgi.yaml")
yaml.safe_dump(conf, open(path, "w"))
sys.path.insert(0, "/verif")
async def main():
    import falcon.testing
    app = web.create_app(path)
    from harness import env
    from nostr_relay.storage import get_storage, get_metadata
    st = get_storage()
    out = {}
    async with falcon.testing.ASGIConductor(app) as c:
        async with st.db.begin() as conn:
            await conn.run_sync(get_metadata().create_all)
        async with c.simulate_ws("/", remote_addr="9.9.9.9") as ws:
            for i in range(12):
                await ws.send_json(["EVENT", env.mk_event(i % 3, 1, env.NOW - 100 + i, [["t", "x"]], "asgi%d" % i)])
                await ws.receive_json()
            for lim in (None, 0, 1, 7, 8, 9, 100):
                f = {"kinds": [1]}
                if lim is not None:
                    f["limit"] = lim
                await ws.send_json(["REQ", "s%s" % lim, f])
                got = []
                while True:
                    m = await asyncio.wait_for(ws.receive_json(), 20)
                    if m[0] == "EOSE":
                        break
                    if m[0] == "EVENT":
                        got.append(m[2]["created_at"])
                out[str(lim)] = got
    print("RESULT " + json.dumps({"sql-asgi": out}))
    os._exit(0)
asyncio.run(main())
'''


def suite_cap_plain_subscribe(tier, seed):
    """max_limit configured before the storage modules are imported; REQs through the plain websocket subscribe path"""
    import json
    import os
    import subprocess
    import sys
    s = Suite("oracle:limit-cap-plain-subscribe")
    s.rule = ("fresh interpreter, Config.max_limit = 8 set before nostr_relay.storage is imported, 12 matching events stored, REQ {kinds:[1]} with "
              "limit in {absent,0,1,7,8,9,100,10^12} through BaseStorage.subscribe without any default_limit argument, both backends: "
              "at most min(limit, 8) events, and they are the newest; and the same through web.create_app(<yaml with max_limit: 8>) + websocket in a "
              "fresh interpreter that imports nostr_relay.web BEFORE the configuration is read (what asgi.py does)")
    repo = os.environ.get("VERIF_REPO", "/repo")
    p = subprocess.run([sys.executable, "-c", CAP_SCRIPT, os.path.join(repo, "test", "test_config.yaml")],
                       stdout=subprocess.PIPE, stderr=subprocess.PIPE, timeout=300,
                       env=dict(os.environ, PYTHONPATH="%s:/verif/shims:/verif" % repo))
    line = [l for l in p.stdout.decode().splitlines() if l.startswith("RESULT ")]
    if not line:
        s.case({"subprocess": "failed"}, nontrivial=False)
        s.disagree({"subprocess": "cap script"}, None, p.stderr.decode()[-1500:])
        return s
    out = json.loads(line[0][7:])
    # the same through the assembled application in the order a deployment imports and configures it
    import tempfile
    import shutil
    d = tempfile.mkdtemp(prefix="verif-asgi-")
    try:
        p2 = subprocess.run([sys.executable, "-c", ASGI_SCRIPT, os.path.join(repo, "test", "test_config.yaml"), d],
                            stdout=subprocess.PIPE, stderr=subprocess.PIPE, timeout=300,
                            env=dict(os.environ, PYTHONPATH="%s:/verif/shims:/verif" % repo))
    finally:
        shutil.rmtree(d, ignore_errors=True)
    line2 = [l for l in p2.stdout.decode().splitlines() if l.startswith("RESULT ")]
    if not line2:
        s.disagree({"subprocess": "asgi script"}, None, p2.stderr.decode()[-1500:])
    else:
        out.update(json.loads(line2[0][7:]))
    newest = sorted([env.NOW - 100 + i for i in range(12)], reverse=True)
    for backend, res in out.items():
        for lim, got in res.items():
            eff = 8 if lim == "None" else min(int(lim), 8)
            case = {"backend": backend, "limit": lim, "max_limit": 8, "stored_matching": 12}
            s.case(case, nontrivial=True)
            if len(got) > eff or sorted(got, reverse=True) != newest[:len(got)] or len(got) < min(eff, 12):
                s.violate("limit-cap-or-newest", case, "a REQ through the plain subscribe path is not answered with the newest min(limit, max_limit) events",
                          expected=newest[:eff], observed=got)
    return s


# ------------------------------------------------------------------------------------ C20
def suite_announce_all_accepted(tier, seed):
    """the id of EVERY event accepted by a worker is handed to the notifier exactly once (whatever its kind),
    and nothing else is (refused events, duplicates)"""
    s = Suite("oracle:announce-every-accepted-event")
    s.rule = ("a worker with a notifier attached (stub recording NotifyClient.notify calls) accepts events of kinds "
              "{0,1,5,7,10002,19999,20000,20001,29999,30000,30023}, refuses a badly signed one and sees duplicates; the announced ids must be "
              "exactly the ids acknowledged as new, each once; both backends")
    rng = rng_for(seed, "c20announce")

    class StubNotifier:
        def __init__(self):
            self.ids = []

        async def notify(self, event):
            self.ids.append(event.id)

    async def one(backend):
        env.load_config()
        env.patch_clock()
        sc = env.Scratch()
        st = await (env.sql_storage(sc) if backend == "sql" else env.kv_storage(sc))
        st.notifier = StubNotifier()
        kinds = [0, 1, 5, 7, 10002, 19999, 20000, 20001, 29999, 30000, 30023]
        rng.shuffle(kinds)
        expected = []
        sent = []
        for i, k in enumerate(kinds):
            e = env.mk_event(rng.randrange(3), k, env.NOW - 50 + i, [["d", "x"]] if k >= 30000 else [], "n%d" % i)
            r = await _submit(st, e)
            sent.append([k, r])
            if r == "true":
                expected.append(e["id"])
            if rng.random() < 0.3:
                r2 = await _submit(st, e)           # duplicate
                sent.append([k, "dup:" + r2])
                if r2 == "true":
                    expected.append(e["id"])
            await env.quiesce(st)
        bad = env.mk_event(0, 1, env.NOW - 5, [], "bad")
        bad["sig"] = "00" * 64
        sent.append([1, await _submit(st, bad)])
        for _ in range(3):
            for t in list(st._notify_sub_tasks):
                try:
                    await t
                except Exception:
                    pass
            await asyncio.sleep(0)
        got = list(st.notifier.ids)
        await env.close(st)
        sc.close()
        return {"backend": backend, "submissions": sent}, expected, got
    for backend in ("sql", "kv"):
        for _ in range(2 if tier == "quick" else 12):
            case, expected, got = env.run(one(backend))
            s.case(case, nontrivial=len(expected) > 3)
            if sorted(expected) != sorted(got):
                missing = [x for x in expected if x not in got]
                s.violate("accepted-event-not-announced" if missing else "announced-more-than-accepted", case,
                          "the ids handed to the notifier are not exactly the ids of the events accepted as new",
                          expected=len(expected), observed={"announced": len(got), "missing": missing[:3]})
    return s


# ------------------------------------------------------------------------------------ C08 / C09 / C17
def suite_removed_unreachable_after_read(tier, seed, how_list=("delete5", "replace", "gc")):
    """an event that was READ through every access path before it is removed (deleted by its author, superseded,
    garbage-collected) is afterwards absent from every access path - catches caches that are not invalidated"""
    s = Suite("oracle:removed-unreachable-after-read")
    s.rule = ("an event is stored and read through get_event (the /e/<id> path), REQ by id, by author+kind and by tag; then it is removed "
              "(%s); then it is read again through the same paths, twice: it must not be served by any; a control event that is not "
              "removed must still be served; both backends" % ", ".join(how_list))
    rng = rng_for(seed, "unreach-" + "-".join(how_list))

    async def reads(st, ev):
        out = {}
        try:
            g = await st.get_event(ev["id"])
            out["get_event"] = bool(g)
        except Exception as e:
            out["get_event"] = "crash:" + type(e).__name__
        for name, f in (("ids", {"ids": [ev["id"]]}), ("author_kind", {"authors": [ev["pubkey"]], "kinds": [ev["kind"]]}),
                        ("tag", {"#t": ["rr"]})):
            got, _ = await env.req(st, [f])
            out[name] = any(e.id == ev["id"] for e in got)
        return out

    async def one(backend, how):
        from nostr_relay.storage.db import QueryGarbageCollector
        env.load_config()
        env.patch_clock()
        env.set_clock(env.NOW)
        sc = env.Scratch()
        st = await (env.sql_storage(sc) if backend == "sql" else env.kv_storage(sc))
        who = rng.randrange(3)
        kind = {"delete5": 1, "replace": 10002, "gc": 1}[how]
        tags = [["t", "rr"]] + ([["expiration", str(env.NOW + 50)]] if how == "gc" else [])
        victim = env.mk_event(who, kind, env.NOW - 100, tags, "victim %d" % rng.randrange(10 ** 6))
        control = env.mk_event((who + 1) % 3, 1, env.NOW - 90, [["t", "rr"]], "control %d" % rng.randrange(10 ** 6))
        await _submit(st, victim)
        await _submit(st, control)
        await env.quiesce(st)
        before = await reads(st, victim)
        if how == "delete5":
            await _submit(st, env.mk_event(who, 5, env.NOW - 10, [["e", victim["id"]]], ""))
        elif how == "replace":
            await _submit(st, env.mk_event(who, kind, env.NOW - 10, [["t", "rr"]], "newer"))
        else:
            env.set_clock(env.NOW + 100)
            if backend == "sql":
                await QueryGarbageCollector(st).run_once()
            else:
                from nostr_relay.storage.kv import KVGarbageCollector
                await KVGarbageCollector(st).run_once()
            env.set_clock(env.NOW)
        await env.quiesce(st)
        after = await reads(st, victim)
        after2 = await reads(st, victim)
        ctl = await reads(st, control)
        await env.close(st)
        sc.close()
        return {"backend": backend, "removed_by": how}, {"before": before, "after": after, "after_again": after2, "control": ctl}
    for backend in ("sql", "kv"):
        for how in how_list:
            for _ in range(1 if tier == "quick" else 4):
                case, obs = env.run(one(backend, how))
                s.case(case, nontrivial=all(v is True for v in obs["before"].values()))
                served = [k for k, v in list(obs["after"].items()) + list(obs["after_again"].items()) if v is not False]
                lost = [k for k, v in obs["control"].items() if v is not True]
                if served:
                    s.violate("removed-event-still-served", case, "a removed event is still served through: %s" % sorted(set(served)), observed=obs)
                elif lost:
                    s.violate("unrelated-event-lost", case, "an event that was not removed is no longer served through: %s" % lost, observed=obs)
    return s


# ------------------------------------------------------------------------------------ C07: real process kills on SQLite
KILL_SCRIPT = r'''
import sys, json, os, signal, asyncio, logging
logging.disable(logging.CRITICAL)
sys.path.insert(0, "/verif")
from harness import env
import sqlalchemy as sa
from sqlalchemy.engine import Engine
path, history, kill_at = sys.argv[1], json.loads(sys.argv[2]), int(sys.argv[3])
async def main():
    from nostr_relay.storage import get_metadata
    from nostr_relay.storage.db import DBStorage
    env.load_config()
    env.patch_clock()
    o = {"sqlalchemy.url": "sqlite+aiosqlite:///" + path, "validators": ["nostr_relay.validators.is_signed"]}
    from nostr_relay.config import Config
    Config.storage = dict(o)
    st = DBStorage(o)
    await st.setup()
    async with st.db.begin() as conn:
        await conn.run_sync(get_metadata().create_all)
    if kill_at == -2:
        # restart after the kill: the relay opens the database the way it does at start-up, a client reads, the relay shuts down
        from harness.env import req
        st._backend = "sql"
        await req(st, [{"kinds": [1, 5, 10002]}])
        await st.close()
        return
    for ev in history[:-1]:
        await st.add_event(dict(ev))
    n = [0]
    def before(conn, cursor, statement, parameters, context, executemany):
        if statement.lstrip().upper().startswith(("PRAGMA",)):
            return
        if n[0] == kill_at:
            os.kill(os.getpid(), signal.SIGKILL)
        n[0] += 1
    if kill_at >= 0:
        sa.event.listen(Engine, "before_cursor_execute", before)
    try:
        await st.add_event(dict(history[-1]))
    except Exception as e:
        print("EXC", type(e).__name__)
    print("STATEMENTS", n[0])
    await st.close()
env.run(main())
'''


def _sqlite_dump(path):
    import sqlite3
    con = sqlite3.connect(path)
    try:
        ev = sorted(r[0].hex() for r in con.execute("SELECT id FROM events"))
        tg = sorted((r[0].hex(), r[1], r[2]) for r in con.execute("SELECT id, name, value FROM tags"))
        ok = con.execute("PRAGMA integrity_check").fetchone()[0]
    finally:
        con.close()
    return {"events": ev, "tags": [list(t) for t in tg], "integrity": ok}


def suite_sqlite_kill(tier, seed):
    """SIGKILL of the relay process at every statement of the transaction that applies one event, then the
    database file is reopened by another process: it must be exactly the state before or after that event."""
    import json
    import os
    import subprocess
    import sys
    import tempfile
    import shutil
    s = Suite("fault:sqlite-process-kill")
    s.rule = ("a history is applied by a child process to a file-backed SQLite database; while it applies the last event (a replacement that "
              "supersedes older versions and writes tag rows, or a kind-5 deletion with several references) the child SIGKILLs itself just before "
              "its k-th statement, for every k; a fresh relay process is started on the file (DBStorage.setup, a REQ, close) and then the parent "
              "reopens it with the sqlite3 module: integrity_check ok and events+tags equal to the dump without the last event or with it")
    rng = rng_for(seed, "sqlkill")
    repo = os.environ.get("VERIF_REPO", "/repo")
    envv = dict(os.environ, PYTHONPATH="%s:/verif/shims:/verif" % repo)

    def run_child(path, hist, k):
        return subprocess.run([sys.executable, "-c", KILL_SCRIPT, path, json.dumps(hist), str(k)], stdout=subprocess.PIPE,
                              stderr=subprocess.PIPE, timeout=120, env=envv)
    for h in range(1 if tier == "quick" else 8):
        who = rng.randrange(3)
        if rng.random() < 0.5:
            hist = [env.mk_event(who, 10002, env.NOW - 100 + i, [["r", "wss://x%d" % i], ["t", "k"]], "v%d" % i) for i in (0, 2)]
            hist.append(env.mk_event((who + 1) % 3, 1, env.NOW - 50, [["t", "k"]], "other"))
            hist.append(env.mk_event(who, 10002, env.NOW - 10, [["r", "wss://new"], ["t", "k"], ["p", env.PUBS[3]]], "newest"))
            kind = "replacement"
        else:
            hist = [env.mk_event(who, 1, env.NOW - 100 + i, [["t", "k"]], "n%d" % i) for i in range(3)]
            hist.append(env.mk_event(who, 5, env.NOW - 10, [["e", e["id"]] for e in hist[:3]] + [["t", "k"]], "bye"))
            kind = "deletion"
        d = tempfile.mkdtemp(prefix="verif-kill-")
        try:
            pold, pnew = os.path.join(d, "old.sqlite3"), os.path.join(d, "new.sqlite3")
            r = run_child(pold, hist[:-1] + [hist[-2]], -1)     # old state: the last event withheld (a duplicate of the previous is a no-op)
            r2 = run_child(pnew, hist, -1)
            if r.returncode != 0 or r2.returncode != 0:
                s.disagree({"history": kind}, None, (r.stderr.decode()[-500:], r2.stderr.decode()[-500:]))
                continue
            old, new = _sqlite_dump(pold), _sqlite_dump(pnew)
            nstmt = int([l for l in r2.stdout.decode().splitlines() if l.startswith("STATEMENTS")][0].split()[1]) if b"STATEMENTS" in r2.stdout else 12
            for k in range(0, 40):
                pk = os.path.join(d, "k%d.sqlite3" % k)
                rk = run_child(pk, hist, k)
                case = {"history": kind, "kill_before_statement": k}
                if rk.returncode == 0:
                    break                      # k is beyond the transaction: the event was applied without a kill
                rr = run_child(pk, hist, -2)       # the relay is restarted on the killed database before the parent looks at it
                if rr.returncode != 0:
                    s.violate("restart-after-kill-failed", case, "the relay could not be started again on the database of the killed process",
                              observed=rr.stderr.decode()[-400:])
                got = _sqlite_dump(pk)
                s.case(case, nontrivial=True)
                s.count("killed_" + kind)
                if got["integrity"] != "ok" or {k2: got[k2] for k2 in ("events", "tags")} not in (
                        {k2: old[k2] for k2 in ("events", "tags")}, {k2: new[k2] for k2 in ("events", "tags")}):
                    s.violate("state-in-between-after-kill", case, "after SIGKILL the reopened database is neither the state before nor after the event",
                              expected={"old": old["events"], "new": new["events"]}, observed=got)
        finally:
            shutil.rmtree(d, ignore_errors=True)
    if s.cases < 2:
        s.case({"note": "no kill point reached"}, nontrivial=False)
        s.case({"note": "no kill point reached (2)"}, nontrivial=False)
    return s


# ------------------------------------------------------------------------------------ C16 / C03: every storage built from the configuration validates
def suite_second_instance_policies(tier, seed):
    s = Suite("oracle:policies-on-every-storage-instance")
    s.rule = ("two storages are built one after the other from the SAME Config.storage dict (what get_storage(reload=True) does), with the "
              "validators is_signed + is_recent configured, and once without a validators key; each is offered a forged event (bad sig) and a "
              "validly signed but too old event: every instance must refuse both (the instance without configured validators: the forged one); both backends")
    from nostr_relay.config import Config

    async def one(backend, with_key):
        env.load_config(oldest_event=1000)
        env.patch_clock()
        sc = env.Scratch()
        outs = []
        if backend == "sql":
            from nostr_relay.storage import get_metadata
            from nostr_relay.storage.db import DBStorage
            Config.storage = {"sqlalchemy.url": "sqlite+aiosqlite:///" + sc.path(".sqlite3")}
            mk = DBStorage
        else:
            from nostr_relay.storage import kv
            env.stub_analyze(kv)
            Config.storage = {"class": "nostr_relay.storage.kv.LMDBStorage", "path": "second-%d" % id(sc)}
            mk = kv.LMDBStorage
        if with_key:
            Config.storage["validators"] = ["nostr_relay.validators.is_signed", "nostr_relay.validators.is_recent"]
        for inst in range(2):
            st = mk(Config.storage)
            await st.setup()
            if backend == "sql":
                async with st.db.begin() as conn:
                    await conn.run_sync(get_metadata().create_all)
                st._backend = "sql"
            else:
                st._backend = "kv"
                st._submitted = 0
                import lmdb
                st._base_done = lmdb.WRITE_TXNS_DONE[0]
            forged = env.mk_event(0, 1, env.NOW - 5, [], "forged %d" % inst)
            forged["sig"] = "00" * 64
            old = env.mk_event(1, 1, env.NOW - 5000, [], "old %d" % inst)
            r = {"instance": inst, "forged": await _submit(st, forged), "too_old": await _submit(st, old)}
            outs.append(r)
            await asyncio.sleep(0.05)
            await env.close(st)
        sc.close()
        return {"backend": backend, "validators_configured": with_key}, outs
    for backend in ("sql", "kv"):
        for with_key in (True, False):
            case, outs = env.run(one(backend, with_key))
            s.case(case, nontrivial=True)
            for r in outs:
                bad = [k for k in (("forged", "too_old") if with_key else ("forged",)) if not r[k].startswith("refused")]
                if bad:
                    s.violate("storage-instance-without-validators", case,
                              "storage instance %d built from the same configuration admitted: %s" % (r["instance"], bad), observed=outs)
                    break
    return s


# ------------------------------------------------------------------------------------ C03 / C04: what is stored and served is what was signed
async def _frames_for(st, filters, sub_id="fr"):
    """one REQ through web.start_client; the frames the client receives up to EOSE / NOTICE, each parsed as JSON ("UNPARSABLE" otherwise)"""
    import falcon
    from nostr_relay import web
    from . import relay
    sent, inbox = [], asyncio.Queue()

    async def ws_send(text):
        try:
            sent.append(json.loads(text))
        except Exception:
            sent.append("UNPARSABLE")

    async def ws_recv():
        item = await inbox.get()
        if item is None:
            raise falcon.WebSocketDisconnected()
        return item

    async def ws_close(code=1000):
        sent.append(["CLOSED", code])
    task = asyncio.create_task(web.start_client(st, ws_send, ws_recv, ws_close, logging.getLogger("verif.frames"), rate_limiter=relay.NullLimiter(),
                                                remote_addr="10.6.0.1"))
    inbox.put_nowait(json.dumps(["REQ", sub_id] + list(filters)))
    for _ in range(5000):
        await asyncio.sleep(0.002)
        if any(isinstance(f, list) and f and f[0] in ("EOSE", "NOTICE", "CLOSED") for f in sent) or task.done():
            break
    inbox.put_nowait(None)
    await asyncio.wait([task], timeout=10)
    return sent


async def _frames_for_messages(st, texts):
    """raw texts through one web.start_client session; waits for as many OK / NOTICE / CLOSED frames as texts were sent"""
    import falcon
    from nostr_relay import web
    from . import relay
    sent, inbox = [], asyncio.Queue()

    async def ws_send(text):
        try:
            sent.append(json.loads(text))
        except Exception:
            sent.append("UNPARSABLE")

    async def ws_recv():
        item = await inbox.get()
        if item is None:
            raise falcon.WebSocketDisconnected()
        return item

    async def ws_close(code=1000):
        sent.append(["CLOSED", code])
    env.patch_web_sleep()
    task = asyncio.create_task(web.start_client(st, ws_send, ws_recv, ws_close, logging.getLogger("verif.msgs"), rate_limiter=relay.NullLimiter(),
                                                remote_addr="10.6.0.2"))
    for tx in texts:
        n0 = len(sent)
        inbox.put_nowait(tx)
        for _ in range(5000):
            await asyncio.sleep(0.002)
            if any(isinstance(f, list) and f and f[0] in ("OK", "NOTICE", "CLOSED") for f in sent[n0:]) or task.done():
                break
    inbox.put_nowait(None)
    await asyncio.wait([task], timeout=10)
    return sent


def suite_served_is_signed(tier, seed):
    """accepted events over many kinds and tag shapes come back field for field (stored REQ, get_event, live) and still
    verify with the harness's own NIP-01 hash; catches rewriting of an event after verification"""
    s = Suite("oracle:served-event-is-the-signed-event")
    s.rule = ("validly signed events over kinds {0,1,3,5,7,10002,30000,30023} x tag shapes (bare [d], [d,''], upper-case hex in e/p values, integers, "
              "unicode, empty strings, duplicate tags, long values) are submitted; each accepted event is read back through a stored REQ, get_event "
              "a live push and the EVENT frame a websocket client receives for a REQ by id (parsed as JSON): every field equal to what was sent and "
              "id = sha256 of the NIP-01 serialization of the served fields; both backends")
    rng = rng_for(seed, "served")
    H = "AB" * 32
    shapes = [[], [["d"]], [["d", ""]], [["d", "x"], ["d", "y"]], [["e", H], ["p", H.lower()]], [["p", "Ab" * 32]], [["t", ""], ["t", ""]],
              [["expiration", 1822439711]], [["k", 1], ["t", "é😀"]], [["t", "v" * 300]], [["d"], ["t", "x"]], [["e", H, "wss://r", "root"]]]

    async def one(backend):
        env.load_config()
        env.patch_clock()
        sc = env.Scratch()
        st = await (env.sql_storage(sc) if backend == "sql" else env.kv_storage(sc))
        q = asyncio.Queue()
        await st.subscribe(env.FakeClient("live"), "live", [{"authors": env.PUBS[:3]}], q)
        await env.drain_to_eose(q)
        bad = []
        n = 0
        kinds = [0, 1, 3, 5, 7, 10002, 30000, 30023]
        combos = [(k, sh) for k in kinds for sh in shapes]
        if tier == "quick":
            # every tag shape on a regular and on a parameterized replaceable kind, plus a sample of the rest
            core = [(k, sh) for k in (1, 30000) for sh in shapes]
            combos = core + rng.sample([c for c in combos if c not in core], 16)
        for i, (k, sh) in enumerate(combos):
            e = env.mk_event(i % 3, k, env.NOW - 1000 + i, [list(t) for t in sh], "c%d \u0000\"\\ \u00e9\U0001F600" % i)
            r = await _submit(st, e)
            if r != "true":
                continue
            n += 1
            await env.quiesce(st)
            views = {}
            got, _ = await env.req(st, [{"ids": [e["id"]]}])
            views["stored"] = env.ev_obj(got[0]) if got else None
            g = await st.get_event(e["id"])
            views["get_event"] = env.ev_obj(g) if g else None
            # ... and what a websocket client actually receives: the EVENT frame of a REQ for that id, parsed as JSON
            fr = await _frames_for(st, [{"ids": [e["id"]]}])
            evf = [f[2] for f in fr if isinstance(f, list) and len(f) == 3 and f[0] == "EVENT" and isinstance(f[2], dict)]
            if any(f == "UNPARSABLE" for f in fr):
                bad.append({"kind": k, "tags": sh, "path": "frame", "sent_tags": e["tags"], "served_tags": "frame is not JSON", "rehash_ok": False})
            views["frame"] = evf[0] if evf else None
            for t in list(st._notify_sub_tasks):
                try:
                    await t
                except Exception:
                    pass
            live = [it[1] for it in [q.get_nowait() for _ in range(q.qsize())] if it[1] is not None and it[1].id == e["id"]]
            views["live"] = env.ev_obj(live[0]) if live else None
            for name, v in views.items():
                if v is None:
                    continue            # absence is judged by other properties (replaced / deleted meanwhile)
                same = all(json_eq(v[f], e[f]) for f in ("id", "pubkey", "created_at", "kind", "tags", "content", "sig"))
                rehash = env.compute_id(v["pubkey"], v["created_at"], v["kind"], v["tags"], v["content"]) == v["id"]
                if not same or not rehash:
                    bad.append({"kind": k, "tags": sh, "path": name, "sent_tags": e["tags"], "served_tags": v["tags"], "rehash_ok": rehash})
        await env.close(st)
        sc.close()
        return n, bad
    for backend in ("sql", "kv"):
        n, bad = env.run(one(backend))
        s.case({"backend": backend, "accepted": n}, nontrivial=n > 5)
        s.case({"backend": backend, "shapes": len(shapes)}, nontrivial=True)
        if n == 0:
            s.disagree({"backend": backend}, "some events accepted", "none of the generated events was accepted: the oracle explored nothing")
        if bad:
            s.violate("served-event-differs-from-signed", {"backend": backend, "first": bad[0]},
                      "an accepted event is served with different fields / no longer hashes to its id", observed=bad[:3])
    return s


def json_eq(a, b):
    if isinstance(a, (list, tuple)) and isinstance(b, (list, tuple)):
        return len(a) == len(b) and all(json_eq(x, y) for x, y in zip(a, b))
    return type(a) is type(b) and a == b


# ------------------------------------------------------------------------------------ C04: frames of the rate-limited branch
def suite_limited_frames(tier, seed):
    s = Suite("oracle:rate-limited-frames-wellformed")
    s.rule = ("EVENT / REQ / CLOSE messages refused by the rate limiter (scripted verdict) whose payload ids are hostile strings (quotes, backslashes, "
              "newlines, controls, non-BMP) or non-strings: every frame sent must parse as JSON of shape OK / NOTICE, an OK must echo the id string exactly")
    import json as _json
    from . import relay

    async def one():
        d = relay.Driver("sql")
        await d.start()
        await d.open(0)
        ids = ['abc"def', "abc\\", 'x","y', "line\nbreak", "\u0000\u001f", "😀", "", "é" * 70, 5, None, ["x"], {"a": 1}]
        for i in ids:
            await d.msg(0, ["EVENT", {"id": i}], limited=True)
        await d.msg(0, ["REQ", 'q"', {"kinds": [1]}], limited=True)
        await d.msg(0, ["CLOSE", "q\\"], limited=True)
        sent = list(d.conns[0].sent)
        await d.finish()
        return ids, sent
    ids, sent = env.run(one())
    s.case({"ids": [repr(i) for i in ids]}, nontrivial=True)
    s.case({"frames": len(sent)}, nontrivial=True)
    for k, raw in enumerate(sent):
        try:
            v = _json.loads(raw)
            ok = isinstance(v, list) and v and ((v[0] == "OK" and len(v) == 4 and v[2] is False) or (v[0] == "NOTICE" and len(v) == 2))
            if ok and v[0] == "OK" and k < len(ids) and isinstance(ids[k], str):
                ok = v[1] == ids[k]
        except Exception:
            ok = False
        if not ok:
            s.violate("rate-limited-frame-malformed", {"frame_index": k, "id": repr(ids[k]) if k < len(ids) else None},
                      "a frame sent for a rate-limited message is not well-formed JSON of OK / NOTICE shape echoing the id", observed=raw[:200])
            break
    if len(sent) != len(ids) + 2:
        s.violate("rate-limited-frame-count", {"expected": len(ids) + 2}, "not exactly one frame per rate-limited message", observed=len(sent))
    return s


# ------------------------------------------------------------------------------------ C09 / C06: several d tags - the first one names the address
def suite_multi_d_tags(tier, seed):
    s = Suite("oracle:first-d-tag-names-the-address")
    s.rule = ("parameterized replaceable events carrying two d tags ([d,a],[d,ab] / [d],[d,a] / [d,''],[d,a]); a newer event of the same author and kind "
              "whose d value equals the SECOND d tag of the stored one must not remove it (other address), one whose d value equals the FIRST must; "
              "in-order and out-of-order arrival; both backends")
    rng = rng_for(seed, "multid")
    shapes = [([["d", "a"], ["d", "ab"]], "a", "ab"), ([["d"], ["d", "a"]], "", "a"), ([["d", ""], ["d", "x"]], "", "x"),
              ([["d", "profile"], ["d", "settings"]], "profile", "settings")]

    async def one(backend, tags, first, second, order):
        env.load_config()
        env.patch_clock()
        sc = env.Scratch()
        st = await (env.sql_storage(sc) if backend == "sql" else env.kv_storage(sc))
        who = rng.randrange(3)
        kind = rng.choice([30000, 30023])
        x = env.mk_event(who, kind, env.NOW - 100, [list(t) for t in tags], "two d tags")
        y_other = env.mk_event(who, kind, env.NOW - 50, [["d", second]], "newer, address = second d")
        y_same = env.mk_event(who, kind, env.NOW - 40, [["d", first]] if first else [], "newer, address = first d")
        seq = [x, y_other] if order == "in" else [y_other, x]
        res = []
        for e in seq:
            res.append(await _submit(st, e))
            await env.quiesce(st)
        ids1 = set(await env.stored_ids(st))
        res.append(await _submit(st, y_same))
        await env.quiesce(st)
        ids2 = set(await env.stored_ids(st))
        await env.close(st)
        sc.close()
        return {"backend": backend, "tags": tags, "order": order}, {
            "acks": res, "x_kept_with_other_address": x["id"] in ids1, "other_stored": y_other["id"] in ids1,
            "x_removed_by_same_address": x["id"] not in ids2, "other_still_stored": y_other["id"] in ids2, "same_stored": y_same["id"] in ids2}
    for backend in ("sql", "kv"):
        for tags, first, second in shapes:
            for order in ("in", "out"):
                case, obs = env.run(one(backend, tags, first, second, order))
                s.case(case, nontrivial=True)
                ok = obs["x_kept_with_other_address"] and obs["other_stored"] and obs["x_removed_by_same_address"] and obs["other_still_stored"] and obs["same_stored"]
                if not ok:
                    s.violate("address-not-from-first-d-tag", case, "replacement did not go by the first d tag", observed=obs)
    return s


# ------------------------------------------------------------------------------------ C05 / C19: a stalled reader must not stall the others
def suite_stalled_reader(tier, seed):
    s = Suite("oracle:stalled-reader-does-not-stall-others")
    s.rule = ("three connections through web.start_client: S subscribes to everything and stops reading (its ws_send never completes), H subscribes "
              "to the same and reads normally, P publishes N=1100 accepted events: every EVENT of P is answered by its OK without waiting for S, and "
              "H receives all N as live pushes, in order")
    from . import relay
    import json as _json
    N = 1100 if tier == "quick" else 2500

    async def main():
        from nostr_relay import web
        env.load_config(subscription_limit=5)
        env.patch_clock()
        env.patch_web_sleep()
        sc = env.Scratch()
        st = await env.sql_storage(sc)
        import falcon, logging

        class C:
            def __init__(self, stalled=False):
                self.inbox = asyncio.Queue()
                self.sent = []
                self.stalled = stalled
                self.block = asyncio.Event()

            async def send(self, text):
                if self.stalled and text.startswith('["EVENT"'):
                    await self.block.wait()
                self.sent.append(text)

            async def recv(self):
                item = await self.inbox.get()
                if item is None:
                    raise falcon.WebSocketDisconnected()
                return item

            async def close(self, code=1000):
                pass
        conns = {k: C(stalled=(k == "S")) for k in "SHP"}
        tasks = {k: asyncio.create_task(web.start_client(st, c.send, c.recv, c.close, logging.getLogger("x"), rate_limiter=relay.NullLimiter(),
                                                         remote_addr="10.1.1.%d" % i)) for i, (k, c) in enumerate(conns.items())}
        for k in "SH":
            conns[k].inbox.put_nowait(_json.dumps(["REQ", "all", {"kinds": [1]}]))
        for _ in range(2000):          # both stored answers (empty) must be complete before anything is published
            await asyncio.sleep(0.005)
            if all(any(x.startswith('["EOSE"') for x in conns[k].sent) for k in "SH"):
                break
        evs = [env.mk_event(i % 3, 1, env.NOW - 5000 + i, [], "s%d" % i) for i in range(N)]
        wedged_at = None
        for i, e in enumerate(evs):
            before = len([x for x in conns["P"].sent if x.startswith('["OK"')])
            conns["P"].inbox.put_nowait(_json.dumps(["EVENT", e]))
            deadline = asyncio.get_running_loop().time() + 30          # real time: a loaded machine is not a wedged relay
            spins = 0
            while True:
                await asyncio.sleep(0)
                if len([x for x in conns["P"].sent[-3:] if x.startswith('["OK"')]) and len(conns["P"].sent) > before:
                    break
                spins += 1
                if spins % 200 == 199:
                    await asyncio.sleep(0.005)
                if asyncio.get_running_loop().time() > deadline:
                    wedged_at = i
                    break
            if wedged_at is not None:
                break
        for _ in range(1000):
            await asyncio.sleep(0.01)
            if sum(1 for x in conns["H"].sent if x.startswith('["EVENT"')) >= (N if wedged_at is None else 0):
                break
        await asyncio.sleep(0.05)
        got_h = [_json.loads(x)[2]["id"] for x in conns["H"].sent if x.startswith('["EVENT"')]
        oks = len([x for x in conns["P"].sent if x.startswith('["OK"')])
        conns["S"].block.set()
        for c in conns.values():
            c.inbox.put_nowait(None)
        done, pending = await asyncio.wait(list(tasks.values()), timeout=10)
        for t in pending:
            t.cancel()
        await env.close(st)
        sc.close()
        return {"wedged_at": wedged_at, "oks": oks, "healthy_received": len(got_h),
                "healthy_in_order": got_h == [e["id"] for e in evs][:len(got_h)], "handlers_left_running": len(pending)}
    obs = env.run(main())
    s.case({"events": N}, nontrivial=True)
    s.case({"connections": 3}, nontrivial=True)
    if obs["wedged_at"] is not None or obs["oks"] != N or obs["healthy_received"] != N or not obs["healthy_in_order"]:
        s.violate("stalled-reader-stalls-others", {"events": N}, "a connection that stopped reading delays or blocks the publisher / another subscriber",
                  expected={"oks": N, "healthy_received": N}, observed=obs)
    return s


# ------------------------------------------------------------------------------------ C05: pushed live => returned by the same filter afterwards
def suite_live_then_stored(tier, seed):
    s = Suite("oracle:pushed-live-implies-stored-answer")
    s.rule = ("subscriptions with filters (kinds / authors / #t / since) stay open; regular-kind events incl. integer extremes for kind and created_at, "
              "long tag values and odd tag shapes are submitted; every event pushed live under a filter must be returned by the same filter in a "
              "stored query afterwards (timestamps equal to a bound and ephemeral kinds excepted), and vice versa; both backends")
    rng = rng_for(seed, "livestored")

    async def one(backend):
        env.load_config()
        env.patch_clock()
        sc = env.Scratch()
        st = await (env.sql_storage(sc) if backend == "sql" else env.kv_storage(sc))
        filters = {"k": {"kinds": [1, 7, 2 ** 32, 2 ** 63]}, "a": {"authors": [env.PUBS[0]]}, "t": {"#t": ["x", "v" * 500]}, "s": {"since": env.NOW - 500}}
        qs = {}
        for name, f in filters.items():
            qs[name] = asyncio.Queue()
            await st.subscribe(env.FakeClient(name), name, [dict(f)], qs[name])
            await env.drain_to_eose(qs[name])
        evs = []
        for i in range(24 if tier == "quick" else 120):
            kind = rng.choice([1, 1, 7, 2 ** 32 - 1, 2 ** 32, 2 ** 63, 40000])
            ts = rng.choice([env.NOW - 900 + i, env.NOW - 100 + i, 2 ** 32 - 1, 2 ** 32 + 5])
            tags = rng.choice([[], [["t", "x"]], [["t", "v" * 500]], [["t", "x"], ["t", "x"]], [["t"]]])
            e = env.mk_event(rng.randrange(3), kind, ts, tags, "ls%d" % i)
            r = await _submit(st, e)
            evs.append((e, r))
        await env.quiesce(st)
        for _ in range(3):
            for t in list(st._notify_sub_tasks):
                try:
                    await t
                except Exception:
                    pass
            await asyncio.sleep(0)
        bad = []
        for name, f in filters.items():
            live = {it[1].id for it in [qs[name].get_nowait() for _ in range(qs[name].qsize())] if it[1] is not None}
            got, _ = await env.req(st, [dict(f, limit=5000)], sub_id="again-" + name)
            stored = {e.id for e in got}
            for e, r in evs:
                if e["created_at"] == f.get("since"):
                    continue
                if (e["id"] in live) != (e["id"] in stored):
                    bad.append({"filter": name, "kind": e["kind"], "created_at": e["created_at"], "tags": [t[:2] for t in e["tags"]][:2], "ack": r,
                                "live": e["id"] in live, "stored_answer": e["id"] in stored})
        await env.close(st)
        sc.close()
        return len(evs), bad
    for backend in ("sql", "kv"):
        n, bad = env.run(one(backend))
        s.case({"backend": backend, "events": n}, nontrivial=True)
        if bad:
            s.violate("live-and-stored-disagree", {"backend": backend, "first": bad[0]},
                      "an event was pushed live under a filter but is not returned by that filter afterwards (or the reverse)", observed=bad[:3])
    return s


# ------------------------------------------------------------------------------------ replay of the oracles of this module
def registry():
    return {
        "oracle:forged-replay-after-removal": suite_replay_after_removal,
        "oracle:policy-reapplied-on-resubmission": suite_policy_reapplied,
        "oracle:recipe-is_whitelisted_or_tagged": suite_recipe_validator,
        "oracle:roles-readback-concurrent": suite_roles_concurrent,
        "oracle:roles-readback-burst": suite_roles_burst,
        "oracle:output-validator-own-context": suite_output_validator_context,
        "oracle:gc-periodic-passes": suite_gc_lifecycle,
        "oracle:kv-req-burst-every-req-answered": suite_kv_req_burst,
        "oracle:failing-query-still-answered": suite_failing_query_answered,
        "oracle:workers-share-accepted-events": suite_two_workers,
        "oracle:idle-timeout-closes-cleanly": suite_idle_timeout,
        "oracle:recipe-whitelist_output_validator": suite_homeserver_output,
        "fault:sql-concurrent-transactions": suite_concurrent_fault,
        "oracle:ack-agrees-despite-failed-broadcast": suite_ack_with_failing_broadcast,
        "oracle:kv-close-writes-acknowledged-events": suite_close_drains_queue,
        "oracle:many-older-versions-superseded": suite_many_versions,
        "oracle:connections-with-equal-id-strings-stay-apart": suite_colliding_client_ids,
        "oracle:config-derived-values-follow-reload": suite_config_reload,
        "oracle:publishing-while-connections-churn": suite_publish_during_churn,
        "oracle:ack-agrees-for-integer-tag-items": suite_int_tag_items,
        "oracle:limits-default-when-not-configured": suite_config_defaults,
        "oracle:roles-only-from-the-relay": suite_roles_forged,
        "oracle:refusal-is-not-remembered": suite_policy_relaxed,
        "oracle:accepted-relay-urls-stay-as-configured": suite_recipe_relay_urls,
        "oracle:forged-copy-racing-the-genuine-event": suite_forged_concurrent,
        "oracle:authorization-corner-cases": suite_authz_corners,
        "oracle:simultaneous-reqs-all-answered-in-full": suite_simultaneous_reqs,
        "oracle:abandoned-big-answers-do-not-starve-later-reqs": suite_abandoned_big_queries,
        "oracle:unloadable-validator-fails-closed": suite_unloadable_validator,
        "oracle:same-filter-object-same-answer": suite_filter_object_reuse,
        "oracle:registrations-dropped-when-the-peer-vanishes": suite_peer_gone,
        "oracle:limit-cap-plain-subscribe": suite_cap_plain_subscribe,
        "oracle:announce-every-accepted-event": suite_announce_all_accepted,
        "oracle:removed-unreachable-after-read": suite_removed_unreachable_after_read,
        "fault:sqlite-process-kill": suite_sqlite_kill,
        "oracle:policies-on-every-storage-instance": suite_second_instance_policies,
        "oracle:served-event-is-the-signed-event": suite_served_is_signed,
        "oracle:rate-limited-frames-wellformed": suite_limited_frames,
        "oracle:first-d-tag-names-the-address": suite_multi_d_tags,
        "oracle:stalled-reader-does-not-stall-others": suite_stalled_reader,
        "oracle:pushed-live-implies-stored-answer": suite_live_then_stored,
    }


def replay(payload):
    """./check Cxx --replay <file> for a violation found by one of the oracles above: the suites are deterministic in
    (tier, seed), so the replay re-runs the suite that found it and looks for the same class on the same case"""
    v = payload["violation"]
    fn = registry()[v["suite"]]
    s = fn(payload.get("tier", "quick"), payload.get("seed", 0))
    same = [x for x in s.violations if x["cls"] == v["cls"]]
    exact = [x for x in same if x["case"] == v["case"]]
    for x in (exact or same)[:3]:
        print("still failing:", x["cls"], x["what"], x.get("observed"))
    print("replay:", "FAIL" if same else "pass")
    return 1 if same else 0
