"""./check entry point (see DESIGN.md section 8)."""
import argparse
import importlib
import json
import os
import sys
import time
import traceback

from . import common


def setup():
    t0 = time.time()
    with common.BuildLock():
        fails = common.regenerate()
        for f in fails:
            print("translate failure:", f)
        common.refresh_makefile()
        rc, out = common.make()
        if rc != 0:
            print(out[-4000:])
            return 1
        import glob
        for run in sorted(glob.glob(os.path.join(common.COQ, "C[0-9][0-9]", "Run.v"))):
            pid = os.path.basename(os.path.dirname(run))
            rc, out = common.build_modeld(pid)
            if rc != 0:
                print(out[-4000:])
                return 1
    print("setup ok in %.0fs" % (time.time() - t0))
    return 0


def main():
    ap = argparse.ArgumentParser()
    ap.add_argument("pid", nargs="?")
    ap.add_argument("--setup", action="store_true")
    ap.add_argument("--tier", default=os.environ.get("VERIF_TIER", "quick"))
    ap.add_argument("--replay")
    ap.add_argument("--no-prove", action="store_true", help="development only: skip the proof step")
    a = ap.parse_args()
    if a.setup:
        sys.exit(setup())
    pid = a.pid.upper()
    seed = int(os.environ.get("VERIF_SEED", "0") or 0)
    mod = importlib.import_module("harness.props.%s" % pid.lower())
    if a.replay:
        payload = json.load(open(a.replay))
        sys.exit(mod.replay(common.unjson(payload)))
    import logging
    logging.disable(logging.CRITICAL)
    t0 = time.time()
    if a.no_prove:
        proof = {"obligations": ["dev"], "failed": [], "assumptions": {}, "log": ""}
    else:
        proof = common.prove(pid)
    suites = []
    try:
        suites = mod.run(a.tier, seed)
    except Exception:
        s = common.Suite("harness")
        s.rule = "harness crashed"
        s.disagree({"harness": "exception"}, None, traceback.format_exc()[-3000:])
        suites.append(s)
        traceback.print_exc()
    rc = common.conclude(pid, a.tier, seed, t0, proof, suites, getattr(mod, "ASSUMPTIONS", ()))
    sys.stdout.flush()
    os._exit(rc)


if __name__ == "__main__":
    main()
