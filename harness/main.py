"""./check entry point (see DESIGN.md section 8)."""
import argparse
import importlib
import json
import os
import sys
import time
import threading
import traceback

from . import common


def setup():
    """Build, from files on disk only, everything the registered checks need: regenerate the
    translated sources, compile the closure of every property file (full .vo), extract and link the
    per-property model drivers.  One property's breakage does not stop the others (make -k)."""
    import glob
    t0 = time.time()
    bad = []
    with common.BuildLock():
        fails = common.regenerate()
        for f in fails:
            print("translate failure:", f)
        common.refresh_makefile()
        pids = sorted(os.path.basename(p)[:-3].upper() for p in glob.glob(os.path.join(common.VERIF, "harness", "props", "[a-z]*.py"))
                      if os.path.basename(p) != "__init__.py")
        targets = []
        for pid in pids:
            if os.path.exists(os.path.join(common.COQ, "Props", pid + ".v")):
                targets.append("Props/%s.vo" % pid)
            if os.path.exists(os.path.join(common.COQ, pid, "Run.v")):
                targets.append("%s/Run.vo" % pid)
        rc, out = common.sh("timeout 3000 make -k -j16 %s 2>&1" % " ".join(targets), cwd=common.COQ, timeout=3100)
        if rc != 0:
            print(out[-3000:])
        for pid in pids:
            if os.path.exists(os.path.join(common.COQ, pid, "Run.vo")):
                rc2, out2 = common.build_modeld(pid)
                if rc2 != 0:
                    bad.append(pid)
                    print(out2[-1500:])
            elif os.path.exists(os.path.join(common.COQ, pid, "Run.v")):
                bad.append(pid)
    print("setup finished in %.0fs; not built: %s" % (time.time() - t0, bad or "none"))
    return 0


def main():
    ap = argparse.ArgumentParser()
    ap.add_argument("pid", nargs="?")
    ap.add_argument("--setup", action="store_true")
    ap.add_argument("--tier", default=os.environ.get("VERIF_TIER", "quick"))
    ap.add_argument("--replay")
    ap.add_argument("--no-prove", action="store_true", help="development only: skip the proof step")
    a = ap.parse_args()
    if a.setup:
        sys.exit(setup())
    pid = a.pid.upper()
    seed = int(os.environ.get("VERIF_SEED", "0") or 0)
    mod = importlib.import_module("harness.props.%s" % pid.lower())
    if a.replay:
        payload = common.unjson(json.load(open(a.replay)))
        first = payload.get("violation") or (payload.get("first_disagreements") or [{}])[0]
        if str(first.get("suite", "")).startswith("app:"):
            from . import app
            sys.exit(app.replay(payload))
        from . import extra
        if first.get("suite") in extra.registry() and payload.get("violation"):
            import logging
            logging.disable(logging.CRITICAL)
            rc = extra.replay(payload)
            sys.stdout.flush()
            os._exit(rc)
        sys.exit(mod.replay(payload))
    import logging
    logging.disable(logging.CRITICAL)
    t0 = time.time()
    if a.no_prove:
        proof = {"obligations": ["dev"], "failed": [], "assumptions": {}, "log": ""}
    else:
        proof = common.prove(pid)
    suites = []
    # a relay that wedges (a task that never finishes, a lock that is never released) must not leave the check without a verdict:
    # after the budget the check reports that it could not finish - which on the unchanged tree it does with a wide margin
    budget = float(os.environ.get("VERIF_BUDGET_S", 1800 if a.tier == "quick" else 2 * 3600))

    if proof.get("failed") and "VERIF_BUDGET_S" not in os.environ:
        # an obligation is already broken: what follows only searches for a failing input, and a search is allowed to give up
        budget = min(budget, 600 if a.tier == "quick" else 3600)

    def watchdog():
        import faulthandler
        time.sleep(budget)
        s = common.Suite("harness")
        s.rule = "the check did not finish within its time budget of %d s" % budget
        where = []
        try:
            main_frame = sys._current_frames().get(threading.main_thread().ident)
            where = [ln.strip().replace("\n", " | ") for ln in traceback.format_stack(main_frame) if "/harness/" in ln][-6:]
        except Exception:      # noqa
            pass
        s.disagree({"harness": "budget exceeded", "budget_s": budget, "stuck_in": where}, "the suites of this check finish (they take a few minutes on the unchanged tree)",
                   "still running after %d s: the code under test keeps the harness waiting (a wedged task / lock / query); no verdict could be reached" % budget)
        try:
            faulthandler.dump_traceback(file=sys.stderr)
        except Exception:
            pass
        rc = common.conclude(pid, a.tier, seed, t0, proof, [s], getattr(mod, "ASSUMPTIONS", ()))
        sys.stdout.flush()
        os._exit(rc if rc else 1)
    threading.Thread(target=watchdog, daemon=True).start()
    try:
        suites = mod.run(a.tier, seed)
        from . import app
        suites = list(suites) + app.suites_for(pid, a.tier, seed)
    except Exception:
        s = common.Suite("harness")
        s.rule = "harness crashed"
        s.disagree({"harness": "exception"}, None, traceback.format_exc()[-3000:])
        suites.append(s)
        traceback.print_exc()
    rc = common.conclude(pid, a.tier, seed, t0, proof, suites, getattr(mod, "ASSUMPTIONS", ()))
    sys.stdout.flush()
    os._exit(rc)


if __name__ == "__main__":
    main()
